// Package c08: YANG string arguments are decoded as RFC 6020 section 6.1.3 prescribes.
package c08

import (
	"fmt"
	"strings"
	"testing"

	"verifharness/fw"
	"verifharness/yg"

	"github.com/sdcio/yang-parser/parse"
	"pgregory.net/rapid"
)

// Case: one statement (keyword from a string-argument family) with its layout, placed after some lead-in text.
type Case struct {
	Stmt    *yg.Stmt `json:"stmt"`
	Wrapped bool     `json:"wrapped"` // put the statement inside an outer block
}

func genCase(t *rapid.T) Case {
	g := &yg.G{T: t, BackslashR: !fw.Known("c08.backslash-r-substituted"), Abut: !fw.Known("c08.comment-abuts-unquoted")}
	s := &yg.Stmt{Kw: []string{"description", "x:ext", "reference", "y:note"}[g.Pick(4, "kw")]}
	// place the keyword at a generated column: blanks / tabs / a line break before it
	lead := []string{"", " ", "    ", "\t", "\n", "\n    ", "\n\t\t", "        ", "  \t  ", "/* c */ ", "\r\n   "}[g.Pick(11, "lead")]
	s.T0 = lead
	s.Pieces, s.Plus = g.Arg()
	if g.Pick(3, "sameline") == 0 {
		s.T1 = []string{"\n", "\n      ", "\n\t", " // c\n   ", " /* c */ ", "\r\n  "}[g.Pick(6, "t1")]
	} else {
		s.T1 = strings.Repeat(" ", 1+g.Pick(30, "t1spaces"))
		if g.Pick(5, "t1tab") == 0 {
			s.T1 = "\t" + s.T1
		}
	}
	s.T2 = g.Trivia(s.Pieces[len(s.Pieces)-1].Q == "u", 2)
	s.Abut = s.Pieces[len(s.Pieces)-1].Q == "u" && yg.Abuts(s.Pieces[len(s.Pieces)-1].Raw, s.T2)
	return Case{Stmt: s, Wrapped: rapid.Bool().Draw(t, "wrapped")}
}

func classify(s *yg.Stmt) (labels []string, nontrivial bool) {
	seen := map[string]bool{}
	add := func(l string) {
		if !seen[l] {
			seen[l] = true
			labels = append(labels, l)
		}
	}
	if len(s.Pieces) >= 2 {
		add("concat")
		nontrivial = true
	}
	if s.Abut {
		add("comment-abuts-unquoted")
	}
	for _, p := range s.Pieces {
		add("piece:" + p.Q)
		if p.Q != "d" {
			continue
		}
		if strings.Contains(p.Raw, "\n") {
			add("multiline")
			nontrivial = true
			if strings.Contains(p.Raw, "\r\n") {
				add("crlf")
			}
			if strings.Contains(p.Raw, "\n\n") || strings.Contains(p.Raw, "\n\r\n") {
				add("blank-line")
			}
			for _, l := range strings.Split(p.Raw, "\n")[1:] {
				if strings.HasPrefix(l, "\t") || strings.HasPrefix(strings.TrimLeft(l, " "), "\t") {
					add("tab-indent")
				}
			}
			if strings.Contains(p.Raw, " \n") || strings.Contains(p.Raw, "\t\n") || strings.Contains(p.Raw, " \r\n") {
				add("trailing-blanks")
			}
		}
		if strings.Contains(p.Raw, "\\") {
			add("escape")
			nontrivial = true
		}
		if strings.Contains(p.Raw, "/*") || strings.Contains(p.Raw, "//") {
			add("comment-text-in-string")
		}
	}
	return
}

func checkCase(c Case) fw.Outcome {
	stmts := []*yg.Stmt{c.Stmt}
	if c.Wrapped {
		stmts = []*yg.Stmt{{Kw: "x:outer", Pieces: []yg.Piece{{Q: "u", Raw: "o"}}, T1: " ", Kids: []*yg.Stmt{c.Stmt}, T3: "\n"}}
	}
	text, infos := yg.Render(stmts, "\n")
	info := infos[len(infos)-1]
	labels, nt := classify(c.Stmt)
	out := fw.Outcome{Labels: labels, NonTrivial: nt, Key: text}
	if info.Grey {
		out.Skip = true
		return out
	}
	var tree *parse.Tree
	var err error
	if !fw.WithTimeout(20, func() { tree, err = parse.Parse("t.yang", text, nil) }) {
		out.Violation = fmt.Sprintf("parse did not return on %q", text)
		return out
	}
	if err != nil {
		out.Violation = fmt.Sprintf("valid statement rejected: %v\ntext: %q", err, text)
		return out
	}
	n := tree.Root
	if c.Wrapped {
		if len(n.Children()) != 1 {
			out.Violation = fmt.Sprintf("outer block has %d children, want 1; text %q", len(n.Children()), text)
			return out
		}
		n = n.Children()[0]
	}
	got := n.Argument().String()
	if got != info.Value {
		out.Violation = fmt.Sprintf("argument decoded as %q, RFC 6020 6.1.3 value is %q\ntext: %q", got, info.Value, text)
	}
	return out
}

var decode = fw.Register(&fw.Prop[Case]{
	ID: "C08", Name: "decode",
	Rule: "one statement with an argument value plan: 1-4 pieces joined by '+' (unquoted, single- or double-quoted), double-quoted pieces of 1-5 lines with generated indentation " +
		"(spaces/tabs, narrower/equal/wider than the quote column), trailing blanks, LF/CRLF, blank lines, the four escapes between non-blank characters, comment text and ; { } + inside strings, " +
		"the statement placed at a generated column, trivia and comments around pieces; oracle: independent RFC 6020 section 6.1.3 decoder applied to the exact source form; " +
		"stated grey zones are skipped and counted; non-trivial = a multi-line double-quoted piece, a concatenation, or an escape; distinct by rendered text",
	Gen: genCase, Check: checkCase,
	MinLabel: []string{"concat", "piece:u", "piece:s", "piece:d", "multiline", "crlf", "blank-line", "tab-indent", "trailing-blanks", "escape", "comment-text-in-string"},
})

// ---------------------------------------------------------------- repeated text
//
// The value of a double-quoted string depends on where it stands (the column of its opening quote), not only on its
// text: the same raw text written twice, at two columns, in one document or in two documents parsed with shared
// interners (what compile.ParseModules does), has two independent values.

type RepeatCase struct {
	Stmts []*yg.Stmt `json:"stmts"`
	Nest  []int      `json:"nest"`  // wrapper blocks around each statement in the first document
	Lead2 []string   `json:"lead2"` // trivia before each statement in the second document (reversed order, no wrappers)
}

var leads = []string{"", " ", "    ", "\t", "\n", "\n    ", "\n\t\t", "        ", "  \t  ", "/* c */ ", "\r\n   ", "\n                ", "\n  "}

func genRepeat(t *rapid.T) RepeatCase {
	var c RepeatCase
	n := 2 + rapid.IntRange(0, 2).Draw(t, "nstmts")
	for i := 0; i < n; i++ {
		s := genCase(t).Stmt
		for try := 0; i == 0 && try < 4 && !(len(s.Pieces) == 1 && s.Pieces[0].Q == "d" && strings.Contains(s.Pieces[0].Raw, "\n")); try++ {
			s = genCase(t).Stmt // the first statement is usually a multi-line string, so that copies of it are interesting
		}
		if i > 0 && rapid.IntRange(0, 2).Draw(t, "copy") != 0 {
			src := c.Stmts[rapid.IntRange(0, i-1).Draw(t, "copyof")]
			s.Pieces = append([]yg.Piece(nil), src.Pieces...)
			s.Plus = append([]string(nil), src.Plus...)
			s.T2 = src.T2
		}
		c.Stmts = append(c.Stmts, s)
		c.Nest = append(c.Nest, rapid.IntRange(0, 2).Draw(t, "nest"))
		c.Lead2 = append(c.Lead2, leads[rapid.IntRange(0, len(leads)-1).Draw(t, "lead2")])
	}
	return c
}

func wrap(kids []*yg.Stmt) *yg.Stmt {
	return &yg.Stmt{Kw: "x:outer", Pieces: []yg.Piece{{Q: "u", Raw: "o"}}, T1: " ", T0: " ", Kids: kids, T3: "\n"}
}

func preorder(n parse.Node, out *[]parse.Node) {
	*out = append(*out, n)
	for _, k := range n.Children() {
		preorder(k, out)
	}
}

func checkRepeat(c RepeatCase) fw.Outcome {
	out := fw.Outcome{}
	var kids1, kids2 []*yg.Stmt
	for i, s := range c.Stmts {
		w := s
		for k := 0; k < c.Nest[i]; k++ {
			w = wrap([]*yg.Stmt{w})
		}
		kids1 = append(kids1, w)
	}
	for i := len(c.Stmts) - 1; i >= 0; i-- {
		cp := *c.Stmts[i]
		cp.T0 = c.Lead2[i]
		kids2 = append(kids2, &cp)
	}
	si, ai := parse.NewStringInterner(), parse.NewArgInterner()
	seen := map[string]map[string]bool{} // raw text of a multi-line double-quoted piece -> its distinct values
	for d, kids := range [][]*yg.Stmt{kids1, kids2} {
		text, infos := yg.Render([]*yg.Stmt{wrap(kids)}, "\n")
		out.Key += text
		var tree *parse.Tree
		var err error
		if !fw.WithTimeout(20, func() { tree, err = parse.ParseWithInterners("t.yang", text, nil, si, ai) }) {
			out.Violation = fmt.Sprintf("parse did not return on %q", text)
			return out
		}
		if err != nil {
			out.Violation = fmt.Sprintf("valid document %d rejected: %v\ntext: %q", d+1, err, text)
			return out
		}
		var nodes []parse.Node
		preorder(tree.Root, &nodes)
		if len(nodes) != len(infos) {
			out.Violation = fmt.Sprintf("document %d has %d statements, the tree %d\ntext: %q", d+1, len(infos), len(nodes), text)
			return out
		}
		flat := yg.Flatten([]*yg.Stmt{wrap(kids)})
		for i, info := range infos {
			if info.Grey || !info.HasArg {
				continue
			}
			if got := nodes[i].Argument().String(); got != info.Value {
				out.Violation = fmt.Sprintf("document %d, statement %d (%s, line %d): argument decoded as %q, RFC 6020 6.1.3 value is %q\ntext: %q", d+1, i, info.Kw, info.Line, got, info.Value, text)
				return out
			}
			for _, p := range flat[i].Pieces {
				if p.Q == "d" && strings.Contains(p.Raw, "\n") && len(flat[i].Pieces) == 1 {
					if seen[p.Raw] == nil {
						seen[p.Raw] = map[string]bool{}
					}
					seen[p.Raw][info.Value] = true
				}
			}
		}
	}
	for _, vals := range seen {
		if len(vals) >= 2 {
			out.NonTrivial = true
			out.Labels = append(out.Labels, "same-text-different-values")
			break
		}
	}
	if len(seen) > 0 {
		out.Labels = append(out.Labels, "multiline")
	}
	return out
}

var repeat = fw.Register(&fw.Prop[RepeatCase]{
	ID: "C08", Name: "repeat",
	Rule: "2-4 statements of the decode generator in one document, later ones often repeating the argument text of an earlier one at another column and nesting depth, then the same statements " +
		"in reverse order at other columns in a second document parsed with the same string and argument interners; oracle: every argument of both documents equals the RFC 6020 value for its own position; " +
		"non-trivial = one multi-line double-quoted text occurs with two different values",
	Gen: genRepeat, Check: checkRepeat, Weight: 0.4,
	MinLabel: []string{"same-text-different-values"},
})

// ---------------------------------------------------------------- typed arguments
//
// The value of an argument does not depend on the statement it belongs to: statements whose argument the parser
// reads into a typed form (unique, key, range, length, pattern, must, ...) report the same RFC 6020 value as a
// description would.  The words of such an argument may be separated by any run of blanks, tabs and line breaks.

type TypedCase struct {
	Stmt *yg.Stmt `json:"stmt"`
	Nest int      `json:"nest"`
	Ends bool     `json:"ends"` // blanks at an end of the value: the verdict on those is C09's subject, the value, if accepted, is not
}

var typedWords = map[string][]string{
	"unique":        {"a", "b/c", "x:d/x:e", "k1", "srv/port"},
	"key":           {"a", "b", "k-1", "name"},
	"range":         {"1", "..", "5", "|", "10", "..", "max"},
	"length":        {"0", "..", "4", "|", "8"},
	"pattern":       {"[a-z]+", "x", "(ab|cd)*", "[0-9]"},
	"must":          {"../a", "=", "'x y'", "or", "count(b)", ">", "2"},
	"when":          {"a", "!=", "1", "and", "not(b)"},
	"path":          {"../a", "/", "b"},
	"default":       {"one", "two", "3"},
	"units":         {"km", "/", "h"},
	"presence":      {"it", "is", "there"},
	"error-message": {"out", "of", "range"},
	"error-app-tag": {"too", "big"},
	"contact":       {"a@b", "c"},
	"organization":  {"the", "org"},
	"enum":          {"two", "words", "here"},
}
var typedKws = []string{"unique", "unique", "unique", "key", "key", "range", "length", "pattern", "must", "when", "path", "default", "units", "presence", "error-message", "error-app-tag", "contact", "organization", "enum"}
var typedSeps = []string{" ", " ", "  ", "\t", " \t ", "\n", "\n    ", "\n\t", "\r\n  ", "   \n          ", "\n\n  ", "      "}

func genTyped(t *rapid.T) TypedCase {
	g := &yg.G{T: t, Abut: true}
	kw := typedKws[g.Pick(len(typedKws), "kw")]
	words := typedWords[kw]
	n := 1 + g.Pick(3, "nwords")
	if kw == "range" || kw == "length" {
		n = []int{1, 3, 5, 7}[g.Pick(4, "nrange")]
		if n > len(words) {
			n = len(words)
		}
	}
	var toks []string // words and separators in turn
	for i := 0; i < n; i++ {
		if i > 0 {
			toks = append(toks, typedSeps[g.Pick(len(typedSeps), "sep")])
		}
		w := words[i%len(words)]
		if kw != "range" && kw != "length" && kw != "must" && kw != "when" && kw != "path" {
			w = words[g.Pick(len(words), "word")]
		}
		toks = append(toks, w)
	}
	c := TypedCase{Nest: g.Pick(3, "nest")}
	if kw != "enum" && g.Pick(8, "ends") == 0 {
		c.Ends = true
		toks = append([]string{typedSeps[g.Pick(len(typedSeps), "lead")]}, toks...)
		toks = append(toks, typedSeps[g.Pick(len(typedSeps), "trail")])
	}
	// the pieces: the tokens are cut into 1-3 quoted pieces at token boundaries
	s := &yg.Stmt{Kw: kw, T0: leads[g.Pick(len(leads), "lead0")], T1: []string{" ", "  ", "\n    ", "\t", " /* c */ "}[g.Pick(5, "t1")]}
	cuts := g.Pick(3, "cuts")
	start := 0
	for k := 0; k <= cuts && start < len(toks); k++ {
		end := len(toks)
		if k < cuts {
			end = start + 1 + g.Pick(len(toks)-start, "cut")
		}
		raw := strings.Join(toks[start:end], "")
		q := "d"
		if !strings.Contains(raw, "'") && g.Pick(3, "squote") == 0 {
			q = "s"
		}
		if !strings.ContainsAny(raw, " \t\r\n'") && !strings.Contains(raw, "//") && !strings.Contains(raw, "/*") && len(s.Pieces) == 0 && end == len(toks) && g.Pick(2, "unq") == 0 {
			q = "u"
		}
		s.Pieces = append(s.Pieces, yg.Piece{Q: q, Raw: raw})
		if len(s.Pieces) > 1 {
			s.Plus = append(s.Plus, []string{" ", "\n   ", ""}[g.Pick(3, "plus0")], []string{" ", "\n      ", "\t"}[g.Pick(3, "plus1")])
		}
		start = end
	}
	s.T2 = g.Trivia(s.Pieces[len(s.Pieces)-1].Q == "u", 2)
	s.Abut = s.Pieces[len(s.Pieces)-1].Q == "u" && yg.Abuts(s.Pieces[len(s.Pieces)-1].Raw, s.T2)
	c.Stmt = s
	return c
}

func checkTyped(c TypedCase) fw.Outcome {
	w := c.Stmt
	for k := 0; k < c.Nest; k++ {
		w = wrap([]*yg.Stmt{w})
	}
	text, infos := yg.Render([]*yg.Stmt{w}, "\n")
	info := infos[len(infos)-1]
	out := fw.Outcome{Key: text, Labels: []string{"kw:" + c.Stmt.Kw}}
	if info.Grey {
		out.Skip = true
		return out
	}
	var tree *parse.Tree
	var err error
	if !fw.WithTimeout(20, func() { tree, err = parse.Parse("t.yang", text, nil) }) {
		out.Violation = fmt.Sprintf("parse did not return on %q", text)
		return out
	}
	if err != nil {
		if c.Ends {
			out.Labels = append(out.Labels, "ends-refused")
			return out
		}
		out.Violation = fmt.Sprintf("valid %s statement rejected: %v\ntext: %q", c.Stmt.Kw, err, text)
		return out
	}
	var nodes []parse.Node
	preorder(tree.Root, &nodes)
	n := nodes[len(nodes)-1]
	if strings.ContainsAny(info.Value, "\t\n") || strings.Contains(info.Value, "  ") {
		out.NonTrivial = true
		out.Labels = append(out.Labels, "layout-in-value")
	}
	if len(c.Stmt.Pieces) > 1 {
		out.Labels = append(out.Labels, "concat")
	}
	if got := n.Argument().String(); got != info.Value {
		out.Violation = fmt.Sprintf("%s argument reported as %q, RFC 6020 6.1.3 value is %q\ntext: %q", c.Stmt.Kw, got, info.Value, text)
	}
	return out
}

var typed = fw.Register(&fw.Prop[TypedCase]{
	ID: "C08", Name: "typed",
	Rule: "one statement whose argument the parser reads into a typed form (unique, key, range, length, pattern, must, when, path, default, units, presence, error-message, error-app-tag, contact, " +
		"organization, enum): 1-7 valid words separated by runs of blanks, tabs and line breaks (LF/CRLF, indentation), cut into 1-3 single-/double-quoted pieces joined by '+', nested 0-2 blocks deep; " +
		"oracle: the reported argument equals the RFC 6020 section 6.1.3 value of the source form, exactly as for a description; a value with blanks at an end may be refused (C09) but not altered; " +
		"non-trivial = the value holds a tab, a line break or two blanks in a row",
	Gen: genTyped, Check: checkTyped, Weight: 0.3,
	MinLabel: []string{"kw:unique", "kw:key", "kw:range", "kw:pattern", "kw:must", "layout-in-value", "concat"},
})

func TestMain(m *testing.M) { fw.Main(m) }

func TestDecode(t *testing.T) { fw.Run(t, decode) }
func TestRepeat(t *testing.T) { fw.Run(t, repeat) }
func TestTyped(t *testing.T)  { fw.Run(t, typed) }
