// Package c08: YANG string arguments are decoded as RFC 6020 section 6.1.3 prescribes.
package c08

import (
	"fmt"
	"strings"
	"testing"

	"verifharness/fw"
	"verifharness/yg"

	"github.com/sdcio/yang-parser/parse"
	"pgregory.net/rapid"
)

// Case: one statement (keyword from a string-argument family) with its layout, placed after some lead-in text.
type Case struct {
	Stmt    *yg.Stmt `json:"stmt"`
	Wrapped bool     `json:"wrapped"` // put the statement inside an outer block
}

func genCase(t *rapid.T) Case {
	g := &yg.G{T: t}
	s := &yg.Stmt{Kw: []string{"description", "x:ext", "reference", "y:note"}[g.Pick(4, "kw")]}
	// place the keyword at a generated column: blanks / tabs / a line break before it
	lead := []string{"", " ", "    ", "\t", "\n", "\n    ", "\n\t\t", "        ", "  \t  ", "/* c */ ", "\r\n   "}[g.Pick(11, "lead")]
	s.T0 = lead
	s.Pieces, s.Plus = g.Arg()
	if g.Pick(3, "sameline") == 0 {
		s.T1 = []string{"\n", "\n      ", "\n\t", " // c\n   ", " /* c */ ", "\r\n  "}[g.Pick(6, "t1")]
	} else {
		s.T1 = strings.Repeat(" ", 1+g.Pick(30, "t1spaces"))
		if g.Pick(5, "t1tab") == 0 {
			s.T1 = "\t" + s.T1
		}
	}
	s.T2 = g.Trivia(s.Pieces[len(s.Pieces)-1].Q == "u", 2)
	return Case{Stmt: s, Wrapped: rapid.Bool().Draw(t, "wrapped")}
}

func classify(s *yg.Stmt) (labels []string, nontrivial bool) {
	seen := map[string]bool{}
	add := func(l string) {
		if !seen[l] {
			seen[l] = true
			labels = append(labels, l)
		}
	}
	if len(s.Pieces) >= 2 {
		add("concat")
		nontrivial = true
	}
	for _, p := range s.Pieces {
		add("piece:" + p.Q)
		if p.Q != "d" {
			continue
		}
		if strings.Contains(p.Raw, "\n") {
			add("multiline")
			nontrivial = true
			if strings.Contains(p.Raw, "\r\n") {
				add("crlf")
			}
			if strings.Contains(p.Raw, "\n\n") || strings.Contains(p.Raw, "\n\r\n") {
				add("blank-line")
			}
			for _, l := range strings.Split(p.Raw, "\n")[1:] {
				if strings.HasPrefix(l, "\t") || strings.HasPrefix(strings.TrimLeft(l, " "), "\t") {
					add("tab-indent")
				}
			}
			if strings.Contains(p.Raw, " \n") || strings.Contains(p.Raw, "\t\n") || strings.Contains(p.Raw, " \r\n") {
				add("trailing-blanks")
			}
		}
		if strings.Contains(p.Raw, "\\") {
			add("escape")
			nontrivial = true
		}
		if strings.Contains(p.Raw, "/*") || strings.Contains(p.Raw, "//") {
			add("comment-text-in-string")
		}
	}
	return
}

func checkCase(c Case) fw.Outcome {
	stmts := []*yg.Stmt{c.Stmt}
	if c.Wrapped {
		stmts = []*yg.Stmt{{Kw: "x:outer", Pieces: []yg.Piece{{Q: "u", Raw: "o"}}, T1: " ", Kids: []*yg.Stmt{c.Stmt}, T3: "\n"}}
	}
	text, infos := yg.Render(stmts, "\n")
	info := infos[len(infos)-1]
	labels, nt := classify(c.Stmt)
	out := fw.Outcome{Labels: labels, NonTrivial: nt, Key: text}
	if info.Grey {
		out.Skip = true
		return out
	}
	var tree *parse.Tree
	var err error
	if !fw.WithTimeout(20, func() { tree, err = parse.Parse("t.yang", text, nil) }) {
		out.Violation = fmt.Sprintf("parse did not return on %q", text)
		return out
	}
	if err != nil {
		out.Violation = fmt.Sprintf("valid statement rejected: %v\ntext: %q", err, text)
		return out
	}
	n := tree.Root
	if c.Wrapped {
		if len(n.Children()) != 1 {
			out.Violation = fmt.Sprintf("outer block has %d children, want 1; text %q", len(n.Children()), text)
			return out
		}
		n = n.Children()[0]
	}
	got := n.Argument().String()
	if got != info.Value {
		out.Violation = fmt.Sprintf("argument decoded as %q, RFC 6020 6.1.3 value is %q\ntext: %q", got, info.Value, text)
	}
	return out
}

var decode = fw.Register(&fw.Prop[Case]{
	ID: "C08", Name: "decode",
	Rule: "one statement with an argument value plan: 1-4 pieces joined by '+' (unquoted, single- or double-quoted), double-quoted pieces of 1-5 lines with generated indentation " +
		"(spaces/tabs, narrower/equal/wider than the quote column), trailing blanks, LF/CRLF, blank lines, the four escapes between non-blank characters, comment text and ; { } + inside strings, " +
		"the statement placed at a generated column, trivia and comments around pieces; oracle: independent RFC 6020 section 6.1.3 decoder applied to the exact source form; " +
		"stated grey zones are skipped and counted; non-trivial = a multi-line double-quoted piece, a concatenation, or an escape; distinct by rendered text",
	Gen: genCase, Check: checkCase,
	MinLabel: []string{"concat", "piece:u", "piece:s", "piece:d", "multiline", "crlf", "blank-line", "tab-indent", "trailing-blanks", "escape", "comment-text-in-string"},
})

func TestMain(m *testing.M) { fw.Main(m) }

func TestDecode(t *testing.T) { fw.Run(t, decode) }
