// Package c05: XPath compilation and execution are total and report failures faithfully.
package c05

import (
	"context"
	"errors"
	"fmt"
	"strings"
	"sync/atomic"
	"testing"
	"unicode/utf8"

	"verifharness/c01"
	"verifharness/c02"
	"verifharness/c03"
	"verifharness/fw"
	"verifharness/tree"

	"github.com/sdcio/yang-parser/xpath"
	"github.com/sdcio/yang-parser/xpath/grammars/expr"
	"github.com/sdcio/yang-parser/xpath/grammars/leafref"
	"github.com/sdcio/yang-parser/xpath/grammars/path_eval"
	"pgregory.net/rapid"
)

// ---------------------------------------------------------------- (a) compile

type CompileCase struct {
	Grammar string `json:"grammar"` // expr | path_eval | leafref
	Input   []byte `json:"input"`
	MapFn   bool   `json:"mapfn"`
}

var fragments = []string{
	"a", "b", "b:c", "*", "p:*", "div", "and", "or", "mod", "(", ")", "[", "]", "/", "//", "..", ".", "::", ":", "@", "$", ",", "|",
	"+", "-", "=", "!=", "<", "<=", ">", ">=", "!", "'lit'", "\"lit\"", "'", "\"", "1", "1.5", ".5", "1e5", "1e", "1.2.3",
	"current()", "deref(", "count(", "text()", "node()", "child::", "true()", "concat(", "string(", "xml", "XmL:a",
	"site-fn()", "site-x(1)", "nosuch()", "unknown-fn(", "site-fn(",
	"\xff", "\x80", "\xc3", "\xe2\x82", "\xf0\x9f", "\xed\xa0\x80", "é", "·", "�", " ", "\t", "\n", "\r", "\x00", "#", "~", "{", "\\",
	// letters whose other case has another length in bytes (Kelvin sign, dotted capital I, long s, sharp S, Angstrom sign):
	// whatever folds the case of a name works on another string than the one it measured
	"\u212a", "a\u212a", "xm\u212a", "\u0130", "X\u0130", "\u017f", "\u1e9e", "x\u212b", "xM\u0130a",
}

func mapFn(p string) (string, error) {
	if p == "bad" {
		return "", fmt.Errorf("unknown import %s", p)
	}
	return "urn:" + p, nil
}

func build(grammar, src string, withMap bool) (*xpath.Machine, error) {
	var mf xpath.PfxMapFn
	if withMap {
		mf = mapFn
	}
	switch grammar {
	case "expr":
		return expr.NewExprMachine(src, mf)
	case "path_eval":
		return path_eval.NewPathEvalMachine(src, mf, "mod:1")
	case "expr_custom":
		return expr.NewExprMachineWithCustomFunctions(src, mf)
	case "path_eval_custom":
		// a user function checker that vouches for names starting with "site-" and declines every other one
		return path_eval.NewPathEvalMachineWithCustomFns(src, mf, "mod:1", func(name string) (*xpath.Symbol, bool) {
			if strings.HasPrefix(name, "site-") {
				return xpath.NewDummyFnSym(name), true
			}
			return nil, false
		})
	default:
		return leafref.NewLeafrefMachine(src, mf)
	}
}

func genCompile(t *rapid.T) CompileCase {
	g := []string{"expr", "path_eval", "leafref", "expr_custom", "path_eval_custom"}[rapid.IntRange(0, 4).Draw(t, "grammar")]
	var in []byte
	switch rapid.IntRange(0, 4).Draw(t, "kind") {
	case 4:
		// a long expression (generated models write conditions of many kilobytes): a valid one repeated with "or" up to
		// a length around a power of two, as it is or with a fragment at one end
		unit := c03.Source(c03.Gen(t))
		if unit == "" {
			unit = "a"
		}
		target := []int{1000, 4090, 8185, 8200, 16400, 40000}[rapid.IntRange(0, 5).Draw(t, "longlen")]
		var b strings.Builder
		b.WriteString(unit)
		for b.Len() < target {
			b.WriteString(" or ")
			b.WriteString(unit)
		}
		s := b.String()
		switch rapid.IntRange(0, 2).Draw(t, "longedit") {
		case 1:
			s += fragments[rapid.IntRange(0, len(fragments)-1).Draw(t, "longfrag")]
		case 2:
			s = fragments[rapid.IntRange(0, len(fragments)-1).Draw(t, "longfrag")] + s
		}
		in = []byte(s)
	case 0:
		in = rapid.SliceOfN(rapid.Byte(), 0, 24).Draw(t, "raw")
	case 1:
		// a valid expression with one byte replaced, removed or a hostile fragment inserted
		s := []byte(c03.Source(c03.Gen(t)))
		if len(s) > 0 {
			pos := rapid.IntRange(0, len(s)-1).Draw(t, "pos")
			switch rapid.IntRange(0, 2).Draw(t, "edit") {
			case 0:
				s[pos] = rapid.Byte().Draw(t, "byte")
			case 1:
				s = append(s[:pos:pos], s[pos+1:]...)
			default:
				f := fragments[rapid.IntRange(0, len(fragments)-1).Draw(t, "frag")]
				s = append(s[:pos:pos], append([]byte(f), s[pos:]...)...)
			}
		}
		in = s
	default:
		parts := rapid.SliceOfN(rapid.SampledFrom(fragments), 0, 10).Draw(t, "frags")
		in = []byte(strings.Join(parts, ""))
	}
	return CompileCase{Grammar: g, Input: in, MapFn: rapid.Bool().Draw(t, "mapfn")}
}

// recent: the last constructions of this process (diagnostics for hangs caused by leaked global state)
var recent []string

// markerOK: the text contains the expression with " [X] " inserted at some position.
func markerOK(text, src string) bool {
	if len(src) > 400 {
		// (long input: take each marker out of the text in turn and look for the expression)
		for from := 0; ; {
			i := strings.Index(text[from:], " [X] ")
			if i < 0 {
				return false
			}
			i += from
			if strings.Contains(text[:i]+text[i+5:], src) {
				return true
			}
			from = i + 1
		}
	}
	for i := 0; i <= len(src); i++ {
		if strings.Contains(text, src[:i]+" [X] "+src[i:]) {
			return true
		}
	}
	return false
}

func checkCompile(c CompileCase) fw.Outcome {
	src := string(c.Input)
	out := fw.Outcome{Labels: []string{"grammar:" + c.Grammar}}
	var m *xpath.Machine
	var err error
	recent = append(recent, fmt.Sprintf("%s:%q", c.Grammar, src))
	if len(recent) > 6 {
		recent = recent[1:]
	}
	done := fw.WithTimeout(20, func() { m, err = build(c.Grammar, src, c.MapFn) })
	if !done {
		// a constructor that blocks may be the victim of a lock an earlier construction left behind: name the history
		out.Violation = fmt.Sprintf("%s constructor did not return within the watchdog on %q; constructions before it in this process (oldest first): %s", c.Grammar, src, strings.Join(recent[:len(recent)-1], " ; "))
		return out
	}
	valid := utf8.Valid(c.Input)
	if !valid {
		out.Labels = append(out.Labels, "invalid-utf8")
	}
	if err != nil {
		out.Labels = append(out.Labels, "rejected")
	} else {
		out.Labels = append(out.Labels, "accepted")
	}
	out.NonTrivial = !valid || err != nil
	out.Key = c.Grammar + "|" + src
	if (m == nil) == (err == nil) {
		out.Violation = fmt.Sprintf("%s(%q): machine=%v err=%v (exactly one must be set)", c.Grammar, src, m != nil, err)
		return out
	}
	if err != nil && len(src) > 0 {
		txt := err.Error()
		if !strings.Contains(txt, src) {
			out.Violation = fmt.Sprintf("%s(%q): error text does not quote the expression: %q", c.Grammar, src, txt)
			return out
		}
		if !markerOK(txt, src) {
			out.Violation = fmt.Sprintf("%s(%q): error text does not mark a position inside the expression: %q", c.Grammar, src, txt)
			return out
		}
	}
	if err != nil && len(src) == 0 && err.Error() == "" {
		out.Violation = "empty error text for empty input"
	}
	return out
}

var compileProp = fw.Register(&fw.Prop[CompileCase]{
	ID: "C05", Name: "compile",
	Rule: "byte strings (raw bytes, token-fragment soups biased to hostile fragments and bytes 0x80-0xFF, valid expressions with one byte edited) for the three constructors " +
		"(expr, path_eval, leafref); oracle: returns within a watchdog, no panic, exactly one of (machine, error), a non-empty rejected input is quoted in the error text and " +
		"re-appears with the position marker ' [X] ' inserted at some offset; non-trivial = invalid UTF-8 or rejected; distinct by (grammar, input)",
	Gen: genCompile, Check: checkCompile,
	MinLabel: []string{"grammar:expr", "grammar:path_eval", "grammar:leafref", "invalid-utf8", "rejected", "accepted"},
})

// ---------------------------------------------------------------- (b) run

type RunCase struct {
	Src     fw.BStr `json:"src"`
	Grammar string  `json:"grammar"`
	Ctx     tree.ID `json:"ctx"`
	Mode    string  `json:"mode"` // current | mach
	// context options (chained setters of the context)
	Debug    bool `json:"debug,omitempty"`
	Validate bool `json:"validate,omitempty"`
	CfgOnly  bool `json:"cfgonly,omitempty"`
	// Lists: what a third of the nodes hold instead of a single value: 1 a leaf-list without entries, 2 one with several,
	// 3 an invalid datum (what a data tree, foreign code, may hand out for a value it cannot represent)
	Lists int `json:"lists,omitempty"`
}

// listValues installs the leaf-list answers of the case on a tree.
func (c RunCase) listValues(tr *tree.Tree) {
	if c.Lists == 0 {
		return
	}
	tr.ValueOf = func(id tree.ID) (xpath.Datum, error) {
		s := id.String()
		h := 0
		for _, ch := range s {
			h = h*31 + int(ch)
		}
		if h%3 != 0 {
			return xpath.NewLiteralDatum(tree.DefaultValue(id)), nil
		}
		if c.Lists == 3 {
			return xpath.NewInvalidDatum(), nil
		}
		var ds []xpath.Datum
		if c.Lists == 2 {
			ds = []xpath.Datum{xpath.NewLiteralDatum(tree.DefaultValue(id)), xpath.NewLiteralDatum("second"), xpath.NewLiteralDatum("3")}
		}
		return xpath.NewDatumSliceDatum(ds), nil
	}
}

// run applies the case's context options and runs the machine.
func (c RunCase) run(m *xpath.Machine, tr *tree.Tree) *xpath.Result {
	c.listValues(tr)
	ctx := xpath.NewCtxFromMach(m, nil)
	if c.Mode != "mach" {
		ctx = xpath.NewCtxFromCurrent(context.Background(), m, tr.At(c.Ctx))
	}
	if c.Debug {
		ctx = ctx.EnableDebug()
	}
	if c.Validate {
		ctx = ctx.EnableValidation()
	}
	if c.CfgOnly {
		ctx = ctx.AccessibleTreeConfigOnly()
	}
	return ctx.Run()
}

var oddPrograms = []string{
	"( )", "()", "a[b]", "a[1]", "a | b", "count(a)", "count(a/b[k='x'])", "a[k=1 and j=2]", "a[k=1][k=2]", "sum(a)", "local-name(a)",
	"floor('x')", "substring(a, b, c)", "a[b=c]/d", "a[1 = 1]", "a[k != 'v']", "a[k < 3]/b", "a['k' = 'v']", "a[../k = 'v']",
	"deref(a)", "deref(a)/..", "deref(deref(a)/b)/c", "deref(/)", "current()", "current()/..", "../../../../../../..", "/..", "/",
	"a[k=deref(../x)/y]", "a[k=current()]", "-a", "a + b", "a = b | c", "(a)", "(a)/b", "(a)[1]", "(1)[1]", "'x'[1]",
	"text()", "a/text()", "a[text()='x']", "a[text()='x']/b", "lst[text()=../v]", "*", "a/*", "p:*", "a[*='x']", "not(a)", "boolean(a | b)",
	"last()", "position()", "a[position()=1]", "a[last()]", "re-match('a','(')", "re-match(a,'b')", ". = 'x'", ".", "..", "./.",
	"a[k='v']", "a[k='v'][j=../x]/b[z=/y]", "concat(a[k='v'], b[k=current()/../c])",
}

func genRun(t *rapid.T) RunCase {
	c := RunCase{Grammar: "expr", Mode: "current"}
	switch rapid.IntRange(0, 5).Draw(t, "source") {
	case 0:
		c.Src = fw.BStr(c01.Source(c01.Gen(t)))
	case 1:
		cc := c02.Gen(t)
		c.Src = fw.BStr(c02.Source(cc))
		c.Ctx = cc.Ctx
	case 2:
		c.Src = fw.BStr(c03.Source(c03.Gen(t)))
	case 3:
		c.Src = fw.BStr(oddPrograms[rapid.IntRange(0, len(oddPrograms)-1).Draw(t, "odd")])
	case 4:
		// two odd programs joined by an operator
		ops := []string{" or ", " = ", " + ", " | ", " and ", " < "}
		c.Src = fw.BStr(oddPrograms[rapid.IntRange(0, len(oddPrograms)-1).Draw(t, "odd1")] + ops[rapid.IntRange(0, len(ops)-1).Draw(t, "op")] +
			oddPrograms[rapid.IntRange(0, len(oddPrograms)-1).Draw(t, "odd2")])
	default:
		c.Grammar = []string{"leafref", "path_eval"}[rapid.IntRange(0, 1).Draw(t, "g2")]
		c.Src = fw.BStr([]string{"../a", "../../a/b", "/a/b", "/a[k=current()/../x]/b", "../a[k = current()/../../y/z]/c", "/a:b/c",
			"a", "a/b[k='x']/c", "/a | /b", "../a = 3", "count(/a) > 1"}[rapid.IntRange(0, 10).Draw(t, "lr")])
	}
	if c.Ctx == nil {
		c.Ctx = tree.ID{{Name: "top"}, {Name: "ctx"}}
		if rapid.IntRange(0, 4).Draw(t, "rootctx") == 0 {
			c.Ctx = tree.ID{}
		}
	}
	if rapid.IntRange(0, 3).Draw(t, "mode") == 0 {
		c.Mode = "mach"
	}
	c.Debug = rapid.IntRange(0, 2).Draw(t, "debug") == 1
	c.Validate = rapid.IntRange(0, 3).Draw(t, "validate") == 1
	c.CfgOnly = rapid.IntRange(0, 4).Draw(t, "cfgonly") == 1
	c.Lists = []int{0, 0, 1, 2, 3}[rapid.IntRange(0, 4).Draw(t, "lists")]
	return c
}

// runOnce executes a machine; it returns the result and the tree (for its call count).
func runOnce(m *xpath.Machine, c RunCase, faultAt int) (*xpath.Result, *tree.Tree) {
	tr := &tree.Tree{FaultAt: faultAt}
	return c.run(m, tr), tr
}

func valueOrError(res *xpath.Result) string {
	if res == nil {
		return "Run() returned a nil Result"
	}
	_ = res.GetDebugOutput()
	_, _, _, _ = res.IsNumber(), res.GetWarnings(), res.GetNonWarnings(), res.PrintResult()
	if res.GetError() != nil {
		// every accessor must return the run error
		_, e1 := res.GetBoolResult()
		_, e2 := res.GetNumResult()
		_, e3 := res.GetLiteralResult()
		_, e4 := res.GetNodeSetResult()
		for i, e := range []error{e1, e2, e3, e4} {
			if e == nil {
				return fmt.Sprintf("run error %q set but accessor %d reports success", res.GetError(), i+1)
			}
			// ... and it is the run error that every accessor hands out, not a message of its own
			if e.Error() != res.GetError().Error() {
				return fmt.Sprintf("run error %q set but accessor %d reports another error: %q", res.GetError(), i+1, e)
			}
		}
		return ""
	}
	_, e1 := res.GetBoolResult()
	_, e2 := res.GetNumResult()
	_, e3 := res.GetLiteralResult()
	// (a value that is no nodeset has no nodeset form: the accessor says so with an error; none of the four panics)
	_, _ = res.GetNodeSetResult()
	if e1 != nil && e2 != nil && e3 != nil {
		return fmt.Sprintf("neither a value nor an error: GetError()=nil, accessors: %v / %v / %v", e1, e2, e3)
	}
	return ""
}

func checkRun(c RunCase) fw.Outcome {
	out := fw.Outcome{Labels: []string{"mode:" + c.Mode, "grammar:" + c.Grammar}}
	if c.Debug {
		out.Labels = append(out.Labels, "debug")
	}
	m, err := build(c.Grammar, string(c.Src), false)
	if err != nil {
		out.Labels = append(out.Labels, "does-not-compile")
		return out
	}
	out.Key = c.Grammar + "|" + string(c.Src) + "@" + c.Ctx.String() + c.Mode + fmt.Sprint(c.Debug, c.Validate, c.CfgOnly, c.Lists)
	var res *xpath.Result
	var tr *tree.Tree
	done := fw.WithTimeout(20, func() { res, tr = runOnce(m, c, 0) })
	if !done {
		out.Violation = fmt.Sprintf("Run() of %q did not return within the watchdog", c.Src)
		return out
	}
	out.NonTrivial = tr.Calls() > 0 || strings.ContainsAny(string(c.Src), "[|")
	if res != nil && res.GetError() != nil {
		out.Labels = append(out.Labels, "run-error")
	} else {
		out.Labels = append(out.Labels, "run-value")
	}
	if msg := accessorsSafe(res); msg != "" {
		if c.Lists == 3 && strings.HasPrefix(msg, "neither a value nor an error") {
			// (the tree handed out values that are none: that the result has no form is the tree's doing; what is asked
			// of the library is that nothing panics)
			out.Labels = append(out.Labels, "invalid-datum-result")
			return out
		}
		out.Violation = fmt.Sprintf("%s %q at %s (%s): %s", c.Grammar, c.Src, c.Ctx, c.Mode, msg)
	}
	return out
}

// accessorsSafe calls the result accessors under recover: a panic there escapes to the caller of the library.
func accessorsSafe(res *xpath.Result) (msg string) {
	defer func() {
		if r := recover(); r != nil {
			msg = fmt.Sprintf("result accessor panicked: %v", r)
		}
	}()
	return valueOrError(res)
}

var runProp = fw.Register(&fw.Prop[RunCase]{
	ID: "C05", Name: "run",
	Rule: "machines compiled from the C01/C02/C03 generators, from a list of odd-but-compilable programs (empty parentheses, non key=value predicates, unions, count/sum/text(), " +
		"type-mismatched arguments, wildcards) and pairs of them, and leafref / path_eval machines; run on NewCtxFromCurrent over a free tree and on NewCtxFromMach(m, nil), with the context options debug trace / argument validation / config-only tree on or off; " +
		"oracle: Run returns within a watchdog without panicking, and yields an error or a value, never neither; non-trivial = the run calls into the data tree or the program has a predicate/union",
	Gen: genRun, Check: checkRun, Weight: 0.5,
	MinLabel: []string{"mode:current", "mode:mach", "run-error", "run-value", "grammar:leafref", "debug"},
})

// ---------------------------------------------------------------- (c) faults

var faultRuns atomic.Int64

func checkFault(c RunCase) fw.Outcome {
	out := fw.Outcome{}
	c.Mode = "current"
	m, err := build(c.Grammar, string(c.Src), false)
	if err != nil {
		out.Skip = true
		return out
	}
	_, tr0 := runOnce(m, c, 0)
	n := tr0.Calls()
	out.Key = c.Grammar + "|" + string(c.Src) + "@" + c.Ctx.String() + fmt.Sprint(c.Debug, c.Validate, c.CfgOnly, c.Lists)
	out.Labels = append(out.Labels, fmt.Sprintf("callbacks:%d", min(n, 9)))
	out.NonTrivial = n >= 2
	faultRuns.Add(int64(n))
	for k := 1; k <= n; k++ {
		res, tr := runOnce(m, c, k)
		if tr.Calls() < k {
			// a different execution path needed fewer callbacks: nothing was injected
			continue
		}
		want := (&tree.FaultError{K: k}).Error()
		describe := func() string {
			var b strings.Builder
			for _, call := range tr.Trace {
				fmt.Fprintf(&b, "\n   %s recv=%s arg=%s -> %s %s", call.Op, call.Recv, call.Arg, call.Result, call.Err)
			}
			return b.String()
		}
		if res == nil || res.GetError() == nil {
			out.Violation = fmt.Sprintf("%q at %s: callback %d of %d failed but the run reports no error (value %q)%s", c.Src, c.Ctx, k, n, res.PrintResult(), describe())
			return out
		}
		e := res.GetError()
		var fe *tree.FaultError
		if !(errors.As(e, &fe) && fe.K == k) && !strings.Contains(e.Error(), want) {
			out.Violation = fmt.Sprintf("%q at %s: callback %d of %d failed with %q but the run reports the unrelated error %q%s", c.Src, c.Ctx, k, n, want, e, describe())
			return out
		}
		if msg := accessorsSafe(res); msg != "" {
			out.Violation = fmt.Sprintf("%q fault %d: %s", c.Src, k, msg)
			return out
		}
		// the same callback panicking with a value of some type (foreign code may panic with anything): the run still
		// ends with an error, never with neither a value nor an error
		{
			type odd struct{ K int }
			vals := []any{"a string", fmt.Errorf("an error value"), odd{k}, &odd{k}, k, 3.5, []string{"x"}, nil}
			trp := &tree.Tree{PanicAt: k, PanicWith: vals[k%len(vals)]}
			var resp *xpath.Result
			var escaped any
			func() {
				defer func() { escaped = recover() }()
				resp = c.run(m, trp)
			}()
			if escaped != nil {
				out.Violation = fmt.Sprintf("%q at %s: callback %d of %d panicked with %T and the panic escaped from Run: %v", c.Src, c.Ctx, k, n, vals[k%len(vals)], escaped)
				return out
			}
			if trp.Calls() >= k {
				if msg := accessorsSafe(resp); msg != "" {
					out.Violation = fmt.Sprintf("%q at %s: callback %d of %d panicked with a %T: %s", c.Src, c.Ctx, k, n, vals[k%len(vals)], msg)
					return out
				}
				if vals[k%len(vals)] != nil && resp.GetError() == nil {
					out.Violation = fmt.Sprintf("%q at %s: callback %d of %d panicked with a %T but the run reports no error (value %q)", c.Src, c.Ctx, k, n, vals[k%len(vals)], resp.PrintResult())
					return out
				}
			}
		}
		// the same callback, if it is a value fetch, answering with a nil datum and no error: still a value or an error
		if k <= len(tr0.Trace) && tr0.Trace[k-1].Op == "GetValue" {
			trn := &tree.Tree{NilAt: k}
			resn := c.run(m, trn)
			if msg := accessorsSafe(resn); msg != "" {
				out.Violation = fmt.Sprintf("%q at %s: value fetch %d of %d answered (nil, nil): %s", c.Src, c.Ctx, k, n, msg)
				return out
			}
			out.Labels = append(out.Labels, "nil-datum")
		}
	}
	return out
}

var faultProp = fw.Register(&fw.Prop[RunCase]{
	ID: "C05", Name: "fault",
	Rule: "for each (machine, context) from the run generator, the fault-free run is executed to count its N data-tree callbacks, then EVERY k in 1..N is injected as a single fault " +
		"(Navigate / GetValue / FollowLeafRef / BreadthSearch fail with a unique sentinel; a GetValue additionally answers with a nil datum and no error); oracle: the result carries exactly that error (errors.As or its unique text) and every accessor returns it, a nil datum still gives a value or an error; " +
		"non-trivial = N >= 2; distinct by (expression, context)",
	Gen: genRun, Check: checkFault, Weight: 0.3,
})

func TestMain(m *testing.M) { fw.Main(m) }

func TestCompile(t *testing.T) { fw.Run(t, compileProp) }
func TestRun(t *testing.T)     { fw.Run(t, runProp) }
func TestFault(t *testing.T) {
	fw.Run(t, faultProp)
	fw.NoteExhaustive("fault", "all single-fault positions of every generated (machine, context): total fault runs", faultRuns.Load())
}
