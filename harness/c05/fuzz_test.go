package c05

import (
	"testing"

	"verifharness/fw"
)

// FuzzCompile: coverage-guided search with the compile oracle inside the target.
func FuzzCompile(f *testing.F) {
	for _, s := range []string{"a/b[k='v']/c = 1", "../a[k = current()/../b]/c", "count(/a) > 1", ">\xff", "a:\xf5", "1 div 0", "'x", "deref(../a)/b", "concat('a',", "a[b][c]|d"} {
		for g := byte(0); g < 3; g++ {
			f.Add(g, []byte(s), false)
		}
	}
	f.Fuzz(func(t *testing.T, g byte, in []byte, mf bool) {
		c := CompileCase{Grammar: []string{"expr", "path_eval", "leafref", "expr_custom", "path_eval_custom"}[int(g)%5], Input: in, MapFn: mf}
		if out := checkCompile(c); out.Violation != "" {
			fw.FuzzReport(compileProp, c, out)
			t.Fatal(out.Violation)
		}
	})
}

// FuzzRun: any compilable input is run on both entry points and with every single fault.
func FuzzRun(f *testing.F) {
	for _, s := range oddPrograms {
		f.Add(s, false)
	}
	f.Fuzz(func(t *testing.T, src string, mach bool) {
		c := RunCase{Src: fw.BStr(src), Grammar: "expr", Mode: "current"}
		if mach {
			c.Mode = "mach"
		}
		if len(src) > 200 {
			return
		}
		if out := checkRun(c); out.Violation != "" {
			fw.FuzzReport(runProp, c, out)
			t.Fatal(out.Violation)
		}
		if out := checkFault(c); out.Violation != "" {
			fw.FuzzReport(faultProp, c, out)
			t.Fatal(out.Violation)
		}
	})
}
