// Package fw is the small framework every property package is written against.
//
// A property check is a value of Prop[C]: a rapid generator of abstract cases
// C (JSON-serialisable), and a Check function that executes the code under
// test on one case and compares with the oracle.  The framework owns
//
//   - the rapid campaign (seed, number of checks come from the driver);
//   - committed replays and known-finding witnesses (run before the campaign);
//   - the journal (the case about to be executed is written to disk first, so
//     a process death can be turned into a replay by the driver);
//   - panic capture (a panic escaping the code under test is a violation);
//   - statistics: evaluations, distinct non-trivial fingerprints, label
//     histograms, samples, exclusions because of known findings;
//   - writing shrunk failures as replay files.
//
// Nothing here reads the clock for decisions or uses an RNG of its own.
package fw

import (
	"encoding/binary"
	"encoding/json"
	"fmt"
	"hash/fnv"
	"os"
	"path/filepath"
	"runtime/debug"
	"sort"
	"strconv"
	"strings"
	"sync"
	"sync/atomic"
	"testing"
	"time"

	"pgregory.net/rapid"
)

// Outcome is what one execution of a case reports.
type Outcome struct {
	Violation  string   // non-empty: the property is violated on this case
	NonTrivial bool     // case is non-trivial by the property's stated rule
	Labels     []string // classification labels (histogram in the evidence)
	Key        string   // fingerprint for distinctness; "" = JSON of the case
	Skip       bool     // case was outside the property's domain (not counted)
}

// Prop describes one generated check of a property.
type Prop[C any] struct {
	ID    string // property id, e.g. C01
	Name  string // name of this sub-check inside the property
	Rule  string // how cases are generated and what makes one non-trivial
	Gen   func(t *rapid.T) C
	Check func(c C) Outcome
	// Weight scales the number of rapid checks relative to the driver's N.
	Weight float64
	// MinLabel lists labels that must appear at least once in a campaign of
	// >= 1000 cases; otherwise the run is reported as vacuous (exit 2).
	MinLabel []string
}

type runner interface {
	id() string
	name() string
	runRaw(raw json.RawMessage) (Outcome, error)
}

func (p *Prop[C]) id() string   { return p.ID }
func (p *Prop[C]) name() string { return p.Name }
func (p *Prop[C]) runRaw(raw json.RawMessage) (Outcome, error) {
	var c C
	if err := json.Unmarshal(raw, &c); err != nil {
		return Outcome{}, err
	}
	return safeCheck(p.Check, c), nil
}

func safeCheck[C any](check func(C) Outcome, c C) (out Outcome) {
	defer func() {
		if r := recover(); r != nil {
			out = Outcome{Violation: fmt.Sprintf("panic escaped: %v\n%s", r, trimStack(debug.Stack()))}
		}
	}()
	return check(c)
}

func trimStack(b []byte) string {
	s := string(b)
	lines := strings.Split(s, "\n")
	if len(lines) > 40 {
		lines = lines[:40]
	}
	return strings.Join(lines, "\n")
}

// ---------------------------------------------------------------------------
// global state of one test process

type checkStats struct {
	Evaluations int64            `json:"evaluations"`
	NonTrivial  int64            `json:"nontrivial_evaluations"`
	Labels      map[string]int64 `json:"labels"`
	Samples     []any            `json:"samples"`
	Rule        string           `json:"rule"`
	Exhaustive  []ExhaustiveInfo `json:"exhaustive_subdomains,omitempty"`
	Skipped     int64            `json:"skipped"`
	keys        map[uint64]struct{}
}

type ExhaustiveInfo struct {
	Name string `json:"name"`
	Size int64  `json:"size"`
}

type violation struct {
	Check  string `json:"check"`
	Replay string `json:"replay"`
	Msg    string `json:"msg"`
}

type knownLine struct {
	ID   string `json:"id"`
	What string `json:"what"`
}

var (
	mu         sync.Mutex
	registry   = map[string]runner{}
	stats      = map[string]*checkStats{}
	violations []violation
	knownLines []knownLine
	vacuous    []string
	excluded   = map[string]int64{}
	activeKF   = map[string]bool{}
	property   string
	outDir     string
	shard      = 0
	tier       = "quick"
	nChecks    = 1000
	seed       uint64
	replayFile string
	journalF   *os.File
	started    time.Time
)

// Tier returns "quick" or "thorough".
func Tier() string { return tier }

// Thorough reports whether the thorough tier is running.
func Thorough() bool { return tier == "thorough" }

// Shard returns the shard index of this process.
func Shard() int { return shard }

// NShards returns the number of shard processes of this run (1 when run outside the driver).
func NShards() int {
	if n := envInt("VERIF_NSHARDS", 1); n > 0 {
		return n
	}
	return 1
}

// Register makes a check known to the framework (needed for witnesses and replays).
func Register[C any](p *Prop[C]) *Prop[C] {
	if p.Weight == 0 {
		p.Weight = 1
	}
	registry[p.Name] = p
	if property == "" {
		property = p.ID
	}
	return p
}

// Known reports whether the known-finding class is live (its witness still
// fails on the current tree).  Generators use it to switch the class off;
// every redirected draw is counted.
func Known(class string) bool {
	if activeKF[class] {
		mu.Lock()
		excluded[class]++
		mu.Unlock()
		return true
	}
	return false
}

// KnownQuiet is Known without counting (for oracles that need to know).
func KnownQuiet(class string) bool { return activeKF[class] }

type kfEntry struct {
	ID       string          `json:"id"`
	Property string          `json:"property"`
	Status   string          `json:"status"`
	Check    string          `json:"check"`
	Class    string          `json:"class"`
	What     string          `json:"what"`
	Commit   string          `json:"commit,omitempty"`
	Witness  json.RawMessage `json:"witness"`
}

type kfFile struct {
	Findings []kfEntry `json:"findings"`
}

func envInt(name string, def int) int {
	if v := os.Getenv(name); v != "" {
		if n, err := strconv.Atoi(v); err == nil {
			return n
		}
	}
	return def
}

// Main is the TestMain of every property package.
func Main(m *testing.M) {
	started = time.Now()
	outDir = os.Getenv("VERIF_OUT")
	if outDir == "" {
		outDir = os.TempDir()
	}
	shard = envInt("VERIF_SHARD", 0)
	if t := os.Getenv("VERIF_TIER"); t != "" {
		tier = t
	}
	nChecks = envInt("VERIF_N", 1000)
	s, _ := strconv.ParseUint(os.Getenv("VERIF_RAPID_SEED"), 10, 64)
	if s == 0 {
		s = 1
	}
	seed = s
	replayFile = os.Getenv("VERIF_REPLAY")
	_ = os.MkdirAll(outDir, 0o755)
	if replayFile == "" {
		jf, err := os.Create(filepath.Join(outDir, fmt.Sprintf("journal.%d.json", shard)))
		if err == nil {
			journalF = jf
		}
	}

	code := 0
	if replayFile != "" {
		code = runReplayFile(replayFile, true)
		os.Exit(code)
	}

	// known findings: run witnesses first
	if kfPath := os.Getenv("VERIF_KF"); kfPath != "" {
		if b, err := os.ReadFile(kfPath); err == nil {
			var kf kfFile
			if err := json.Unmarshal(b, &kf); err != nil {
				fmt.Printf("INCONCLUSIVE known_findings.json unreadable: %v\n", err)
				os.Exit(2)
			}
			for _, e := range kf.Findings {
				if e.Property != property || e.Status != "known" {
					continue
				}
				r, ok := registry[e.Check]
				if !ok {
					continue
				}
				journal(e.Check, e.Witness)
				out, err := r.runRaw(e.Witness)
				if err != nil {
					fmt.Printf("INCONCLUSIVE witness %s undecodable: %v\n", e.ID, err)
					os.Exit(2)
				}
				if out.Violation != "" {
					activeKF[e.Class] = true
					knownLines = append(knownLines, knownLine{e.ID, e.What})
				}
			}
		}
	}

	// committed replays (regressions): every file must pass
	if dir := os.Getenv("VERIF_REPLAYS"); dir != "" && shard == 0 {
		files, _ := filepath.Glob(filepath.Join(dir, "*.json"))
		sort.Strings(files)
		for _, f := range files {
			if runReplayFile(f, false) != 0 {
				mu.Lock()
				violations = append(violations, violation{Check: "replay", Replay: f, Msg: "committed replay fails"})
				mu.Unlock()
			}
		}
	}

	rc := m.Run()
	writeStats()
	if rc != 0 && len(violations) == 0 {
		// a test failed without going through the framework (harness bug)
		fmt.Println("INCONCLUSIVE test binary failed outside the framework")
		os.Exit(2)
	}
	if len(violations) > 0 {
		os.Exit(1)
	}
	if len(vacuous) > 0 {
		os.Exit(2)
	}
	os.Exit(0)
}

type replayDoc struct {
	Property string          `json:"property"`
	Check    string          `json:"check"`
	Seed     uint64          `json:"seed"`
	Msg      string          `json:"msg,omitempty"`
	Case     json.RawMessage `json:"case"`
}

func runReplayFile(path string, verbose bool) int {
	b, err := os.ReadFile(path)
	if err != nil {
		fmt.Printf("INCONCLUSIVE cannot read replay %s: %v\n", path, err)
		return 2
	}
	var d replayDoc
	if err := json.Unmarshal(b, &d); err != nil {
		fmt.Printf("INCONCLUSIVE cannot decode replay %s: %v\n", path, err)
		return 2
	}
	r, ok := registry[d.Check]
	if !ok {
		if verbose {
			fmt.Printf("INCONCLUSIVE replay %s names unknown check %q\n", path, d.Check)
			return 2
		}
		return 0
	}
	journal(d.Check, d.Case) // a case that kills the process is reported from the journal
	out, err := r.runRaw(d.Case)
	if err != nil {
		fmt.Printf("INCONCLUSIVE replay %s: %v\n", path, err)
		return 2
	}
	if out.Violation != "" {
		if verbose {
			fmt.Printf("replay %s: VIOLATED\n%s\n", path, out.Violation)
			fmt.Printf("VIOLATION property=%s replay=%s\n", d.Property, path)
		}
		return 1
	}
	if verbose {
		fmt.Printf("replay %s: property held on this case\n", path)
	}
	return 0
}

func getStats(name, rule string) *checkStats {
	st := stats[name]
	if st == nil {
		st = &checkStats{Labels: map[string]int64{}, keys: map[uint64]struct{}{}, Rule: rule}
		stats[name] = st
	}
	return st
}

func hashKey(s string) uint64 {
	h := fnv.New64a()
	h.Write([]byte(s))
	return h.Sum64()
}

func journal(name string, b []byte) {
	if journalF == nil {
		return
	}
	doc, _ := json.Marshal(replayDoc{Property: property, Check: name, Seed: seed, Msg: "process died while executing this case", Case: b})
	journalF.Truncate(0)
	journalF.WriteAt(doc, 0)
}

func record(name, rule string, caseJSON []byte, c any, out Outcome) {
	mu.Lock()
	defer mu.Unlock()
	st := getStats(name, rule)
	if out.Skip {
		st.Skipped++
		return
	}
	st.Evaluations++
	for _, l := range out.Labels {
		st.Labels[l]++
	}
	if out.NonTrivial {
		st.NonTrivial++
		k := out.Key
		if k == "" {
			k = string(caseJSON)
		}
		h := hashKey(k)
		if _, dup := st.keys[h]; !dup {
			st.keys[h] = struct{}{}
			// keep a few samples: the first two and then sparse ones
			n := len(st.keys)
			if len(st.Samples) < 2 || (len(st.Samples) < 6 && n%997 == 0) {
				st.Samples = append(st.Samples, c)
			}
		}
	}
}

// Eval runs one case outside rapid (exhaustive sub-domains, fixed corpora).
// It returns true when the property held.
func Eval[C any](p *Prop[C], sub string, c C) bool {
	b, _ := json.Marshal(c)
	journal(p.Name, b)
	out := safeCheck(p.Check, c)
	record(p.Name+sub, p.Rule, b, c, out)
	if out.Violation != "" {
		saveViolation(p.ID, p.Name, b, out.Violation)
		return false
	}
	return true
}

// NoteExhaustive records that a finite sub-domain was enumerated completely.
func NoteExhaustive(check, name string, size int64) {
	mu.Lock()
	defer mu.Unlock()
	st := getStats(check, "")
	st.Exhaustive = append(st.Exhaustive, ExhaustiveInfo{name, size})
}

var savedPerCheck = map[string]int{}

func saveViolation(id, name string, caseJSON []byte, msg string) string {
	mu.Lock()
	defer mu.Unlock()
	savedPerCheck[name]++
	if savedPerCheck[name] > envInt("VERIF_MAXVIOL", 3) { // enough examples of this sub-check
		return ""
	}
	dir := filepath.Join(outDir, "new-replays")
	_ = os.MkdirAll(dir, 0o755)
	h := hashKey(string(caseJSON))
	path := filepath.Join(dir, fmt.Sprintf("%s-%s-%016x.json", id, name, h))
	doc, _ := json.MarshalIndent(replayDoc{Property: id, Check: name, Seed: seed, Msg: msg, Case: caseJSON}, "", " ")
	_ = os.WriteFile(path, doc, 0o644)
	violations = append(violations, violation{Check: name, Replay: path, Msg: msg})
	return path
}

// captureTB lets rapid report into us instead of failing the *testing.T.
type captureTB struct {
	t      *testing.T
	failed bool
	logs   []string
}

func (c *captureTB) Helper()      {}
func (c *captureTB) Name() string { return c.t.Name() }
func (c *captureTB) Logf(format string, args ...any) {
	c.logs = append(c.logs, fmt.Sprintf(format, args...))
}
func (c *captureTB) Log(args ...any)                   { c.logs = append(c.logs, fmt.Sprint(args...)) }
func (c *captureTB) Skipf(format string, args ...any)  {}
func (c *captureTB) Skip(args ...any)                  {}
func (c *captureTB) SkipNow()                          {}
func (c *captureTB) Errorf(format string, args ...any) { c.failed = true; c.Logf(format, args...) }
func (c *captureTB) Error(args ...any)                 { c.failed = true; c.Log(args...) }
func (c *captureTB) Fatalf(format string, args ...any) { c.failed = true; c.Logf(format, args...) }
func (c *captureTB) Fatal(args ...any)                 { c.failed = true; c.Log(args...) }
func (c *captureTB) FailNow()                          { c.failed = true }
func (c *captureTB) Fail()                             { c.failed = true }
func (c *captureTB) Failed() bool                      { return c.failed }

// Run executes the rapid campaign of one check.
func Run[C any](t *testing.T, p *Prop[C]) {
	if only := os.Getenv("VERIF_ONLY"); only != "" && only != p.Name {
		return
	}
	n := int(float64(nChecks) * p.Weight)
	if n < 1 {
		n = 1
	}
	var lastFail []byte
	var lastMsg string
	counting := true
	prop := func(rt *rapid.T) {
		if poisoned.Load() && lastFail != nil {
			rt.Fatalf("%s", lastMsg) // stop shrinking: every further run fails the same way
		}
		c := p.Gen(rt)
		b, err := json.Marshal(c)
		if err != nil {
			panic(fmt.Sprintf("harness: case not serialisable: %v", err))
		}
		journal(p.Name, b)
		out := safeCheck(p.Check, c)
		if counting {
			record(p.Name, p.Rule, b, c, out)
		}
		if out.Violation != "" {
			counting = false
			lastFail = b
			lastMsg = out.Violation
			rt.Fatalf("%s", out.Violation)
		}
	}
	ctb := &captureTB{t: t}
	setRapidFlags(n, seed)
	func() {
		defer func() { recover() }() // rapid calls FailNow semantics via our TB; nothing to unwind
		rapid.Check(ctb, prop)
	}()
	if lastFail != nil {
		path := saveViolation(p.ID, p.Name, lastFail, lastMsg)
		t.Logf("violation in %s/%s: %s\nreplay: %s", p.ID, p.Name, lastMsg, path)
		t.Fail()
		if poisoned.Load() {
			// a goroutine of the code under test is stuck (possibly holding a lock): the remaining checks of this
			// process could hang on it without a watchdog.  The violation is recorded; report it and stop here.
			writeStats()
			os.Exit(1)
		}
		return
	}
	if ctb.failed {
		// rapid failed without our check reporting: generator problem
		mu.Lock()
		vacuous = append(vacuous, p.Name+": rapid failed without a property violation: "+strings.Join(ctb.logs, " | "))
		mu.Unlock()
		t.Logf("rapid failure without violation: %v", ctb.logs)
		return
	}
	// vacuity control
	mu.Lock()
	st := getStats(p.Name, p.Rule)
	if st.Evaluations >= 1000 {
		for _, l := range p.MinLabel {
			if st.Labels[l] == 0 {
				vacuous = append(vacuous, fmt.Sprintf("%s: label %q never produced in %d cases", p.Name, l, st.Evaluations))
			}
		}
	}
	mu.Unlock()
}

func writeStats() {
	mu.Lock()
	defer mu.Unlock()
	type outT struct {
		Property   string                 `json:"property"`
		Shard      int                    `json:"shard"`
		Seed       uint64                 `json:"seed"`
		Tier       string                 `json:"tier"`
		Checks     map[string]*checkStats `json:"checks"`
		Violations []violation            `json:"violations"`
		Known      []knownLine            `json:"known"`
		Excluded   map[string]int64       `json:"excluded_by_known"`
		Vacuous    []string               `json:"vacuous"`
		WallS      float64                `json:"wall_s"`
	}
	o := outT{property, shard, seed, tier, stats, violations, knownLines, excluded, vacuous, time.Since(started).Seconds()}
	b, _ := json.MarshalIndent(o, "", " ")
	_ = os.WriteFile(filepath.Join(outDir, fmt.Sprintf("stats.%d.json", shard)), b, 0o644)
	// distinct non-trivial fingerprints, one binary file per check
	for name, st := range stats {
		buf := make([]byte, 0, 8*len(st.keys))
		for k := range st.keys {
			buf = binary.LittleEndian.AppendUint64(buf, k)
		}
		_ = os.WriteFile(filepath.Join(outDir, fmt.Sprintf("keys.%d.%s.bin", shard, sanitize(name))), buf, 0o644)
	}
	if journalF != nil {
		journalF.Close()
		os.Remove(journalF.Name())
	}
}

func sanitize(s string) string {
	return strings.Map(func(r rune) rune {
		if r == '/' || r == ' ' {
			return '_'
		}
		return r
	}, s)
}

// poisoned is set once a watchdog fired: a goroutine of the code under test is
// stuck, so shrinking further in this process is pointless.
var poisoned atomic.Bool

// WithTimeout runs f in a goroutine and waits at most sec seconds.  It returns
// false when f did not finish (the goroutine is leaked; the caller must treat
// the process as poisoned).
func WithTimeout(sec int, f func()) bool {
	done := make(chan any, 1)
	go func() {
		defer func() { done <- recover() }()
		f()
	}()
	select {
	case r := <-done:
		if r != nil {
			panic(r)
		}
		return true
	case <-time.After(time.Duration(sec) * time.Second):
		poisoned.Store(true)
		return false
	}
}

// FuzzReport writes the failing case of a native fuzz target as a replay file
// (fuzz workers are separate processes; the driver collects the files).
func FuzzReport[C any](p *Prop[C], c C, out Outcome) {
	dir := os.Getenv("VERIF_FUZZ_OUT")
	if dir == "" {
		return
	}
	_ = os.MkdirAll(dir, 0o755)
	b, _ := json.Marshal(c)
	doc, _ := json.MarshalIndent(replayDoc{Property: p.ID, Check: p.Name, Msg: out.Violation, Case: b}, "", " ")
	_ = os.WriteFile(filepath.Join(dir, fmt.Sprintf("%s-%s-fuzz-%016x.json", p.ID, p.Name, hashKey(string(b)))), doc, 0o644)
}
