package fw

import (
	"flag"
	"strconv"
)

func setRapidFlags(n int, seed uint64) {
	_ = flag.Set("rapid.checks", strconv.Itoa(n))
	_ = flag.Set("rapid.seed", strconv.FormatUint(seed, 10))
	_ = flag.Set("rapid.nofailfile", "true")
	if Thorough() {
		_ = flag.Set("rapid.shrinktime", "60s")
	} else {
		_ = flag.Set("rapid.shrinktime", "20s")
	}
}
