package fw

import (
	"encoding/base64"
	"encoding/json"
	"unicode/utf8"
)

// BStr is a string that survives JSON round trips even when it is not valid
// UTF-8 (encoding/json would replace the invalid bytes): such values are
// written as {"b64": "..."}.
type BStr string

func (b BStr) MarshalJSON() ([]byte, error) {
	if utf8.ValidString(string(b)) {
		return json.Marshal(string(b))
	}
	return json.Marshal(map[string]string{"b64": base64.StdEncoding.EncodeToString([]byte(b))})
}

func (b *BStr) UnmarshalJSON(data []byte) error {
	var s string
	if err := json.Unmarshal(data, &s); err == nil {
		*b = BStr(s)
		return nil
	}
	var m map[string]string
	if err := json.Unmarshal(data, &m); err != nil {
		return err
	}
	raw, err := base64.StdEncoding.DecodeString(m["b64"])
	if err != nil {
		return err
	}
	*b = BStr(raw)
	return nil
}
