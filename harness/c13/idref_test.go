package c13

import (
	"fmt"
	"strings"
	"testing"

	"verifharness/fw"
	"verifharness/sgc"

	"pgregory.net/rapid"
)

// IdrefCase: the default of an identityref, given by a typedef or by the leaf, in the module that defines the
// identities or in one that imports it; the chain may pass through a second typedef in either module.
type IdrefCase struct {
	TdDefault   string `json:"td_default"`   // "", "bare", "prefix" (the own prefix of the defining module), "modname"
	LeafDefault string `json:"leaf_default"` // "", "bare"/"prefix": the second identity, spelt as the leaf's file spells it
	LeafRemote  bool   `json:"leaf_remote"`  // the leaf stands in a module that imports the defining one
	Hop         int    `json:"hop"`          // 0 none, 1 a typedef without default in the defining module, 2 in the leaf's module
	ModIsPrefix bool   `json:"mod_is_prefix"` // the defining module's prefix equals its name
}

func genIdref(t *rapid.T) IdrefCase {
	return IdrefCase{TdDefault: []string{"", "bare", "prefix", "modname"}[rapid.IntRange(0, 3).Draw(t, "tddef")],
		LeafDefault: []string{"", "bare", "prefix"}[rapid.IntRange(0, 2).Draw(t, "leafdef")],
		LeafRemote:  rapid.Bool().Draw(t, "remote"), Hop: rapid.IntRange(0, 2).Draw(t, "hop"), ModIsPrefix: rapid.Bool().Draw(t, "modisprefix")}
}

func checkIdref(c IdrefCase) fw.Outcome {
	out := fw.Outcome{Key: fmt.Sprint(c), NonTrivial: c.LeafRemote || c.TdDefault == "prefix" || c.Hop > 0}
	apfx := "a"
	if c.ModIsPrefix {
		apfx = "aa"
	}
	td := ""
	switch c.TdDefault {
	case "bare":
		td = " default foo;"
	case "prefix":
		td = " default " + apfx + ":foo;"
	case "modname":
		if !c.ModIsPrefix && !c.LeafRemote {
			// the module name as a qualifier, in a file of that module where it is no prefix: not a spelling YANG gives
			// a meaning to
			out.Skip = true
			return out
		}
		td = " default aa:foo;"
	}
	aa := `module aa { namespace "urn:aa"; prefix ` + apfx + `; identity b; identity foo { base b; } identity bar { base b; }` +
		` typedef tid { type identityref { base b; }` + td + ` }`
	typeName, zzExtra := "tid", ""
	if c.Hop == 1 {
		aa += ` typedef tid2 { type tid; }`
		typeName = "tid2"
	}
	leaf := func(pfx string) string {
		tn := typeName
		if pfx != "" {
			tn = pfx + ":" + typeName
		}
		if c.Hop == 2 {
			if pfx == "" {
				zzExtra = ""
				aa += ` typedef tid3 { type ` + tn + `; }`
			} else {
				zzExtra = ` typedef tid3 { type ` + tn + `; }`
			}
			tn = "tid3"
		}
		d := ""
		switch c.LeafDefault {
		case "bare":
			if pfx != "" {
				d = " default " + pfx + ":bar;" // (an unprefixed default in zz would name an identity of zz)
			} else {
				d = " default bar;"
			}
		case "prefix":
			p := pfx
			if p == "" {
				p = apfx
			}
			d = " default " + p + ":bar;"
		}
		return ` container top { leaf l { type ` + tn + `;` + d + ` } }`
	}
	names, texts := []string{"aa"}, []string{}
	want := ""
	if c.TdDefault != "" {
		want = "foo"
	}
	if c.LeafDefault != "" {
		want = "bar"
	}
	if c.LeafRemote {
		l := leaf("x")
		texts = append(texts, aa+" }", `module zz { namespace "urn:zz"; prefix z; import aa { prefix x; }`+zzExtra+l+` }`)
		names = append(names, "zz")
		if want != "" {
			want = "aa:" + want
		}
	} else {
		l := leaf("")
		texts = append(texts, aa+l+" }")
	}
	src := strings.Join(texts, "\n")
	res := sgc.CompileTexts(names, texts, sgc.Opts{Features: sgc.AllFeatures{}})
	if res.Hang || res.Panic != "" {
		out.Violation = res.Describe() + "\n" + src
		return out
	}
	if !res.OK() {
		out.Violation = fmt.Sprintf("an identityref with the default of the nearest definition does not compile: %s\n%s", res.Describe(), src)
		return out
	}
	typ := res.MS.Child("top").Child("l").Type()
	got, has := typ.Default()
	if has != (want != "") || got != want {
		out.Violation = fmt.Sprintf("default of the leaf is %q,%v, the nearest definition gives %q\n%s", got, has, want, src)
		return out
	}
	// the default is a value of the type, and so is the other identity, spelt the same way
	for _, v := range []string{want, strings.Replace(want, "foo", "bar", 1), strings.Replace(want, "bar", "foo", 1)} {
		if v == "" {
			continue
		}
		if err := typ.Validate(nil, []string{"top", "l"}, v); err != nil {
			out.Violation = fmt.Sprintf("value %q is rejected: %v\n%s", v, err, src)
			return out
		}
	}
	return out
}

var idref = fw.Register(&fw.Prop[IdrefCase]{
	ID: "C13", Name: "idref",
	Rule: "an identityref reached through 1-2 typedefs, the default given by the innermost typedef (bare, with the own prefix of its module, with the module name), by the leaf, or by neither; the leaf in the " +
		"defining module or in one that imports it under another prefix; oracle: the set compiles and the leaf's default is the nearest one, spelt as the values of the leaf are spelt (bare in the " +
		"identities' module, else <module>:<identity>), and is accepted by the type; non-trivial = the leaf is in another module, a prefixed default, or a second typedef",
	Gen: genIdref, Check: checkIdref, Weight: 0.1,
})

func TestIdref(t *testing.T) { fw.Run(t, idref) }
