// Package c13: derived types narrow their base and inherit its default.
package c13

import (
	"fmt"
	"math/big"
	"os"
	"strings"
	"testing"

	"verifharness/fw"
	"verifharness/sg"
	"verifharness/sgc"
	"verifharness/vt"

	"github.com/sdcio/yang-parser/schema"
	"pgregory.net/rapid"
)

// Level is one definition in the chain (typedef levels, then the leaf).
type Level struct {
	Range    string   `json:"range,omitempty"`
	Length   string   `json:"length,omitempty"`
	Patterns []string `json:"patterns,omitempty"`
	Default  *string  `json:"default,omitempty"`
	// FDAgain: a fraction-digits statement on this level although it is not the one written on decimal64 itself
	FDAgain int `json:"fd_again,omitempty"`
	// Enums: enum statements on this level although it is not the one written on enumeration itself (an enumeration
	// cannot be restricted, let alone extended: RFC 6020 9.6.3)
	Enums []string `json:"enums,omitempty"`
}

// Case: base type, typedef levels from the base outwards, and the leaves (each its own final level).
type Case struct {
	Base   string   `json:"base"`
	FD     int      `json:"fd,omitempty"`
	Chain  []Level  `json:"chain"`  // Chain[0] is the typedef directly on the base
	Leaves []Level  `json:"leaves"` // each leaf uses the last typedef (or the base) with its own restriction / default
	Probes []string `json:"probes,omitempty"`
	// Scope: 0 all typedefs at module level; 1 all local to the top container; 2 the outer half local, the rest at module
	// level.  OwnPfx: typedef names are referred to with the module's own prefix (which changes nothing).
	Scope  int  `json:"scope,omitempty"`
	OwnPfx bool `json:"own_prefix,omitempty"`
	// Split k > 0: the first k typedefs of the chain are written in an imported module "mb", under the names the NEXT
	// typedefs have, so that m0's first own typedef extends the imported typedef of its own name
	// ("typedef t2 { type mb:t2 { ... } }"): the prefix decides which typedef is meant
	Split int `json:"split,omitempty"`
}

var patternPool = []string{"(ab+)|(cd+)", "([0-9]+)|(none)", "[a-z]+", "[a-z0-9]*", "a.*", ".*z", "(ab|cd)+", "[^x]*", "a|b", ".{2,6}"}

type gen struct{ t *rapid.T }

func (g *gen) pick(n int, l string) int { return rapid.IntRange(0, n-1).Draw(g.t, l) }

func fmtScaled(v *big.Int, fd int) string {
	if fd == 0 {
		return v.String()
	}
	neg := v.Sign() < 0
	s := new(big.Int).Abs(v).String()
	for len(s) <= fd {
		s = "0" + s
	}
	out := s[:len(s)-fd] + "." + s[len(s)-fd:]
	if neg {
		out = "-" + out
	}
	return out
}

// subRange draws a range expression relative to the current intervals.
// mode 0: subset; 1: superset / outside; 2: unordered / overlapping / descending.
func (g *gen) subRange(cur []vt.Iv, fd int, mode int) string {
	pt := func(iv vt.Iv, l string) *big.Int {
		span := new(big.Int).Sub(iv.Hi, iv.Lo)
		if span.Sign() == 0 {
			return iv.Lo
		}
		// small offsets from either end, or the middle
		switch g.pick(5, l) {
		case 0:
			return iv.Lo
		case 1:
			return iv.Hi
		case 2:
			off := big.NewInt(int64(1 + g.pick(3, l+"o")))
			if off.Cmp(span) > 0 {
				off = span
			}
			return new(big.Int).Add(iv.Lo, off)
		case 3:
			off := big.NewInt(int64(1 + g.pick(3, l+"o")))
			if off.Cmp(span) > 0 {
				off = span
			}
			return new(big.Int).Sub(iv.Hi, off)
		default:
			return new(big.Int).Add(iv.Lo, new(big.Int).Rsh(span, 1))
		}
	}
	var parts []string
	f := func(v *big.Int) string { return fmtScaled(v, fd) }
	switch mode {
	case 0:
		// one part per chosen base interval, in order; sometimes a part spanning two touching intervals
		for i := 0; i < len(cur); i++ {
			if len(cur) > 1 && g.pick(3, "skipiv") == 0 {
				continue
			}
			iv := cur[i]
			a, b := pt(iv, "a"), pt(iv, "b")
			if a.Cmp(b) > 0 {
				a, b = b, a
			}
			lo, hi := f(a), f(b)
			if fd == 0 && i == 0 && a.Cmp(cur[0].Lo) == 0 && g.pick(2, "minkw") == 0 {
				lo = "min"
			}
			if fd == 0 && i == len(cur)-1 && b.Cmp(cur[len(cur)-1].Hi) == 0 && g.pick(2, "maxkw") == 0 {
				hi = "max"
			}
			if span := new(big.Int).Sub(b, a); lo != "min" && hi != "max" && span.Cmp(big.NewInt(16)) >= 0 && g.pick(4, "manyparts") == 0 {
				// many disjoint parts (port lists, vlan lists): 3-8 of them, some a single value
				k := 3 + g.pick(6, "nparts")
				step := new(big.Int).Div(span, big.NewInt(int64(2*k)))
				for j := 0; j < k; j++ {
					pl := new(big.Int).Add(a, new(big.Int).Mul(step, big.NewInt(int64(2*j))))
					ph := new(big.Int).Add(pl, step)
					if j == k-1 {
						ph = b
					}
					if g.pick(3, "singlepart") == 0 {
						parts = append(parts, f(pl))
					} else {
						parts = append(parts, f(pl)+".."+f(ph))
					}
				}
				continue
			}
			if a.Cmp(b) == 0 && lo != "min" && hi != "max" && g.pick(2, "single") == 0 {
				parts = append(parts, lo)
			} else {
				parts = append(parts, lo+".."+hi)
			}
		}
		if huge := new(big.Int).Lsh(big.NewInt(1), 56); len(cur) == 1 && new(big.Int).Sub(cur[0].Hi, cur[0].Lo).Cmp(huge) > 0 && g.pick(3, "neargap") == 0 {
			// two parts with a small gap between them far beyond 2^53, near either end of a 64-bit interval: whether
			// they touch cannot be told in floating point
			iv := cur[0]
			gap := big.NewInt([]int64{2, 3, 17, 100, 300, 1}[g.pick(6, "gapwidth")])
			piv := new(big.Int).Sub(iv.Hi, big.NewInt(int64(1000+g.pick(5000, "gapat"))))
			if iv.Lo.Sign() < 0 && g.pick(2, "gaplow") == 0 {
				piv = new(big.Int).Add(iv.Lo, big.NewInt(int64(1000+g.pick(5000, "gapat"))))
			}
			parts = []string{f(iv.Lo) + ".." + f(piv), f(new(big.Int).Add(piv, gap)) + ".." + f(iv.Hi)}
		}
		if len(parts) == 0 {
			iv := cur[0]
			parts = append(parts, f(iv.Lo)+".."+f(iv.Hi))
		}
		// split one part into two adjacent parts: "1..5 | 6..10" (for decimal64: "1.0..1.1 | 1.2..5.0")
		if g.pick(3, "adjacent") == 0 {
			iv := cur[len(cur)-1]
			if new(big.Int).Sub(iv.Hi, iv.Lo).Cmp(big.NewInt(3)) >= 0 && len(parts) == 1 {
				mid := new(big.Int).Add(iv.Lo, big.NewInt(1))
				parts = []string{f(iv.Lo) + ".." + f(mid), f(new(big.Int).Add(mid, big.NewInt(1))) + ".." + f(iv.Hi)}
			}
		}
	case 1:
		iv := cur[len(cur)-1]
		switch g.pick(3, "outside") {
		case 0:
			parts = []string{f(iv.Lo) + ".." + f(new(big.Int).Add(iv.Hi, big.NewInt(1)))}
		case 1:
			parts = []string{f(new(big.Int).Sub(cur[0].Lo, big.NewInt(1))) + ".." + f(cur[0].Hi)}
		default:
			// spans a gap between two base parts
			if len(cur) >= 2 {
				parts = []string{f(cur[0].Lo) + ".." + f(cur[1].Hi)}
			} else {
				parts = []string{f(new(big.Int).Add(iv.Hi, big.NewInt(5)))}
			}
		}
	case 4:
		// keyword boundaries anywhere: "x..max", "min..x", "min..max", "a..b | x..max"; over a base with gaps such a part
		// is a subset only if both ends lie in one run of touching parts
		iv := cur[g.pick(len(cur), "kwiv")]
		x := pt(iv, "kwx")
		switch g.pick(9, "kwform") {
		case 7:
			// min as the upper, max as the lower boundary of a part
			parts = []string{"min..min"}
		case 8:
			parts = []string{[]string{"max..max", "min..min | max..max", "max..min"}[g.pick(3, "kwodd")]}
		case 4:
			// a part that is the single boundary max (or min) stands for that one value
			parts = []string{"max"}
		case 5:
			parts = []string{"min"}
		case 6:
			if x.Cmp(cur[0].Lo) > 0 && x.Cmp(cur[len(cur)-1].Hi) < 0 {
				parts = []string{"min", f(x), "max"}
			} else {
				parts = []string{"min", "max"}
			}
		case 0:
			parts = []string{f(x) + "..max"}
		case 1:
			parts = []string{"min.." + f(x)}
		case 2:
			parts = []string{"min..max"}
		default:
			first := cur[0]
			if x.Cmp(first.Hi) > 0 {
				parts = []string{f(first.Lo) + ".." + f(first.Hi), f(x) + "..max"}
			} else {
				parts = []string{"min.." + f(x)}
			}
		}
	case 3:
		// one part that spans the first two base parts (valid only when they touch and the type is integral)
		if len(cur) >= 2 {
			parts = []string{f(cur[0].Lo) + ".." + f(cur[1].Hi)}
		} else {
			parts = []string{f(cur[0].Lo) + ".." + f(cur[0].Hi)}
		}
	default:
		iv := cur[0]
		a, b := pt(iv, "a"), pt(iv, "b")
		switch g.pick(3, "bad") {
		case 0:
			if a.Cmp(b) == 0 {
				b = new(big.Int).Add(a, big.NewInt(1))
			}
			if a.Cmp(b) < 0 {
				a, b = b, a
			}
			parts = []string{f(a) + ".." + f(b)} // descending
		case 1:
			parts = []string{f(a) + ".." + f(b), f(a) + ".." + f(b)} // overlapping / equal
		default:
			parts = []string{f(iv.Hi), f(iv.Lo)} // unordered
		}
	}
	sep := []string{"|", " | ", "| "}[g.pick(3, "sep")]
	return strings.Join(parts, sep)
}

func genCase(t *rapid.T) Case {
	g := &gen{t}
	c := Case{}
	switch g.pick(5, "basekind") {
	case 4:
		c.Base = []string{"boolean", "enumeration", "union", "union-shared"}[g.pick(4, "fixed")]
	case 0:
		c.Base = []string{"int8", "int16", "int32", "int64"}[g.pick(4, "iw")]
	case 1:
		c.Base = []string{"uint8", "uint16", "uint32", "uint64"}[g.pick(4, "uw")]
	case 2:
		c.Base = "decimal64"
		// few fraction digits with small values, or many with values of up to 15 significant digits (a unit in the last
		// place is then a relative difference of 1e-15: boundaries are compared exactly, not within a tolerance)
		c.FD = []int{1, 2, 3, 1, 2, 3, 9, 12, 15}[g.pick(9, "fd")]
	default:
		c.Base = "string"
	}
	c.Scope = []int{0, 0, 1, 2}[g.pick(4, "scope")]
	c.OwnPfx = g.pick(3, "ownpfx") == 0
	splitWish := g.pick(3, "split") == 0
	sp := baseSpace(c)
	if c.Base == "decimal64" {
		// stay far below 2^53 scaled units: exactness of 64-bit decimal64 bounds is C16's business
		sp.Ranges = []vt.Iv{{Lo: big.NewInt(-9999999), Hi: big.NewInt(9999999)}}
		if c.FD > 3 {
			sp.Ranges = []vt.Iv{{Lo: big.NewInt(-999999999999999), Hi: big.NewInt(999999999999999)}}
		}
	}
	depth := g.pick(5, "depth")
	level := func(isLeaf bool) Level {
		var l Level
		if g.pick(3, "restrict") != 0 || isLeaf {
			mode := []int{0, 0, 0, 4, 0, 1, 0, 4, 3, 0, 2, 0, 4, 3, 0, 0}[g.pick(16, "mode")]
			if fixedBases[c.Base] != nil {
				if c.Base == "enumeration" && g.pick(12, "enumagain") == 5 {
					l.Enums = [][]string{{"four"}, {"one"}, {"one", "two", "three"}, {"two", "five"}}[g.pick(4, "enumagainv")]
				}
				if g.pick(20, "wrongkind") == 11 {
					switch g.pick(3, "wkfixed") {
					case 0:
						l.Range = "1..5"
					case 1:
						l.Length = "1..5"
					default:
						l.Patterns = []string{"[a-z]+"}
					}
				}
			} else if c.Base == "string" {
				if g.pick(2, "len") == 0 {
					l.Length = g.subRange(sp.Lengths, 0, mode)
				}
				np := g.pick(3, "npat")
				for i := 0; i < np; i++ {
					if g.pick(2, "patgrammar") == 0 {
						l.Patterns = append(l.Patterns, vt.GenPattern(g.pick, 2))
					} else {
						l.Patterns = append(l.Patterns, patternPool[g.pick(len(patternPool), "pat")])
					}
				}
				if g.pick(30, "wrongkind") == 17 {
					l.Range = "1..5"
				}
			} else {
				l.Range = g.subRange(sp.Ranges, c.FD, mode)
				if c.Base == "decimal64" && g.pick(25, "fdagain") == 7 {
					// (refused on a derived level whatever the number; on the level written on decimal64 it is the statement
					// that is there anyway)
					l.FDAgain = []int{c.FD, 1, 4}[g.pick(3, "fdagainv")]
				}
				if g.pick(30, "wrongkind") == 17 {
					if g.pick(2, "wk") == 0 {
						l.Length = "1..5"
					} else {
						l.Patterns = []string{"[0-9]+"}
					}
				}
			}
		}
		// advance the model when the restriction is valid, so later levels are drawn relative to it
		if l.Range != "" && c.Base != "string" {
			if r, err := vt.Restrict(l.Range, sp.Ranges, c.FD, c.Base == "decimal64", c.Base != "decimal64"); err == nil {
				sp.Ranges = r
			}
		}
		if l.Length != "" && c.Base == "string" {
			if r, err := vt.Restrict(l.Length, sp.Lengths, 0, false, true); err == nil {
				sp.Lengths = r
			}
		}
		if g.pick(6, "default") == 3 || (fixedBases[c.Base] != nil && g.pick(3, "fdefault") == 1) {
			var d string
			if fixedBases[c.Base] != nil {
				d = []string{"true", "false", "one", "two", "three", "four", "auto", "5", "100", "101", "x", "One", ""}[g.pick(13, "fdef")]
			} else if c.Base == "string" {
				// (blanks at the ends of a default are part of the value)
				d = []string{"a", "ab", "abz", "cdcd", "", "xyz", "b", "aaaaaaaaaaaaaaaaaaaa", "az", "abab", "aaz", "abcz", " a", "ab ", " ", " abz ", "a b", "\tab"}[g.pick(18, "sdef")]
			} else {
				iv := sp.Ranges[g.pick(len(sp.Ranges), "defiv")]
				switch g.pick(8, "defpt") {
				case 0, 1, 2, 7:
					d = fmtScaled(iv.Lo, c.FD)
				case 3, 5, 6:
					d = fmtScaled(iv.Hi, c.FD)
				case 4:
					d = fmtScaled(new(big.Int).Add(iv.Hi, big.NewInt(1)), c.FD)
				}
				if g.pick(8, "defblank") == 0 {
					// a number with a blank in front or behind is no lexical value of the type
					d = []string{" " + d, d + " ", " " + d + " "}[g.pick(3, "defblankpos")]
				}
			}
			l.Default = &d
		}
		return l
	}
	for i := 0; i < depth; i++ {
		c.Chain = append(c.Chain, level(false))
	}
	nl := 1 + g.pick(3, "nleaves")
	save := sp.Clone()
	for i := 0; i < nl; i++ {
		sp = save.Clone()
		c.Leaves = append(c.Leaves, level(true))
	}
	// random probes in addition to the bound probes computed at check time
	for i := 0; i < 4; i++ {
		if fixedBases[c.Base] != nil {
			c.Probes = append(c.Probes, []string{"true", "false", "one", "two", "three", "four", "auto", "5", "100", "101", "x", "One", "", "0", "256", "-1"}[g.pick(16, "fprobe")])
		} else if c.Base == "string" {
			c.Probes = append(c.Probes, rapid.StringOfN(rapid.SampledFrom([]rune{'a', 'b', 'c', 'd', 'z', 'x', '0', 'é'}), 0, 8, -1).Draw(t, "sprobe"))
		} else {
			c.Probes = append(c.Probes, fmtScaled(big.NewInt(int64(rapid.IntRange(-300, 300).Draw(t, "iprobe"))), c.FD))
		}
	}
	if splitWish && fixedBases[c.Base] == nil && len(c.Chain) >= 2 {
		c.Split = 1 + g.pick(len(c.Chain)-1, "splitat")
	}
	return c
}

// fixed bases: types to which no restriction applies; a chain over them can only hand a default on
var fixedBases = map[string]*sg.TypeSpec{
	"boolean":     {Name: "boolean"},
	"enumeration": {Name: "enumeration", Enums: []string{"one", "two", "three"}},
	"union":       {Name: "union", Members: []*sg.TypeSpec{{Name: "uint8", Range: "0..100"}, {Name: "enumeration", Enums: []string{"auto"}}}},
	// two members that are refinements of one and the same typedef ("pct", uint8 0..100, defined next to the union):
	// the type tree forks and rejoins, which is no cycle
	"union-shared": {Name: "union", Members: []*sg.TypeSpec{{Name: "pct", Range: "0..10"}, {Name: "pct2"}, {Name: "pct", Range: "90..max"}, {Name: "enumeration", Enums: []string{"auto"}}}},
}

func baseSpace(c Case) *vt.Space {
	switch c.Base {
	case "boolean":
		return &vt.Space{Kind: "boolean"}
	case "enumeration":
		return &vt.Space{Kind: "enumeration", Names: []string{"one", "two", "three"}}
	case "union":
		u8 := vt.Builtin("uint8", 0)
		u8.Ranges = []vt.Iv{{Lo: big.NewInt(0), Hi: big.NewInt(100)}}
		return &vt.Space{Kind: "union", Members: []*vt.Space{u8, {Kind: "enumeration", Names: []string{"auto"}}}}
	case "union-shared":
		// pct 0..10 | pct2 (= pct 40..60) | pct 90..max
		u8 := vt.Builtin("uint8", 0)
		u8.Ranges = []vt.Iv{{Lo: big.NewInt(0), Hi: big.NewInt(10)}, {Lo: big.NewInt(40), Hi: big.NewInt(60)}, {Lo: big.NewInt(90), Hi: big.NewInt(100)}}
		return &vt.Space{Kind: "union", Members: []*vt.Space{u8, {Kind: "enumeration", Names: []string{"auto"}}}}
	}
	return vt.Builtin(c.Base, c.FD)
}

// model applies one level to a space; returns an error when the level must be refused.
func applyLevel(sp *vt.Space, l Level, base string, fd int, derived bool) (*vt.Space, error) {
	out := sp.Clone()
	if l.FDAgain != 0 && derived {
		return nil, fmt.Errorf("fraction-digits is given with decimal64 itself, not with a type derived from it")
	}
	if len(l.Enums) > 0 {
		return nil, fmt.Errorf("enum statements are given with enumeration itself, not with a type derived from it")
	}
	if fixedBases[base] != nil {
		if l.Range != "" || l.Length != "" || len(l.Patterns) > 0 {
			return nil, fmt.Errorf("no restriction applies to %s", base)
		}
		return out, nil
	}
	if base == "string" {
		if l.Range != "" {
			return nil, fmt.Errorf("range does not apply to string")
		}
		if l.Length != "" {
			r, err := vt.Restrict(l.Length, sp.Lengths, 0, false, true)
			if err != nil {
				return nil, err
			}
			out.Lengths = r
		}
		for _, p := range l.Patterns {
			out.Patterns = append(out.Patterns, vt.Anchored(p))
		}
		return out, nil
	}
	if l.Length != "" || len(l.Patterns) > 0 {
		return nil, fmt.Errorf("length/pattern do not apply to %s", base)
	}
	if l.Range != "" {
		r, err := vt.Restrict(l.Range, sp.Ranges, fd, base == "decimal64", base != "decimal64")
		if err != nil {
			return nil, err
		}
		out.Ranges = r
	}
	return out, nil
}

func typeSpec(name string, l Level, fd int, withFD bool) *sg.TypeSpec {
	t := &sg.TypeSpec{Name: name, Range: l.Range, Length: l.Length, Patterns: l.Patterns, Enums: l.Enums}
	if withFD {
		t.FD = fd
	} else if l.FDAgain != 0 {
		t.FD = l.FDAgain
	}
	return t
}

func build(c Case) []*sg.Mod {
	m := &sg.Mod{Name: "m0", Prefix: "m0"}
	var mb *sg.Mod
	if c.Split > 0 {
		mb = &sg.Mod{Name: "mb", Prefix: "mb", Nodes: []*sg.Node{{Kind: "container", Name: "mb-top"}}}
		m.Imports = []sg.Import{{Mod: "mb", Prefix: "mb"}}
	}
	var tds []*sg.Typedef
	ref := func(name string) string {
		if c.OwnPfx && vt.Builtin(name, 1) == nil && name != "enumeration" && name != "union" {
			return "m0:" + name
		}
		return name
	}
	prev := c.Base
	if fb := fixedBases[c.Base]; fb != nil {
		// the base type statement itself is written once, in a bottom typedef without default
		fb = sg.Clone(fb)
		if c.Base == "union-shared" {
			tds = append(tds, &sg.Typedef{Name: "pct", Type: &sg.TypeSpec{Name: "uint8", Range: "0..100"}},
				&sg.Typedef{Name: "pct2", Type: &sg.TypeSpec{Name: ref("pct"), Range: "40..60"}})
			for _, mb := range fb.Members {
				mb.Name = ref(mb.Name)
			}
		}
		tds = append(tds, &sg.Typedef{Name: "b0", Type: fb})
		prev = "b0"
	}
	for i, l := range c.Chain {
		name := fmt.Sprintf("t%d", i)
		switch {
		case mb != nil && i < c.Split:
			// in mb, one name further up
			name = fmt.Sprintf("t%d", i+1)
			mb.Typedefs = append(mb.Typedefs, &sg.Typedef{Name: name, Type: typeSpec(prev, l, c.FD, prev == "decimal64"), Default: l.Default})
		case mb != nil && i == c.Split:
			tds = append(tds, &sg.Typedef{Name: name, Type: typeSpec("mb:"+prev, l, c.FD, false), Default: l.Default})
		default:
			tds = append(tds, &sg.Typedef{Name: name, Type: typeSpec(ref(prev), l, c.FD, prev == "decimal64"), Default: l.Default})
		}
		prev = name
	}
	top := &sg.Node{Kind: "container", Name: "m0-top"}
	for i, l := range c.Leaves {
		top.Kids = append(top.Kids, &sg.Node{Kind: "leaf", Name: fmt.Sprintf("leaf%d", i), Type: typeSpec(ref(prev), l, c.FD, prev == "decimal64"), Default: l.Default})
	}
	// where the typedefs are written: an inner definition may refer to an outer (module-level) one, not the other way
	switch c.Scope {
	case 1:
		top.Typedefs = tds
	case 2:
		h := len(tds) / 2
		m.Typedefs, top.Typedefs = tds[:h], tds[h:]
	default:
		m.Typedefs = tds
	}
	m.Nodes = []*sg.Node{top}
	if mb != nil {
		return []*sg.Mod{mb, m}
	}
	return []*sg.Mod{m}
}

func checkCase(c Case) fw.Outcome {
	out := fw.Outcome{}
	ms := build(c)
	src := ""
	for _, x := range ms {
		src += x.Text()
	}
	out.Key = src
	out.Labels = append(out.Labels, "base:"+c.Base, fmt.Sprintf("depth:%d", len(c.Chain)))
	// reference: spaces per level and expected verdict
	sp := baseSpace(c)
	var refuse error
	var inherited *string
	nrestr := 0
	for i, l := range c.Chain {
		if refuse != nil {
			break
		}
		var err error
		sp, err = applyLevel(sp, l, c.Base, c.FD, i > 0)
		if err != nil {
			refuse = err
			break
		}
		if l.Range != "" || l.Length != "" || len(l.Patterns) > 0 {
			nrestr++
		}
		if l.Default != nil {
			inherited = l.Default
		}
		// RFC 6020 7.3.4: a derived type whose restrictions invalidate the inherited default must give a new one
		if inherited != nil && !sp.Contains(*inherited) {
			refuse = fmt.Errorf("default %q (own or inherited) is not in the typedef's value space", *inherited)
		}
	}
	type leafModel struct {
		sp  *vt.Space
		def *string
	}
	var leaves []leafModel
	if refuse == nil {
		for _, l := range c.Leaves {
			lsp, err := applyLevel(sp, l, c.Base, c.FD, len(c.Chain) > 0)
			if err != nil {
				refuse = err
				break
			}
			def := inherited
			if l.Default != nil {
				def = l.Default
			}
			if def != nil && !lsp.Contains(*def) {
				refuse = fmt.Errorf("default %q is not in the final value space of the leaf", *def)
				break
			}
			leaves = append(leaves, leafModel{lsp, def})
		}
	}
	out.NonTrivial = len(c.Chain) >= 2 && nrestr >= 2
	res := sgc.Compile(ms, sgc.Opts{Features: sgc.AllFeatures{}})
	if res.Hang || res.Panic != "" || (res.ParseErr && refuse == nil) {
		out.Violation = fmt.Sprintf("%s\n%s", res.Describe(), src)
		return out
	}
	if refuse != nil {
		out.Labels = append(out.Labels, "expect:refused")
		if os.Getenv("VERIF_DEBUG") != "" {
			r := refuse.Error()
			if i := strings.Index(r, "\""); i > 0 {
				r = r[:i]
			}
			out.Labels = append(out.Labels, "why:"+r)
		}
		if res.OK() {
			out.Violation = fmt.Sprintf("the chain must be refused (%v) but compiles\n%s", refuse, src)
		}
		return out
	}
	out.Labels = append(out.Labels, "expect:compiles")
	if !res.OK() {
		out.Violation = fmt.Sprintf("a valid chain is refused: %s\n%s", res.Describe(), src)
		return out
	}
	top := res.MS.Child("m0-top")
	for i, lm := range leaves {
		ln := top.Child(fmt.Sprintf("leaf%d", i))
		if ln == nil {
			out.Violation = fmt.Sprintf("leaf%d missing\n%s", i, src)
			return out
		}
		typ := ln.Type()
		// default
		gd, gok := typ.Default()
		if (lm.def != nil) != gok || (gok && gd != *lm.def) {
			want := "<none>"
			if lm.def != nil {
				want = *lm.def
			}
			out.Violation = fmt.Sprintf("leaf%d: Type().Default() = (%q,%v), nearest default is %s\n%s", i, gd, gok, want, src)
			return out
		}
		// probes: every bound of every part +- one unit, plus random ones
		probes := append([]string(nil), c.Probes...)
		one := big.NewInt(1)
		if fixedBases[c.Base] != nil {
			probes = append(probes, "true", "false", "one", "three", "auto", "0", "100", "101", "")
		} else if c.Base == "string" {
			for _, iv := range lm.sp.Lengths {
				for _, n := range []*big.Int{new(big.Int).Sub(iv.Lo, one), iv.Lo, iv.Hi, new(big.Int).Add(iv.Hi, one)} {
					if n.Sign() >= 0 && n.Cmp(big.NewInt(40)) < 0 {
						probes = append(probes, strings.Repeat("a", int(n.Int64())), strings.Repeat("z", int(n.Int64())), strings.Repeat("é", int(n.Int64())), "ab"+strings.Repeat("c", max(0, int(n.Int64())-2)))
					}
				}
			}
			probes = append(probes, "a", "b", "ab", "abab", "cd", "az", "abz", "x", "a1", "")
		} else {
			for _, iv := range lm.sp.Ranges {
				for _, n := range []*big.Int{new(big.Int).Sub(iv.Lo, one), iv.Lo, new(big.Int).Add(iv.Lo, one), new(big.Int).Sub(iv.Hi, one), iv.Hi, new(big.Int).Add(iv.Hi, one)} {
					probes = append(probes, fmtScaled(n, c.FD))
				}
			}
		}
		for _, p := range probes {
			want := lm.sp.Contains(p)
			if c.Base == "decimal64" && len(strings.TrimLeft(strings.ReplaceAll(p, ".", ""), "-0")) > 15 {
				continue // exactness beyond 2^53 scaled units is C16's business
			}
			err := typ.Validate(nil, []string{"m0-top", fmt.Sprintf("leaf%d", i)}, p)
			if (err == nil) != want {
				out.Violation = fmt.Sprintf("leaf%d: value %q: in the value space of the chain = %v, Validate says %v\nspace: ranges %v lengths %v\n%s", i, p, want, err, lm.sp.Ranges, lm.sp.Lengths, src)
				return out
			}
		}
	}
	return out
}

var _ schema.Type

var chain = fw.Register(&fw.Prop[Case]{
	ID: "C13", Name: "chain",
	Rule: "typedef chains of depth 0-4 over int8..int64, uint8..uint64, decimal64 (fraction-digits 1-3 with small values, 9/12/15 with values of up to 15 significant digits), string, and the restriction-less bases boolean / enumeration / union (defaults only), with at each level an optional range (1-n parts, min/max keywords, single values, adjacent parts) or " +
		"length + patterns, drawn as a subset of the level below (usually), as a superset / outside, as descending / overlapping / unordered, or of a kind that does not apply (enum statements on a type derived from an enumeration among them); defaults at any level; " +
		"1-3 leaves sharing the last typedef with different extra restrictions; oracle: exact interval-set model (math/big): compile succeeds iff every restriction is valid and narrows its base and the " +
		"nearest default is in the final space; then Type().Validate on every bound +- one unit and random probes agrees with membership, and Type().Default() is the nearest default; " +
		"non-trivial = chain depth >= 2 with >= 2 restrictions",
	Gen: genCase, Check: checkCase,
	MinLabel: []string{"expect:refused", "expect:compiles", "base:string", "base:decimal64"},
})

func TestMain(m *testing.M) { fw.Main(m) }

func TestChain(t *testing.T) { fw.Run(t, chain) }
