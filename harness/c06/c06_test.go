// Package c06: compiled machines are immutable and safe under concurrency.
package c06

import (
	"context"
	"fmt"
	"runtime"
	"strings"
	"sync"
	"sync/atomic"
	"testing"

	"verifharness/c01"
	"verifharness/c02"
	"verifharness/c03"
	"verifharness/fw"
	"verifharness/tree"

	"github.com/sdcio/yang-parser/xpath"
	"github.com/sdcio/yang-parser/xpath/grammars/expr"
	"pgregory.net/rapid"
)

type Item struct {
	Src string  `json:"src"`
	Ctx tree.ID `json:"ctx"`
	Var int     `json:"var,omitempty"` // data variant: the same shape of tree with other values and other leafref targets
}

const nVariants = 3

type Op struct {
	Kind string `json:"kind"` // compile | run | run3
	Item int    `json:"item"`
	Alt  int    `json:"alt"` // second item for run3 (alternating contexts)
}

type Case struct {
	Pool      []Item `json:"pool"`
	Schedule  [][]Op `json:"schedule"`
	ColdStart bool   `json:"cold_start"`
	Reps      int    `json:"reps"`
}

var broken = []string{"a +", "nosuch(1)", "a[", "1 div", "'x", "concat('a')", "@a", "a//b"}

func genItem(t *rapid.T) Item {
	switch rapid.IntRange(0, 9).Draw(t, "itemkind") {
	case 0, 1:
		return Item{Src: c01.Source(c01.Gen(t)), Ctx: tree.ID{{Name: "ctx"}}}
	case 2, 3:
		c := c02.Gen(t)
		return Item{Src: c02.Source(c), Ctx: c.Ctx}
	case 4:
		return Item{Src: c03.Source(c03.Gen(t)), Ctx: tree.ID{{Name: "top"}, {Name: "ctx"}}}
	case 9:
		// re-match with patterns the regexp package accepts and ones it refuses (XSD-only constructs, malformed):
		// what one evaluation compiles must not show in another
		pats := []string{"val.*", "x+", ".*ctx.*", "[a-z:/]+", "\\p{IsBasicLatin}+", "[a-", "\\i\\c*", "(", "val:.*\\", "*"}
		pat := pats[rapid.IntRange(0, len(pats)-1).Draw(t, "repat")]
		if rapid.Bool().Draw(t, "freshpat") {
			// a pattern this process has not met before (as patterns taken from the data are): whatever the evaluation keeps
			// about patterns is written while other runs read it
			pat = fmt.Sprintf("(%s|n%d)", []string{"val.*", ".*ctx.*", "[a-z:/]+"}[rapid.IntRange(0, 2).Draw(t, "freshbase")], rapid.IntRange(0, 1<<30).Draw(t, "freshnum"))
		}
		return Item{Src: fmt.Sprintf("re-match(%s, '%s')", []string{"a", "../b", "string(current()/a)", "'val:/x'"}[rapid.IntRange(0, 3).Draw(t, "rearg")], pat),
			Ctx: tree.ID{{Name: []string{"ctx", "x", "q"}[rapid.IntRange(0, 2).Draw(t, "rectx")]}}}
	case 7, 8:
		// a custom function that fails (default value) at "boom" contexts and succeeds elsewhere
		srcs := []string{"verif-echo(a)", "concat(verif-echo(a), '|', verif-echo(../b))", "verif-echo(a) = 'verif-default'", "string-length(verif-echo(current()/a))"}
		ctx := []tree.ID{{{Name: "boom"}}, {{Name: "calm"}}, {{Name: "top"}, {Name: "boom"}}, {{Name: "top"}, {Name: "calm2"}}}
		return Item{Src: srcs[rapid.IntRange(0, len(srcs)-1).Draw(t, "echosrc")], Ctx: ctx[rapid.IntRange(0, len(ctx)-1).Draw(t, "echoctx")]}
	case 5:
		return Item{Src: broken[rapid.IntRange(0, len(broken)-1).Draw(t, "broken")], Ctx: tree.ID{}}
	default:
		fns := []string{"concat(a, 'x')", "string-length(../b) > 2", "not(contains(a[k='v']/b, 'z'))", "substring(current()/../c, 1, 3)", "translate(a,'ab','ba')", "round(1.5) + floor(a)",
			"../b < 5 or ../b = '007'", "a != 3", "7 > ../c or concat(../c, '!') = 'x'", "deref(a)/../b", "deref(../r)/../c[id = ../x]/w", "deref(current()/ref)/../mtu", "concat(deref(a)/../b, deref(b)/../a)", "/if[name = current()/../n]/mtu"}
		return Item{Src: fns[rapid.IntRange(0, len(fns)-1).Draw(t, "fnexpr")], Ctx: tree.ID{{Name: "l", Keys: map[string]string{"k": "1"}}}}
	}
}

func genCase(t *rapid.T) Case {
	np := rapid.IntRange(4, 12).Draw(t, "poolsize")
	c := Case{ColdStart: rapid.Bool().Draw(t, "cold"), Reps: 3}
	for i := 0; i < np; i++ {
		c.Pool = append(c.Pool, genItem(t))
	}
	ng := rapid.IntRange(2, 16).Draw(t, "goroutines")
	for g := 0; g < ng; g++ {
		n := rapid.IntRange(1, 12).Draw(t, "nops")
		ops := make([]Op, n)
		for i := range ops {
			k := []string{"compile", "run", "run", "run3"}[rapid.IntRange(0, 3).Draw(t, "opkind")]
			ops[i] = Op{Kind: k, Item: rapid.IntRange(0, np-1).Draw(t, "item"), Alt: rapid.IntRange(0, np-1).Draw(t, "alt")}
		}
		c.Schedule = append(c.Schedule, ops)
	}
	return c
}

// storedLists holds the leaf-list values of the data trees, by variant and node.
var storedLists sync.Map

type storedList struct {
	ds       []xpath.Datum
	pristine []string
}

// treeDamage reports a stored leaf-list value that a run has changed.
func treeDamage() string {
	msg := ""
	storedLists.Range(func(k, v any) bool {
		st := v.(*storedList)
		for i, d := range st.ds {
			lit, ok := d.(interface{ Literal(string) string })
			got := ""
			if ok {
				got = lit.Literal("")
			}
			if fmt.Sprintf("%T", d) != fmt.Sprintf("%T", xpath.NewLiteralDatum("")) || (ok && got != st.pristine[i]) {
				msg = fmt.Sprintf("the data tree was written to: value %d of leaf-list %v was %q and is now %T %q", i, k, st.pristine[i], d, got)
				return false
			}
		}
		return true
	})
	if msg == "" {
		msg = keptPaths.Damage()
	}
	return msg
}

// freshNames numbers the expressions made of names that no earlier compilation of the process has seen.
var freshNames atomic.Int64

type freshRun struct {
	it  Item
	got outcome
}

type outcome struct {
	compileErr string
	listing    string
	result     string
}

// keptPaths: the data trees of this process keep their path objects (one per node, shared by every run that comes by the node)
var keptPaths = &tree.PathStore{}

func runMachine(m *xpath.Machine, it Item) string {
	tr := &tree.Tree{NoRecord: true, Paths: keptPaths}
	// every third node is a leaf-list with several values (of different lengths per variant), the others are leaves
	tr.ValueOf = func(id tree.ID) (xpath.Datum, error) {
		s := id.String()
		v := tree.DefaultValue(id)
		if it.Var != 0 {
			v = fmt.Sprintf("v%d:%s", it.Var, s)
		}
		h := 0
		for _, c := range s {
			h = h*31 + int(c)
		}
		if h%3 != 0 {
			return xpath.NewLiteralDatum(v), nil
		}
		// the tree keeps its values: every request for the node gets the same slice, as a tree that stores its data would
		// hand it out; a run has no business writing to it
		key := fmt.Sprintf("%d|%s", it.Var, s)
		if st, ok := storedLists.Load(key); ok {
			return xpath.NewDatumSliceDatum(st.(*storedList).ds), nil
		}
		st := &storedList{}
		for i := 0; i < 2+(h/3+it.Var)%3; i++ {
			val := v + strings.Repeat("+", i*(it.Var+1))
			if h%2 == 0 {
				val = []string{"007", "1.50", "blue", "42", "-0"}[(h/6+i)%5] // numbers not in their canonical form, and a word
			}
			st.ds = append(st.ds, xpath.NewLiteralDatum(val))
			st.pristine = append(st.pristine, val)
		}
		act, _ := storedLists.LoadOrStore(key, st)
		return xpath.NewDatumSliceDatum(act.(*storedList).ds), nil
	}
	if it.Var != 0 {
		// an independent data tree of the same shape: what a node holds and where a leafref points differ
		tr.LeafRefOf = func(id tree.ID) tree.ID {
			return tree.ID{{Name: "lr"}, {Name: "target", Keys: map[string]string{"from": id.String(), "variant": fmt.Sprint(it.Var)}}}
		}
	}
	// (argument validation is one more option of a context; such contexts run side by side like any others)
	res := xpath.NewCtxFromCurrent(context.Background(), m, tr.At(it.Ctx)).SetDebug(len(it.Src)%4 == 0).SetValidation(len(it.Src)%3 == 0).Run()
	if err := res.GetError(); err != nil {
		return "error: " + err.Error()
	}
	return res.PrintResult()
}

func isolated(it Item) (outcome, *xpath.Machine) {
	m, err := expr.NewExprMachineWithCustomFunctions(it.Src, nil)
	if err != nil {
		return outcome{compileErr: err.Error()}, nil
	}
	return outcome{listing: m.PrintMachine(), result: runMachine(m, it)}, m
}

func checkCase(c Case) fw.Outcome {
	out := fw.Outcome{}
	// classification
	runners := map[int]int{}
	compilers := 0
	for _, ops := range c.Schedule {
		seen := map[int]bool{}
		comp := false
		for _, op := range ops {
			if op.Kind == "compile" {
				comp = true
			} else if !seen[op.Item] {
				seen[op.Item] = true
				runners[op.Item]++
			}
		}
		if comp {
			compilers++
		}
	}
	shared := false
	for _, n := range runners {
		if n >= 2 {
			shared = true
		}
	}
	out.NonTrivial = shared && compilers >= 1 && len(c.Schedule) >= 3
	out.Labels = append(out.Labels, fmt.Sprintf("goroutines:%d", min(len(c.Schedule), 16)/4*4))
	if c.ColdStart {
		out.Labels = append(out.Labels, "cold-start")
	}

	reps := c.Reps
	if reps < 1 {
		reps = 1
	}
	for rep := 0; rep < reps; rep++ {
		// isolated oracle: each expression compiled and run alone
		want := make([]outcome, len(c.Pool))
		wantVar := make([][nVariants]string, len(c.Pool)) // the result on each data variant
		for i, it := range c.Pool {
			want[i], _ = isolated(it)
			for v := 0; v < nVariants; v++ {
				it.Var = v
				o, _ := isolated(it)
				wantVar[i][v] = o.result
			}
		}
		if c.ColdStart {
			xpath.VerifResetPluginState()
		}
		// shared machines (compiled concurrently in the cold-start scenario)
		machines := make([]*xpath.Machine, len(c.Pool))
		if c.ColdStart {
			var wg sync.WaitGroup
			for i := range c.Pool {
				wg.Add(1)
				go func(i int) {
					defer wg.Done()
					machines[i], _ = expr.NewExprMachineWithCustomFunctions(c.Pool[i].Src, nil)
				}(i)
			}
			wg.Wait()
		} else {
			for i := range c.Pool {
				machines[i], _ = expr.NewExprMachineWithCustomFunctions(c.Pool[i].Src, nil)
			}
		}
		var mu sync.Mutex
		var problems []string
		var fresh []freshRun
		report := func(s string) {
			mu.Lock()
			problems = append(problems, s)
			mu.Unlock()
		}
		var wg sync.WaitGroup
		start := make(chan struct{})
		for g, ops := range c.Schedule {
			wg.Add(1)
			go func(g int, ops []Op) {
				defer wg.Done()
				defer func() {
					if r := recover(); r != nil {
						report(fmt.Sprintf("goroutine %d panicked: %v", g, r))
					}
				}()
				<-start
				for _, op := range ops {
					it := c.Pool[op.Item]
					// goroutines run the shared machines on different data variants: independent contexts
					vit := it
					vit.Var = (it.Var + g) % nVariants
					switch op.Kind {
					case "compile":
						got, _ := isolated(it)
						if got != want[op.Item] {
							report(fmt.Sprintf("goroutine %d: concurrent compile+run of %q gave %+v, in isolation %+v", g, it.Src, got, want[op.Item]))
						}
						// and an expression no compilation of this process has seen: its names are new to whatever the
						// compiler keeps between compilations.  Its isolated result is computed after the goroutines are done.
						n := freshNames.Add(1)
						fit := Item{Src: fmt.Sprintf("concat(fresh%d, '|', ../fresh%d-b[k%d = 'v']/w%d)", n, n, n, n), Ctx: it.Ctx}
						fgot, _ := isolated(fit)
						// ... and patterns no evaluation of this process has met (as patterns that come from the data are new):
						// whatever an evaluation keeps about patterns is written here while other goroutines read it
						rit := Item{Src: fmt.Sprintf("re-match(a, '(val.*|n%d)') or re-match(../b, 'x%d+')", n, n), Ctx: it.Ctx}
						rgot, _ := isolated(rit)
						mu.Lock()
						fresh = append(fresh, freshRun{fit, fgot}, freshRun{rit, rgot})
						mu.Unlock()
					case "run":
						if m := machines[op.Item]; m != nil {
							if got := runMachine(m, vit); got != wantVar[op.Item][vit.Var] {
								report(fmt.Sprintf("goroutine %d: shared machine %q on data variant %d returned %q, in isolation %q", g, it.Src, vit.Var, got, wantVar[op.Item][vit.Var]))
							}
						} else if want[op.Item].compileErr == "" {
							report(fmt.Sprintf("%q compiled in isolation but not in the shared pool", it.Src))
						}
					case "run3":
						// history: the same machine on alternating contexts t, u, t
						m := machines[op.Item]
						if m == nil {
							continue
						}
						// the other context: another node, or the same node in another data variant
						other := Item{Src: it.Src, Ctx: c.Pool[op.Alt].Ctx, Var: vit.Var}
						if op.Alt%2 == 1 {
							other = Item{Src: it.Src, Ctx: it.Ctx, Var: (vit.Var + 1) % nVariants}
						}
						first := runMachine(m, vit)
						_ = runMachine(m, other)
						third := runMachine(m, vit)
						if w := wantVar[op.Item][vit.Var]; first != w || third != w {
							report(fmt.Sprintf("goroutine %d: history changes result of %q on data variant %d: first %q third %q isolated %q", g, it.Src, vit.Var, first, third, w))
						}
					}
				}
			}(g, ops)
		}
		close(start)
		wg.Wait()
		if msg := treeDamage(); msg != "" {
			report(msg)
		}
		for _, f := range fresh {
			if w, _ := isolated(f.it); w != f.got {
				report(fmt.Sprintf("concurrent compile+run of the new expression %q gave %+v, in isolation %+v", f.it.Src, f.got, w))
			}
		}
		// the shared machines' listings are unchanged after all the runs
		for i, m := range machines {
			if m != nil && m.PrintMachine() != want[i].listing {
				report(fmt.Sprintf("listing of shared machine %q changed", c.Pool[i].Src))
			}
		}
		if len(problems) > 0 {
			out.Violation = strings.Join(problems[:min(len(problems), 5)], "\n")
			return out
		}
	}
	return out
}

var conc = fw.Register(&fw.Prop[Case]{
	ID: "C06", Name: "concurrent",
	Rule: "a pool of 4-12 expressions (C01/C02/C03 generators, function-heavy expressions, some that do not compile), each with an isolated oracle result, " +
		"and a schedule of 2-16 goroutines with generated operation lists (compile+run a pool item; run a shared machine on a fresh context; run a shared machine on alternating contexts t,u,t, u being another node or the same node in a data tree with other values and leafref targets; " +
		"each goroutine works on its own data variant; a third of the nodes are multi-valued leaf-lists; the trees keep one path object per node, with room behind its last element, and hand it to every run that comes by); " +
		"half the cases re-arm the lazy plugin load (verif hook) and compile the shared machines concurrently (cold start); each schedule is executed 3 times; " +
		"oracle: every result equals the isolated result, and the binary is built with -race (any report kills the shard and the journaled schedule becomes the replay); " +
		"non-trivial = at least 2 goroutines run the same shared machine while at least one other goroutine compiles",
	Gen: genCase, Check: checkCase,
	MinLabel: []string{"cold-start"},
})

// verifEcho is a plugin-style custom function: it returns its argument, and panics (so that the registered default
// value is returned) when the argument names a "boom" node.  It yields first, so that concurrent calls overlap.
func verifEcho(args []xpath.Datum) xpath.Datum {
	s := args[0].Literal("verif-echo")
	runtime.Gosched()
	if strings.Contains(s, "boom") {
		panic("verif-echo: no echo for " + s)
	}
	return xpath.NewLiteralDatum("echo:" + s)
}

// ---------------------------------------------------------------- re-registration
//
// A machine keeps the functions it was compiled with: registering another implementation under the same name later
// (what a plugin reload does) concerns the machines compiled afterwards only.

type ReregCase struct {
	Src     string  `json:"src"`
	Ctx     tree.ID `json:"ctx"`
	Runners int     `json:"runners"`
	Rounds  int     `json:"rounds"`
	NewArgs int     `json:"new_args"` // argument count of the second implementation (1 or 2)
	// the signature probe: argument type of the first and of the second registration (0 literal, 1 number, 2 boolean)
	// and the argument written in the call
	OldType  int `json:"old_type,omitempty"`
	NewType  int `json:"new_type,omitempty"`
	ProbeArg int `json:"probe_arg,omitempty"`
}

var probeSeq int

func swapV1(args []xpath.Datum) xpath.Datum {
	return xpath.NewLiteralDatum("v1:" + args[0].Literal("verif-swap"))
}
func swapV2(args []xpath.Datum) xpath.Datum {
	return xpath.NewLiteralDatum("v2:" + args[0].Literal("verif-swap"))
}

func registerSwap(fn xpath.CustomFn, nargs int) {
	ac := []xpath.DatumTypeChecker{xpath.TypeIsLiteral}
	if nargs == 2 {
		ac = append(ac, xpath.TypeIsLiteral)
	}
	xpath.RegisterCustomFunctions([]xpath.CustomFunctionInfo{{Name: "verif-swap", FnPtr: fn, Args: ac, RetType: xpath.TypeIsLiteral, DefaultRetVal: xpath.NewLiteralDatum("swap-default")}})
}

func genRereg(t *rapid.T) ReregCase {
	srcs := []string{"verif-swap(a)", "concat(verif-swap(a), verif-swap(../b))", "string-length(verif-swap(current()/a)) > 3", "verif-swap(concat(a, 'x'))"}
	return ReregCase{Src: srcs[rapid.IntRange(0, len(srcs)-1).Draw(t, "reregsrc")], Ctx: tree.ID{{Name: []string{"ctx", "x", "top"}[rapid.IntRange(0, 2).Draw(t, "reregctx")]}},
		Runners: rapid.IntRange(1, 6).Draw(t, "runners"), Rounds: rapid.IntRange(1, 4).Draw(t, "rounds"), NewArgs: rapid.IntRange(1, 2).Draw(t, "newargs"),
		OldType: rapid.IntRange(0, 2).Draw(t, "oldtype"), NewType: rapid.IntRange(0, 2).Draw(t, "newtype"), ProbeArg: rapid.IntRange(0, 4).Draw(t, "probearg")}
}

func checkRereg(c ReregCase) fw.Outcome {
	out := fw.Outcome{NonTrivial: c.Runners >= 2, Labels: []string{fmt.Sprintf("new-args:%d", c.NewArgs)}}
	registerSwap(swapV1, 1)
	defer registerSwap(swapV1, 1)
	it := Item{Src: c.Src, Ctx: c.Ctx}
	m, err := expr.NewExprMachineWithCustomFunctions(c.Src, nil)
	if err != nil {
		out.Violation = fmt.Sprintf("%q does not compile: %v", c.Src, err)
		return out
	}
	want := runMachine(m, it)
	listing := m.PrintMachine()
	var mu sync.Mutex
	var problems []string
	var wg sync.WaitGroup
	stop := make(chan struct{})
	for g := 0; g < c.Runners; g++ {
		wg.Add(1)
		go func(g int) {
			defer wg.Done()
			defer func() {
				if r := recover(); r != nil {
					mu.Lock()
					problems = append(problems, fmt.Sprintf("runner %d panicked: %v", g, r))
					mu.Unlock()
				}
			}()
			for {
				select {
				case <-stop:
					return
				default:
				}
				if got := runMachine(m, it); got != want {
					mu.Lock()
					problems = append(problems, fmt.Sprintf("machine %q compiled with the first implementation returned %q after/while another was registered, before %q", c.Src, got, want))
					mu.Unlock()
					return
				}
				runtime.Gosched()
			}
		}(g)
	}
	// ... and one goroutine compiles expressions that call built-in functions all the while: looking a function up and
	// registering one go through the same table
	wg.Add(1)
	go func() {
		defer wg.Done()
		for {
			select {
			case <-stop:
				return
			default:
			}
			if _, err := expr.NewExprMachineWithCustomFunctions("contains('abc', 'b') and starts-with(a, 'x')", nil); err != nil {
				mu.Lock()
				problems = append(problems, fmt.Sprintf("an expression of built-in functions stopped compiling during a registration: %v", err))
				mu.Unlock()
				return
			}
			runtime.Gosched()
		}
	}()
	for r := 0; r < c.Rounds; r++ {
		registerSwap(swapV2, c.NewArgs)
		runtime.Gosched()
		if got := runMachine(m, it); got != want {
			mu.Lock()
			problems = append(problems, fmt.Sprintf("machine %q returned %q after the function was registered again, before %q", c.Src, got, want))
			mu.Unlock()
		}
		registerSwap(swapV1, 1)
	}
	close(stop)
	wg.Wait()
	// A machine compiled after a re-registration follows the signature registered then, whatever machines compiled
	// against the earlier signature did before: the same steps under a name with no history give the same result.
	sigProbe := func(name string, withHistory bool) string {
		reg := func(t xpath.DatumTypeChecker) {
			xpath.RegisterCustomFunctions([]xpath.CustomFunctionInfo{{Name: name, FnPtr: func(args []xpath.Datum) xpath.Datum {
				return xpath.NewLiteralDatum(fmt.Sprintf("%T:%s", args[0], args[0].Literal(name)))
			}, Args: []xpath.DatumTypeChecker{t}, RetType: xpath.TypeIsLiteral, DefaultRetVal: xpath.NewLiteralDatum("probe-default")}})
		}
		types := []xpath.DatumTypeChecker{xpath.TypeIsLiteral, xpath.TypeIsNumber, xpath.TypeIsBool}
		arg := []string{"12", "'x'", "1 div 4", "a", "true()"}[c.ProbeArg%5]
		if withHistory {
			reg(types[c.OldType%3])
			if old, err := expr.NewExprMachineWithCustomFunctions(name+"("+arg+")", nil); err == nil {
				runMachine(old, it)
			}
		}
		reg(types[c.NewType%3])
		m2, err := expr.NewExprMachineWithCustomFunctions(name+"("+arg+")", nil)
		if err != nil {
			return "compile error: " + strings.ReplaceAll(err.Error(), name, "F")
		}
		return strings.ReplaceAll(runMachine(m2, it), name, "F")
	}
	probeSeq++
	if a, b := sigProbe(fmt.Sprintf("verif-probe-h%d", probeSeq), true), sigProbe(fmt.Sprintf("verif-probe-c%d", probeSeq), false); a != b {
		problems = append(problems, fmt.Sprintf("a machine compiled after the function was registered again (argument type %d after %d, argument %d) returns %q; under a name without history the same machine returns %q", c.NewType%3, c.OldType%3, c.ProbeArg%5, a, b))
	}
	if m.PrintMachine() != listing {
		problems = append(problems, "the listing of the machine changed")
	}
	if len(problems) > 0 {
		out.Violation = strings.Join(problems[:min(len(problems), 3)], "\n")
	}
	return out
}

var rereg = fw.Register(&fw.Prop[ReregCase]{
	ID: "C06", Name: "reregister",
	Rule: "a machine that calls a custom function is compiled, then 1-6 goroutines run it in a loop while the same function name is registered 1-4 times with another implementation (with the same or another " +
		"number of arguments) and back; then a second function is registered with one argument type, a machine calling it is run, it is registered again with another argument type and a new machine compiled; " +
		"oracle: every run of the first machine returns what it returned before the first re-registration, its listing is unchanged, the new machine returns what the same machine returns under a function name without history, the binary is built with -race; " +
		"non-trivial = at least two runners",
	Gen: genRereg, Check: checkRereg, Weight: 0.3,
})

func TestReregister(t *testing.T) { fw.Run(t, rereg) }

// ---------------------------------------------------------------- functions that read the world
//
// A custom function is Go code: it may read what lies outside the expression (a clock, a device, a table).  A machine
// keeps nothing from one run to the next, so a run made after the world has changed returns what a machine compiled
// at that moment would return.

type EnvCase struct {
	Src     int    `json:"src"`
	States  []int  `json:"states"`
	Runners int    `json:"runners"`
	Ctx     string `json:"ctx"`
}

var envState atomic.Int64

var envSrcs = []string{"verif-env()", "concat('s=', verif-env())", "verif-env() = 'env:2'", "string-length(verif-env()) + 1", "verif-env-num() + 1", "verif-env-num() > 2 or verif-env() = 'env:0'",
	"not(verif-env-num() mod 2 = 1)", "concat(verif-env(), a)", "verif-env-num() * 2 < ../b or contains(a, verif-env())", "translate(verif-env(), 'env', 'ENV')", "-verif-env-num()",
	"concat(verif-env(), verif-env-num())", "(verif-env() = 'env:1') = (verif-env-num() = 1)", "substring(verif-env(), 5, 1) + 0"}

func genEnv(t *rapid.T) EnvCase {
	return EnvCase{Src: rapid.IntRange(0, len(envSrcs)-1).Draw(t, "envsrc"), States: rapid.SliceOfN(rapid.IntRange(0, 4), 2, 5).Draw(t, "states"),
		Runners: rapid.IntRange(1, 4).Draw(t, "envrunners"), Ctx: []string{"ctx", "x", "top"}[rapid.IntRange(0, 2).Draw(t, "envctx")]}
}

func checkEnv(c EnvCase) fw.Outcome {
	src := envSrcs[c.Src%len(envSrcs)]
	out := fw.Outcome{Key: fmt.Sprint(src, c.States, c.Runners, c.Ctx)}
	changes := 0
	for i := 1; i < len(c.States); i++ {
		if c.States[i] != c.States[i-1] {
			changes++
		}
	}
	out.NonTrivial = changes >= 1
	it := Item{Src: src, Ctx: tree.ID{{Name: c.Ctx}}}
	envState.Store(int64(c.States[0]))
	m, err := expr.NewExprMachineWithCustomFunctions(src, nil)
	if err != nil {
		out.Violation = fmt.Sprintf("%q does not compile: %v", src, err)
		return out
	}
	listing := m.PrintMachine()
	for round, st := range c.States {
		envState.Store(int64(st))
		// what the expression is worth in this state: the same expression with the calls written out as constants
		konst := strings.ReplaceAll(strings.ReplaceAll(src, "verif-env-num()", fmt.Sprint(st)), "verif-env()", fmt.Sprintf("'env:%d'", st))
		km, err := expr.NewExprMachineWithCustomFunctions(konst, nil)
		if err != nil {
			out.Violation = fmt.Sprintf("%q does not compile: %v", konst, err)
			return out
		}
		want := runMachine(km, Item{Src: src, Ctx: it.Ctx}) // (same context options as the machine under test: they follow the length of Src)
		var mu sync.Mutex
		var problems []string
		var wg sync.WaitGroup
		for g := 0; g < c.Runners; g++ {
			wg.Add(1)
			go func() {
				defer wg.Done()
				for rep := 0; rep < 2; rep++ {
					if got := runMachine(m, it); got != want {
						mu.Lock()
						problems = append(problems, fmt.Sprintf("machine %q, run %d after the state its function reads became %d (states so far %v): returned %q, the expression is worth %q now", src, rep+1, st, c.States[:round+1], got, want))
						mu.Unlock()
					}
				}
			}()
		}
		wg.Wait()
		if len(problems) > 0 {
			out.Violation = problems[0]
			return out
		}
	}
	if m.PrintMachine() != listing {
		out.Violation = "the listing of the machine changed"
	}
	return out
}

var envProp = fw.Register(&fw.Prop[EnvCase]{
	ID: "C06", Name: "environment",
	Rule: "a machine that calls custom functions which read a value outside the expression (with and without paths next to them) is compiled once; the value is changed 1-4 times and after every change 1-4 goroutines " +
		"run the machine twice each; oracle: every run returns what the expression with the calls written out as constants returns at that moment (nothing is kept from one run to the next); non-trivial = the value changes at least once",
	Gen: genEnv, Check: checkEnv, Weight: 0.3,
})

func TestEnvironment(t *testing.T) { fw.Run(t, envProp) }

func TestMain(m *testing.M) {
	xpath.RegisterCustomFunctions([]xpath.CustomFunctionInfo{{
		Name: "verif-echo", FnPtr: verifEcho, Args: []xpath.DatumTypeChecker{xpath.TypeIsLiteral},
		RetType: xpath.TypeIsLiteral, DefaultRetVal: xpath.NewLiteralDatum("verif-default"),
	}})
	xpath.RegisterCustomFunctions([]xpath.CustomFunctionInfo{
		{Name: "verif-env", FnPtr: func(args []xpath.Datum) xpath.Datum { return xpath.NewLiteralDatum(fmt.Sprintf("env:%d", envState.Load())) },
			Args: []xpath.DatumTypeChecker{}, RetType: xpath.TypeIsLiteral, DefaultRetVal: xpath.NewLiteralDatum("env-default")},
		{Name: "verif-env-num", FnPtr: func(args []xpath.Datum) xpath.Datum { return xpath.NewNumDatum(float64(envState.Load())) },
			Args: []xpath.DatumTypeChecker{}, RetType: xpath.TypeIsNumber, DefaultRetVal: xpath.NewNumDatum(-1)},
	})
	fw.Main(m)
}

func TestConcurrent(t *testing.T) { fw.Run(t, conc) }
