// Package canon produces a deterministic textual dump of a compiled
// schema.ModelSet through its exported API only.  Children held in Go maps are
// dumped sorted by name; things held in slices (choices, enums, patterns,
// uniques, identities) are dumped in stored order unless an option says
// otherwise.
package canon

import (
	"fmt"
	"sort"
	"strings"

	"github.com/sdcio/yang-parser/schema"
)

// Opts selects what is dumped.
type Opts struct {
	MaskRunAsParent   bool // do not print WhenContext.RunAsParent
	MaskModuleOf      func(path string) bool
	NoModelAttrs      bool // skip per-module identifier/namespace/features/deviations
	ChoiceNS          bool // also print namespace and module of choices and cases
	NoDeviations      bool // skip Model.Deviations()
	NoFeatures        bool
	SortIdentities    bool // identities of an identityref as a set
	NoDescriptions    bool
	NoModuleNamespace bool // do not print module / namespace / submodule of nodes
	MaskXPathNS       bool // do not print the default namespace recorded with when / must expressions
	ListsAsReported   bool // the features and deviations of a module in the order the schema reports them (not sorted): for run-to-run comparisons
	XPathListing      bool // print the compiled machine of every when / must (namespace of every name test), unless the node's namespace is masked
	// Prune, when set, skips a node (and its subtree) for which it returns false.
	Prune func(n schema.Node) bool
}

type dumper struct {
	b       strings.Builder
	o       Opts
	listing bool // the leafref machines of the node being dumped are listed
}

func (d *dumper) line(depth int, format string, args ...any) {
	d.b.WriteString(strings.Repeat("  ", depth))
	fmt.Fprintf(&d.b, format, args...)
	d.b.WriteByte('\n')
}

func statusString(s schema.Status) string { return s.String() }

// TypeString dumps a type.
func TypeString(t schema.Type, o Opts) string {
	d := &dumper{o: o}
	d.typ(0, t)
	return d.b.String()
}

func (d *dumper) typ(depth int, t schema.Type) {
	if t == nil {
		d.line(depth, "type <nil>")
		return
	}
	def, hasDef := t.Default()
	head := fmt.Sprintf("name=%s|%s default=%q,%v", t.Name().Space, t.Name().Local, def, hasDef)
	switch v := t.(type) {
	case schema.Decimal64:
		var rs []string
		for _, r := range v.Rbs() {
			rs = append(rs, fmt.Sprintf("%v..%v", r.Start, r.End))
		}
		d.line(depth, "type decimal64 %s fd=%d ranges=%v msg=%q apptag=%q", head, int(v.Fd()), rs, v.Msg(), v.AppTag())
	case schema.Integer:
		var rs []string
		for _, r := range v.Rbs() {
			rs = append(rs, fmt.Sprintf("%d..%d", r.Start, r.End))
		}
		d.line(depth, "type int%d %s ranges=%v msg=%q apptag=%q", int(v.BitWidth()), head, rs, v.Msg(), v.AppTag())
	case schema.Uinteger:
		var rs []string
		for _, r := range v.Rbs() {
			rs = append(rs, fmt.Sprintf("%d..%d", r.Start, r.End))
		}
		d.line(depth, "type uint%d %s ranges=%v msg=%q apptag=%q", int(v.BitWidth()), head, rs, v.Msg(), v.AppTag())
	case schema.String:
		var ls []string
		lmsg, ltag := "", ""
		if l := v.Len(); l != nil {
			for _, lb := range l.Lbs {
				ls = append(ls, fmt.Sprintf("%d..%d", lb.Start, lb.End))
			}
			lmsg, ltag = l.Msg, l.AppTag
		}
		var ps []string
		for _, group := range v.Pats() {
			var g []string
			for _, p := range group {
				g = append(g, fmt.Sprintf("%q msg=%q tag=%q", p.Pattern, p.Msg, p.AppTag))
			}
			ps = append(ps, "["+strings.Join(g, " ; ")+"]")
		}
		d.line(depth, "type string %s length=%v lmsg=%q ltag=%q patterns=%v", head, ls, lmsg, ltag, ps)
	case schema.Boolean:
		d.line(depth, "type boolean %s", head)
	case schema.Empty:
		d.line(depth, "type empty %s", head)
	case schema.Enumeration:
		var es []string
		for _, e := range v.Enums() {
			es = append(es, fmt.Sprintf("%s=%d(%s)", e.Val, e.Value, statusString(e.Status())))
		}
		d.line(depth, "type enumeration %s enums=%v", head, es)
	case schema.Identityref:
		var is []string
		for _, i := range v.Identities() {
			is = append(is, fmt.Sprintf("%s|%s|%s=%s", i.Module, i.Namespace, i.Val, i.Value))
		}
		if d.o.SortIdentities {
			sort.Strings(is)
		}
		d.line(depth, "type identityref %s identities=%v", head, is)
	case schema.Union:
		d.line(depth, "type union %s", head)
		for _, m := range v.Typs() {
			d.typ(depth+1, m)
		}
	case schema.Leafref:
		expr := ""
		if v.Mach() != nil {
			expr = v.Mach().GetExpr()
		}
		if d.listing && v.Mach() != nil {
			expr += " => " + v.Mach().PrintMachine()
		}
		d.line(depth, "type leafref %s path=%q", head, expr)
	case schema.InstanceId:
		d.line(depth, "type instance-identifier %s require=%v", head, v.Require())
	case schema.Binary:
		d.line(depth, "type binary %s", head)
	case schema.Bits:
		d.line(depth, "type bits %s", head)
	default:
		d.line(depth, "type %T %s", t, head)
	}
}

func kindOf(n schema.Node) string {
	switch n.(type) {
	case schema.Container:
		return "container"
	case schema.List:
		return "list"
	case schema.ListEntry:
		return "list-entry"
	case schema.LeafList:
		return "leaf-list"
	case schema.Leaf:
		return "leaf"
	case schema.LeafValue:
		return "leaf-value"
	case schema.Choice:
		return "choice"
	case schema.Case:
		return "case"
	case schema.OpdCommand, schema.OpdOption, schema.OpdArgument:
		return "opd"
	case schema.Tree:
		return "tree"
	}
	return fmt.Sprintf("%T", n)
}

// hasDefaultPruned recomputes Node.HasDefault() on the tree that remains after pruning.
func hasDefaultPruned(n schema.Node, keep func(schema.Node) bool) bool {
	switch v := n.(type) {
	case schema.Container:
		if v.Presence() {
			return false
		}
		for _, c := range n.Children() {
			if keep(c) && hasDefaultPruned(c, keep) {
				return true
			}
		}
		return false
	}
	return n.HasDefault()
}

// KindOf is exported for pruning oracles.
func KindOf(n schema.Node) string { return kindOf(n) }

func sortedNodes(ns []schema.Node) []schema.Node {
	out := append([]schema.Node(nil), ns...)
	sort.SliceStable(out, func(i, j int) bool { return out[i].Name() < out[j].Name() })
	return out
}

// hiddenByChoice: the names of the data children of n that sit (at any depth of choices and cases) below a choice or
// case which the pruning predicate rejects: they go with it, whatever the predicate says about them.
func (d *dumper) hiddenByChoice(n interface{ Choices() []schema.Node }) map[string]bool {
	if d.o.Prune == nil {
		return nil
	}
	hidden := map[string]bool{}
	var walk func(x schema.Node, h bool)
	walk = func(x schema.Node, h bool) {
		h = h || !d.o.Prune(x)
		for _, c := range x.Children() {
			switch c.(type) {
			case schema.Choice, schema.Case:
				walk(c, h)
			default:
				if h {
					hidden[c.Name()] = true
				}
			}
		}
		for _, c := range x.Choices() {
			switch c.(type) {
			case schema.Choice, schema.Case:
				walk(c, h)
			}
		}
	}
	for _, c := range n.Choices() {
		walk(c, false)
	}
	return hidden
}

func (d *dumper) node(depth int, path string, n schema.Node) {
	if d.o.Prune != nil && !d.o.Prune(n) {
		return
	}
	kind := kindOf(n)
	p := path + "/" + n.Name()
	attrs := []string{fmt.Sprintf("config=%v status=%s presence=%v mandatory=%v ordby=%s", n.Config(), statusString(n.Status()), n.HasPresence(), n.Mandatory(), n.OrdBy())}
	switch n.(type) {
	case schema.Leaf, schema.LeafList, schema.LeafValue:
		// for the other kinds HasDefault() is derived from the default children listed below
		attrs = append(attrs, fmt.Sprintf("hasdefault=%v", n.HasDefault()))
	}
	if !d.o.NoModuleNamespace && !(d.o.MaskModuleOf != nil && d.o.MaskModuleOf(p)) {
		attrs = append(attrs, fmt.Sprintf("ns=%q module=%q submodule=%q", n.Namespace(), n.Module(), n.Submodule()))
	}
	if !d.o.NoDescriptions {
		attrs = append(attrs, fmt.Sprintf("desc=%q", n.Description()))
	}
	switch v := n.(type) {
	case schema.List:
		attrs = append(attrs, fmt.Sprintf("keys=%v uniques=%v min=%d max=%d", v.Keys(), v.Uniques(), v.Limit().Min, v.Limit().Max))
	case schema.LeafList:
		attrs = append(attrs, fmt.Sprintf("min=%d max=%d", v.Limit().Min, v.Limit().Max))
	case schema.Leaf:
		def, ok := v.Default()
		attrs = append(attrs, fmt.Sprintf("default=%q,%v", def, ok))
	case schema.Choice:
		attrs = append(attrs, fmt.Sprintf("defaultcase=%q", v.DefaultCase()))
	}
	var dn []string
	_, isLeaf := n.(schema.Leaf)
	_, isLeafList := n.(schema.LeafList)
	_, isCont := n.(schema.Container)
	_, isEntry := n.(schema.ListEntry)
	_, isTree := n.(schema.Tree)
	if d.o.Prune != nil && !isLeaf && !isLeafList && (isCont || isEntry || isTree) {
		// the children that still have a default after pruning
		hid := d.hiddenByChoice(n)
		for _, dc := range n.Children() {
			if !hid[dc.Name()] && d.o.Prune(dc) && hasDefaultPruned(dc, d.o.Prune) {
				dn = append(dn, dc.Name())
			}
		}
	} else {
		dn = append(dn, n.DefaultChildNames()...)
	}
	sort.Strings(dn)
	attrs = append(attrs, fmt.Sprintf("defchildren=%v", dn))
	d.line(depth, "%s %s %s", kind, p, strings.Join(attrs, " "))
	nsMasked := d.o.NoModuleNamespace || d.o.MaskXPathNS || (d.o.MaskModuleOf != nil && d.o.MaskModuleOf(p))
	for _, w := range n.Whens() {
		expr := ""
		if w.Mach != nil {
			expr = w.Mach.GetExpr()
		}
		ns := w.Namespace
		if nsMasked {
			ns = "(masked)"
		} else if d.o.XPathListing && w.Mach != nil {
			expr += " => " + w.Mach.PrintMachine()
		}
		if d.o.MaskRunAsParent {
			d.line(depth+1, "when %q ns=%q", expr, ns)
		} else {
			d.line(depth+1, "when %q ns=%q runasparent=%v", expr, ns, w.RunAsParent)
		}
	}
	for _, m := range n.Musts() {
		expr := ""
		if m.Mach != nil {
			expr = m.Mach.GetExpr()
		}
		ns := m.Namespace
		if nsMasked {
			ns = "(masked)"
		} else if d.o.XPathListing && m.Mach != nil {
			expr += " => " + m.Mach.PrintMachine()
		}
		d.line(depth+1, "must %q msg=%q apptag=%q ns=%q", expr, m.ErrMsg, m.AppTag, ns)
	}
	switch n.(type) {
	case schema.Leaf, schema.LeafList:
		d.listing = d.o.XPathListing && !nsMasked
		d.typ(depth+1, n.Type())
	}
	switch n.(type) {
	case schema.Leaf, schema.LeafList, schema.LeafValue:
		return
	}
	for _, c := range n.Choices() {
		d.choiceTree(depth+1, p, c)
	}
	hid := d.hiddenByChoice(n)
	for _, c := range sortedNodes(n.Children()) {
		if !hid[c.Name()] {
			d.node(depth+1, p, c)
		}
	}
}

// choiceTree dumps the choice/case structure (names, attributes); the data
// nodes inside are dumped where they appear as children of the enclosing node.
func (d *dumper) choiceTree(depth int, path string, n schema.Node) {
	if d.o.Prune != nil && !d.o.Prune(n) {
		return
	}
	kind := kindOf(n)
	extra := ""
	if c, ok := n.(schema.Choice); ok {
		extra = fmt.Sprintf(" defaultcase=%q", c.DefaultCase())
	}
	if d.o.ChoiceNS {
		extra += fmt.Sprintf(" ns=%q module=%q", n.Namespace(), n.Module())
	}
	d.line(depth, "~%s %s/%s config=%v status=%s mandatory=%v desc=%q%s", kind, path, n.Name(), n.Config(), statusString(n.Status()), n.Mandatory(), n.Description(), extra)
	for _, w := range n.Whens() {
		expr := ""
		if w.Mach != nil {
			expr = w.Mach.GetExpr()
		}
		d.line(depth+1, "when %q ns=%q", expr, w.Namespace)
	}
	var kids []string
	for _, c := range sortedNodes(n.Children()) {
		switch c.(type) {
		case schema.Choice, schema.Case:
			d.choiceTree(depth+1, path+"/"+n.Name(), c)
		default:
			if d.o.Prune != nil && !d.o.Prune(c) {
				continue
			}
			kids = append(kids, c.Name())
		}
	}
	if len(kids) > 0 {
		d.line(depth+1, "members %v", kids)
	}
	for _, c := range n.Choices() {
		switch c.(type) {
		case schema.Choice, schema.Case:
			d.choiceTree(depth+1, path+"/"+n.Name(), c)
		}
	}
}

func (d *dumper) tree(depth int, label string, t schema.Tree) {
	if t == nil {
		d.line(depth, "%s <nil>", label)
		return
	}
	d.line(depth, "%s", label)
	for _, c := range t.Choices() {
		d.choiceTree(depth+1, "", c)
	}
	hid := d.hiddenByChoice(t)
	for _, c := range sortedNodes(t.Children()) {
		if !hid[c.Name()] {
			d.node(depth+1, "", c)
		}
	}
}

// Dump renders the whole model set.
func Dump(ms schema.ModelSet, o Opts) string {
	d := &dumper{o: o}
	mods := ms.Modules()
	names := make([]string, 0, len(mods))
	for k := range mods {
		names = append(names, k)
	}
	sort.Strings(names)
	for _, name := range names {
		m := mods[name]
		if !o.NoModelAttrs {
			feats := append([]string(nil), m.Features()...)
			devs := append([]string(nil), m.Deviations()...)
			if !o.ListsAsReported {
				sort.Strings(feats)
				sort.Strings(devs)
			}
			line := fmt.Sprintf("module key=%s id=%s ns=%s version=%q", name, m.Identifier(), m.Namespace(), m.Version())
			if !o.NoFeatures {
				line += fmt.Sprintf(" features=%v", feats)
			}
			if !o.NoDeviations {
				line += fmt.Sprintf(" deviations=%v", devs)
			}
			d.line(0, "%s", line)
		} else {
			d.line(0, "module %s", name)
		}
		rn := make([]string, 0)
		for k := range m.Rpcs() {
			rn = append(rn, k)
		}
		sort.Strings(rn)
		for _, k := range rn {
			d.tree(1, "rpc "+k+" input", m.Rpcs()[k].Input())
			d.tree(1, "rpc "+k+" output", m.Rpcs()[k].Output())
		}
		nn := make([]string, 0)
		for k := range m.Notifications() {
			nn = append(nn, k)
		}
		sort.Strings(nn)
		for _, k := range nn {
			d.tree(1, "notification "+k, m.Notifications()[k].Schema())
		}
		d.tree(1, "data", m)
	}
	sn := make([]string, 0)
	for k := range ms.Submodules() {
		sn = append(sn, k)
	}
	sort.Strings(sn)
	for _, k := range sn {
		s := ms.Submodules()[k]
		d.line(0, "submodule key=%s id=%s ns=%s", k, s.Identifier(), s.Namespace())
	}
	d.tree(0, "modelset", ms)
	return d.b.String()
}
