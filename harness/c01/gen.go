// Package c01: XPath scalar evaluation follows XPath 1.0 semantics.
package c01

import (
	"strings"

	"verifharness/fw"
	"verifharness/xp"

	"pgregory.net/rapid"
)

// Case is one generated expression with its leaf bindings.
type Case struct {
	Expr   *xp.E                 `json:"expr"`
	Leaves map[string]xp.LeafVal `json:"leaves,omitempty"`
	Full   bool                  `json:"full_parens,omitempty"`
}

// number literal texts by class
var numClasses = map[string][]string{
	"num.small":    {"0", "1", "2", "3", "5", "10", "42", "007", "5.", ".5"},
	"num.frac":     {"0.1", "0.2", "0.3", "4.35", "1.25", "3.14159", "123456789.123456789"},
	"num.halfway":  {"0.5", "1.5", "2.5", "3.5", "0.49999999999999994", "0.50000000000000011"},
	"num.beyond53": {"9007199254740993", "9007199254740992", "12345678901234567890", "18446744073709551615"},
	"num.exp":      {"100000000000000000000000", "0.0000001", "0.000001", "1000000000000000000000", "0.00000000000000000001"},
	"num.digits17": {"1.7976931348623157", "0.30000000000000004", "2.2250738585072014", "123456.78901234567"},
}

var strClasses = map[string][]string{
	"str.empty":    {""},
	"str.blank":    {" ", "  ", "\t", " \t\r\n "},
	"str.plain":    {"abc", "a", "b", "ab", "ba", "abcabc", "a b  c", "  lead", "trail  ", "x-y", "true", "false"},
	"str.numeric":  {"0", "1", "5", "12", "-5", "1.5", "-0", ".5", "5.", " 12 ", "\t7\n", "00", "-.5", "0.0"},
	"str.nonnum":   {"+5", "1e3", "1E3", "0x10", "12abc", "1.2.3", "--1", "- 1", "-", ".", "1_0", "1,5", "NaN", "nan", "inf", "+Inf"},
	"str.infword":  {"Infinity", "-Infinity", " Infinity "},
	"str.unicode":  {"é", "日本語", "\U0001F600x", "áb", "naïve", "ßx", "éé", "x y"},
	"str.uniblank": {"\u00a05\u00a0", "\u20285", "5\u0085", "\v5", "5\f", "\u30005"},
	"str.quote":    {"it's", "say \"hi\"", "'", "\""},
	// XPath has no escapes: a backslash is a character like any other, also before a quote or at the end of a literal
	"str.backslash": {"\\", "a\\nb", "a\\\\b", "dom\\user", "\\t", "it's\\", "it's a\\nb", "c:\\dir\\", "\\\\", "x\\y", "tab\\there", "say \"hi\"\\"},
}

var strClassNames, numClassNames []string

func init() {
	for k := range numClasses {
		numClassNames = append(numClassNames, k)
	}
	for k := range strClasses {
		strClassNames = append(strClassNames, k)
	}
	sortStrings(numClassNames)
	sortStrings(strClassNames)
}

func sortStrings(s []string) {
	for i := 1; i < len(s); i++ {
		for j := i; j > 0 && s[j] < s[j-1]; j-- {
			s[j], s[j-1] = s[j-1], s[j]
		}
	}
}

var leafNames = []string{"l0", "l1", "l2", "l3", "l4", "l5"}

type gen struct {
	t      *rapid.T
	leaves map[string]xp.LeafVal
}

func (g *gen) pick(n int, label string) int { return rapid.IntRange(0, n-1).Draw(g.t, label) }

func (g *gen) strValue() string {
	for {
		if g.pick(5, "strkind") == 0 {
			// random short string over a small alphabet (no quote conflicts)
			return rapid.StringOfN(rapid.SampledFrom([]rune{'a', 'b', 'c', ' ', '1', '2', '.', '-', 'é', '日', '\t'}), 0, 6, -1).Draw(g.t, "rs")
		}
		cn := strClassNames[g.pick(len(strClassNames), "strclass")]
		vs := strClasses[cn]
		return vs[g.pick(len(vs), "strval")]
	}
}

func (g *gen) numLit() *xp.E {
	cn := numClassNames[g.pick(len(numClassNames), "numclass")]
	vs := numClasses[cn]
	return xp.Num(vs[g.pick(len(vs), "numval")])
}

// special numbers are produced by expressions
func (g *gen) special() *xp.E {
	switch g.pick(5, "special") {
	case 0:
		return xp.Call("number", xp.Lit("x")) // NaN
	case 1:
		return xp.Bin("div", xp.Num("1"), xp.Num("0")) // +Infinity
	case 2:
		return xp.Bin("div", xp.Neg(xp.Num("1")), xp.Num("0")) // -Infinity
	case 3:
		return xp.Neg(xp.Num("0")) // -0
	default:
		return xp.Bin("div", xp.Num("0"), xp.Num("0")) // NaN
	}
}

// leaf returns a reference to a leaf of the wanted kind (creating the binding).
func (g *gen) leaf(kind string) *xp.E {
	// reuse an existing leaf of that kind half of the time
	var have []string
	for _, n := range leafNames {
		if lv, ok := g.leaves[n]; ok && lv.Kind == kind {
			have = append(have, n)
		}
	}
	if len(have) > 0 && g.pick(2, "reuse") == 0 {
		return xp.Leaf(have[g.pick(len(have), "which")])
	}
	for _, n := range leafNames {
		if _, ok := g.leaves[n]; !ok {
			lv := xp.LeafVal{Kind: kind}
			switch kind {
			case "lit":
				v := g.strValue()
				if v == "" {
					v = "0"
				}
				lv.Vals = []string{v}
			case "list":
				k := 1 + g.pick(4, "listlen")
				for i := 0; i < k; i++ {
					// (an entry may be the empty string: it is a node like any other - the set is not empty, whatever
					// the string converts to)
					v := g.strValue()
					lv.Vals = append(lv.Vals, v)
				}
			}
			g.leaves[n] = lv
			return xp.Leaf(n)
		}
	}
	if len(have) > 0 {
		return xp.Leaf(have[0])
	}
	// all names taken by other kinds: fall back to a literal
	return xp.Lit("fallback")
}

// anyScalar: an expression of any scalar type (or single-valued/absent leaf).
func (g *gen) anyScalar(d int) *xp.E {
	switch g.pick(5, "anytype") {
	case 0:
		return g.num(d)
	case 1:
		return g.str(d)
	case 2:
		return g.boolean(d)
	case 3:
		return g.leaf("lit")
	default:
		return g.leaf("absent")
	}
}

// arg draws an argument for a position of natural type ty: mostly that type,
// sometimes any other type so every implicit conversion occurs.
func (g *gen) arg(ty byte, d int) *xp.E {
	if ty == 'o' || g.pick(10, "conv") < 3 {
		return g.anyScalar(d)
	}
	switch ty {
	case 'n':
		return g.num(d)
	case 's':
		return g.str(d)
	default:
		return g.boolean(d)
	}
}

func (g *gen) num(d int) *xp.E {
	if d <= 0 {
		if g.pick(4, "numleaf") == 0 {
			return g.special()
		}
		return g.numLit()
	}
	switch g.pick(10, "numform") {
	case 0:
		return g.numLit()
	case 1:
		return g.special()
	case 2, 3, 4:
		ops := []string{"+", "-", "*", "div", "mod"}
		return xp.Bin(ops[g.pick(len(ops), "arith")], g.arg('n', d-1), g.arg('n', d-1))
	case 5:
		return xp.Neg(g.arg('n', d-1))
	case 6:
		fns := []string{"floor", "ceiling", "round"}
		return xp.Call(fns[g.pick(3, "rfn")], g.arg('n', d-1))
	case 7:
		return xp.Call("number", g.arg('o', d-1))
	case 8:
		return xp.Call("string-length", g.arg('s', d-1))
	default:
		switch g.pick(4, "nsfn") {
		case 0:
			return xp.Call("count", g.leaf("absent"))
		case 1:
			return xp.Call("sum", g.leaf("absent"))
		case 2:
			return xp.Call("last")
		default:
			return xp.Call("position")
		}
	}
}

func (g *gen) str(d int) *xp.E {
	if d <= 0 {
		return xp.Lit(g.strValue())
	}
	switch g.pick(10, "strform") {
	case 0, 1:
		return xp.Lit(g.strValue())
	case 2:
		return xp.Call("string", g.arg('o', d-1))
	case 3:
		return xp.Call("concat", g.arg('s', d-1), g.arg('s', d-1))
	case 4, 5:
		return xp.Call("substring", g.arg('s', d-1), g.substrNum(d-1), g.substrNum(d-1))
	case 6:
		if g.pick(2, "related") == 0 {
			a, b := g.relatedPair()
			return xp.Call("substring-before", a, b)
		}
		return xp.Call("substring-before", g.arg('s', d-1), g.arg('s', d-1))
	case 7:
		if g.pick(2, "related") == 0 {
			a, b := g.relatedPair()
			return xp.Call("substring-after", a, b)
		}
		return xp.Call("substring-after", g.arg('s', d-1), g.arg('s', d-1))
	case 8:
		if g.pick(6, "ln") == 0 {
			return xp.Call("local-name", g.leaf("absent"))
		}
		return xp.Call("normalize-space", g.arg('s', d-1))
	default:
		return xp.Call("translate", g.arg('s', d-1), g.arg('s', d-1), g.arg('s', d-1))
	}
}

// relatedPair: a string and a piece of it (so that searching finds something), with multi-byte characters before,
// inside and after the piece
func (g *gen) relatedPair() (*xp.E, *xp.E) {
	hay := []string{"Zürich/Hauptbahnhof", "München: Uplink 1", "日本語-テスト-日本語", "aébécé", "abcabc", "a b c", "x=1;y=2", "日a日a", "é", "\U0001F600:x:\U0001F600", "ßß|ßß"}[g.pick(11, "hay")]
	rs := []rune(hay)
	i := g.pick(len(rs), "from")
	j := i + 1 + g.pick(len(rs)-i, "len")
	needle := string(rs[i:j])
	if g.pick(6, "miss") == 0 {
		needle = "#"
	}
	return xp.Lit(hay), xp.Lit(needle)
}

// substring positions: small numbers, negatives, fractions and specials matter
func (g *gen) substrNum(d int) *xp.E {
	if g.pick(8, "subhuge") == 0 {
		// magnitudes at which adding 1 no longer changes a double, and beyond every string length
		vs := []string{"1000000000000000000", "2000000000000000000", "9007199254740993", "18446744073709551615", "100000000000000000000000", "9223372036854775808", "4294967296", "2147483648"}
		e := xp.Num(vs[g.pick(len(vs), "subhugeval")])
		if g.pick(2, "subhugeneg") == 0 {
			return xp.Neg(e)
		}
		return e
	}
	switch g.pick(6, "subnum") {
	case 0:
		return g.arg('n', d)
	case 1:
		return g.special()
	case 2:
		vs := []string{"1.5", "2.5", "0.5", "2.6", "1.4", "0.49999999999999994"}
		return xp.Num(vs[g.pick(len(vs), "subfrac")])
	case 3:
		vs := []string{"1", "2", "3", "1.7", "5", "42", "0.5", "1.5"}
		return xp.Neg(xp.Num(vs[g.pick(len(vs), "subneg")]))
	default:
		vs := []string{"0", "1", "2", "3", "4", "5", "6", "100"}
		return xp.Num(vs[g.pick(len(vs), "subint")])
	}
}

var cmpOps = []string{"=", "!=", "<", "<=", ">", ">="}

func (g *gen) boolean(d int) *xp.E {
	if d <= 0 {
		if g.pick(2, "tf") == 0 {
			return xp.Call("true")
		}
		return xp.Call("false")
	}
	switch g.pick(10, "boolform") {
	case 0:
		return xp.Call("true")
	case 1:
		return xp.Call("boolean", g.arg('o', d-1))
	case 2:
		return xp.Call("not", g.arg('b', d-1))
	case 3:
		if g.pick(3, "relcsw") == 0 {
			a, b := g.relatedPair()
			return xp.Call([]string{"contains", "starts-with"}[g.pick(2, "cswfn")], a, b)
		}
		if g.pick(2, "csw") == 0 {
			return xp.Call("contains", g.arg('s', d-1), g.arg('s', d-1))
		}
		return xp.Call("starts-with", g.arg('s', d-1), g.arg('s', d-1))
	case 4:
		return xp.Bin("and", g.arg('b', d-1), g.arg('b', d-1))
	case 5:
		return xp.Bin("or", g.arg('b', d-1), g.arg('b', d-1))
	default:
		return g.comparison(d)
	}
}

// cmpOperand: kind 0 num, 1 str, 2 bool, 3 leaf, 4 absent, 5 leaf-list
func (g *gen) cmpOperand(kind, d int) *xp.E {
	switch kind {
	case 0:
		return g.num(d)
	case 1:
		return g.str(d)
	case 2:
		return g.boolean(d)
	case 3:
		return g.leaf("lit")
	case 4:
		return g.leaf("absent")
	default:
		return g.leaf("list")
	}
}

// nearPairs: operands whose values are distinct doubles a few units in the last place apart (or, for the last ones,
// different spellings of one and the same double): comparisons are exact in IEEE-754, there is no tolerance.
var nearPairs = [][2]string{{"0.1 + 0.2", "0.3"}, {"1.1 * 3", "3.3"}, {"4.35 * 100", "435"}, {"1.0000000000000002", "1"}, {"0.30000000000000004", "0.3"},
	{"0.1 * 3", "0.3"}, {"1 div 3 * 3", "1"}, {"0.7 + 0.1", "0.8"}, {"1 - 0.9", "0.1"}, {"100 * 1.1", "110"}, {"0.49999999999999994", "0.5"},
	{"9007199254740993", "9007199254740992"}, {"0.1 + 0.7", "0.7 + 0.1"}, {"1e0", "1"}}

func (g *gen) nearOperand(src string) *xp.E {
	// "a op b" or a single number
	f := strings.Fields(src)
	switch len(f) {
	case 1:
		return xp.Num(f[0])
	case 3:
		return xp.Bin(f[1], xp.Num(f[0]), xp.Num(f[2]))
	default:
		return xp.Bin(f[3], xp.Bin(f[1], xp.Num(f[0]), xp.Num(f[2])), xp.Num(f[4]))
	}
}

func (g *gen) comparison(d int) *xp.E {
	op := cmpOps[g.pick(len(cmpOps), "cmpop")]
	if g.pick(10, "near") == 0 {
		p := nearPairs[g.pick(len(nearPairs), "nearpair")]
		a, b := g.nearOperand(p[0]), g.nearOperand(p[1])
		switch g.pick(4, "nearshape") {
		case 0:
			a, b = b, a
		case 1:
			// one side as a leaf value (a string converted to a number)
			if len(strings.Fields(p[1])) == 1 {
				for _, n := range leafNames {
					if _, ok := g.leaves[n]; !ok {
						g.leaves[n] = xp.LeafVal{Kind: "lit", Vals: []string{p[1]}}
						b = xp.Leaf(n)
						break
					}
				}
			}
		}
		return xp.Bin(op, a, b)
	}
	for {
		lk, rk := g.pick(6, "lkind"), g.pick(6, "rkind")
		// a single leaf or an absent node against a boolean is a stated grey zone (the implementation hands single leaf
		// values over as strings, and the property says "false in every comparison" for absent nodes where XPath says
		// boolean(empty node-set) = false): not generated.  A multi-valued leaf-list is a node-set under every reading
		// and is converted with boolean() (XPath 1.0 section 3.4).
		if (lk == 2 && (rk == 3 || rk == 4)) || (rk == 2 && (lk == 3 || lk == 4)) {
			continue
		}
		return xp.Bin(op, g.cmpOperand(lk, d-1), g.cmpOperand(rk, d-1))
	}
}

func genCase(t *rapid.T) Case {
	g := &gen{t: t, leaves: map[string]xp.LeafVal{}}
	maxd := 4
	if fw.Thorough() {
		maxd = 6
	}
	d := rapid.IntRange(1, maxd).Draw(t, "depth")
	var e *xp.E
	switch g.pick(3, "toptype") {
	case 0:
		e = g.num(d)
	case 1:
		e = g.str(d)
	default:
		e = g.boolean(d)
	}
	return Case{Expr: e, Leaves: g.leaves, Full: rapid.Bool().Draw(t, "full")}
}
