package c01

import (
	"fmt"
	"os"
	"testing"

	"verifharness/fw"
	"verifharness/xp"
)

var scalar = fw.Register(&fw.Prop[Case]{
	ID:   "C01",
	Name: "scalar",
	Rule: "typed expression ASTs over all operators and the function table, leaves from named value classes " +
		"(NaN, +-0, +-Infinity, >2^53, >15 digits, exponent-needing, halfway, empty/blank/non-ASCII/numeric-looking strings), " +
		"operands also bound to data-tree leaves (single-valued, absent, leaf-list); oracle = reference XPath 1.0 evaluator; " +
		"non-trivial = at least 2 operators/calls and at least one implicit conversion or special value class; distinct by rendered expression + bindings",
	Gen:   genCase,
	Check: checkCase,
	MinLabel: []string{"op:or", "op:and", "op:=", "op:!=", "op:<", "op:<=", "op:>", "op:>=", "op:+", "op:-", "op:*", "op:div", "op:mod", "op:neg",
		"fn:boolean", "fn:not", "fn:number", "fn:string", "fn:concat", "fn:contains", "fn:starts-with", "fn:substring",
		"fn:substring-before", "fn:substring-after", "fn:string-length", "fn:normalize-space", "fn:translate", "fn:floor",
		"fn:ceiling", "fn:round", "fn:count", "fn:sum", "fn:local-name", "fn:last", "fn:position", "leaf:lit", "leaf:absent"},
})

func TestMain(m *testing.M) {
	if err := xp.SelfTest(); err != nil {
		fmt.Println("INCONCLUSIVE reference self-test failed:", err)
		os.Exit(2)
	}
	xp.KnownInfinityWord = func() bool { return fw.Known("c01.str2num.infinity-word") }
	fw.Main(m)
}

func TestScalar(t *testing.T) { fw.Run(t, scalar) }
