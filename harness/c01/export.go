package c01

import (
	"verifharness/xp"

	"pgregory.net/rapid"
)

// Gen is the exported generator (used by C05/C06).
func Gen(t *rapid.T) Case { return genCase(t) }

// Source renders the case's expression.
func Source(c Case) string { return xp.Join(xp.Tokens(c.Expr, xp.MinParens), nil) }
