package c01

import (
	"context"
	"fmt"
	"math"
	"strings"

	"verifharness/fw"
	"verifharness/tree"
	"verifharness/xp"

	"github.com/sdcio/yang-parser/xpath"
	"github.com/sdcio/yang-parser/xpath/grammars/expr"
)

func typeOf(e *xp.E) byte {
	switch e.K {
	case "num", "neg":
		return 'n'
	case "lit":
		return 's'
	case "paren":
		return typeOf(e.A[0])
	case "path":
		return 'S'
	case "bin":
		switch e.V {
		case "+", "-", "*", "div", "mod":
			return 'n'
		}
		return 'b'
	case "call":
		if f := xp.FnByName(e.V); f != nil {
			return f.Ret
		}
	}
	return '?'
}

var specialTexts = map[string]string{}

func init() {
	for c, vs := range numClasses {
		if c == "num.small" || c == "num.frac" {
			continue
		}
		for _, v := range vs {
			specialTexts["n:"+v] = c
		}
	}
	for c, vs := range strClasses {
		if c == "str.plain" {
			continue
		}
		for _, v := range vs {
			specialTexts["s:"+v] = c
		}
	}
}

// analyse returns labels, number of operators/calls, and whether an implicit
// conversion or a special value class occurs.
func analyse(c Case) (labels []string, ops int, interesting bool) {
	seen := map[string]bool{}
	add := func(l string) {
		if !seen[l] {
			seen[l] = true
			labels = append(labels, l)
		}
	}
	conv := func(want, have byte) {
		if want == 'o' || want == have {
			return
		}
		interesting = true
		add(fmt.Sprintf("conv:%c->%c", have, want))
	}
	xp.Walk(c.Expr, func(e *xp.E) {
		switch e.K {
		case "num":
			if cl, ok := specialTexts["n:"+e.V]; ok {
				add("class:" + cl)
				interesting = true
			}
		case "lit":
			if cl, ok := specialTexts["s:"+e.V]; ok {
				add("class:" + cl)
				interesting = true
			}
		case "neg":
			ops++
			add("op:neg")
			conv('n', typeOf(e.A[0]))
			if e.A[0].K == "num" && e.A[0].V == "0" {
				add("class:num.negzero")
				interesting = true
			}
		case "bin":
			ops++
			add("op:" + e.V)
			lt, rt := typeOf(e.A[0]), typeOf(e.A[1])
			switch e.V {
			case "+", "-", "*", "div", "mod":
				conv('n', lt)
				conv('n', rt)
				if e.V == "div" && e.A[1].K == "num" && e.A[1].V == "0" {
					add("class:num.special")
					interesting = true
				}
			case "and", "or":
				conv('b', lt)
				conv('b', rt)
			default:
				if lt != rt {
					interesting = true
					add(fmt.Sprintf("cmp:%c,%c", lt, rt))
				}
			}
		case "call":
			ops++
			add("fn:" + e.V)
			if f := xp.FnByName(e.V); f != nil {
				for i, a := range e.A {
					conv(f.Args[i], typeOf(a))
				}
			}
		case "path":
			if lv, ok := c.Leaves[e.P.Steps[0].Name]; ok {
				add("leaf:" + lv.Kind)
				if lv.Kind != "lit" {
					interesting = true
				}
			}
		}
	})
	return
}

func datumOf(lv xp.LeafVal) xpath.Datum {
	switch lv.Kind {
	case "lit":
		return xpath.NewLiteralDatum(lv.Vals[0])
	case "list":
		ds := make([]xpath.Datum, len(lv.Vals))
		for i, v := range lv.Vals {
			ds[i] = xpath.NewLiteralDatum(v)
		}
		return xpath.NewDatumSliceDatum(ds)
	}
	return xpath.NewNodesetDatum(nil)
}

func sameNum(a, b float64) bool {
	if math.IsNaN(a) || math.IsNaN(b) {
		return math.IsNaN(a) && math.IsNaN(b)
	}
	return a == b
}

// compareResult checks the three result accessors against the reference value.
func compareResult(res *xpath.Result, want xp.Val) string {
	if err := res.GetError(); err != nil {
		return fmt.Sprintf("run error on a type-correct scalar expression: %v (reference value %v)", err, want)
	}
	wn, ws, wb := xp.ToNum(want), xp.ToStr(want), xp.ToBool(want)
	gn, err1 := res.GetNumResult()
	gs, err2 := res.GetLiteralResult()
	gb, err3 := res.GetBoolResult()
	if err1 != nil || err2 != nil || err3 != nil {
		return fmt.Sprintf("accessor error: %v %v %v", err1, err2, err3)
	}
	var bad []string
	switch want.T {
	case 'n':
		if !sameNum(gn, wn) {
			bad = append(bad, fmt.Sprintf("number: got %v want %v", gn, wn))
		}
		if gs != ws {
			bad = append(bad, fmt.Sprintf("number as string: got %q want %q", gs, ws))
		}
		if gb != wb {
			bad = append(bad, fmt.Sprintf("number as boolean: got %v want %v", gb, wb))
		}
	case 's':
		if gs != ws {
			bad = append(bad, fmt.Sprintf("string: got %q want %q", gs, ws))
		}
		if !sameNum(gn, wn) {
			bad = append(bad, fmt.Sprintf("string as number: got %v want %v", gn, wn))
		}
		if gb != wb {
			bad = append(bad, fmt.Sprintf("string as boolean: got %v want %v", gb, wb))
		}
	case 'b':
		if gb != wb {
			bad = append(bad, fmt.Sprintf("boolean: got %v want %v", gb, wb))
		}
		if gs != ws {
			bad = append(bad, fmt.Sprintf("boolean as string: got %q want %q", gs, ws))
		}
		if !sameNum(gn, wn) {
			bad = append(bad, fmt.Sprintf("boolean as number: got %v want %v", gn, wn))
		}
	}
	return strings.Join(bad, "; ")
}

func checkCase(c Case) fw.Outcome {
	labels, ops, interesting := analyse(c)
	out := fw.Outcome{Labels: labels, NonTrivial: ops >= 2 && interesting}
	mode := xp.MinParens
	if c.Full {
		mode = xp.FullParens
	}
	src := xp.Join(xp.Tokens(c.Expr, mode), nil)
	out.Key = src + "|" + fmt.Sprint(c.Leaves)
	env := xp.LeafEnv(c.Leaves)
	want, err := xp.Eval(c.Expr, env)
	if err != nil {
		out.Skip = true
		return out
	}
	m, err := expr.NewExprMachine(src, nil)
	if err != nil {
		out.Violation = fmt.Sprintf("expression %q does not compile: %v", src, err)
		return out
	}
	hasPath := false
	xp.Walk(c.Expr, func(e *xp.E) {
		if e.K == "path" {
			hasPath = true
		}
	})
	tr := &tree.Tree{NoRecord: true, ValueOf: func(id tree.ID) (xpath.Datum, error) {
		if len(id) == 0 {
			return xpath.NewNodesetDatum(nil), nil
		}
		lv, ok := c.Leaves[id[len(id)-1].Name]
		if !ok {
			return xpath.NewNodesetDatum(nil), nil
		}
		return datumOf(lv), nil
	}}
	start := tr.At(tree.ID{{Name: "ctx"}})
	// the debug trace of a context must not change what it computes: a third of the cases run with it on
	res := xpath.NewCtxFromCurrent(context.Background(), m, start).SetDebug(len(src)%3 == 0).Run()
	if msg := compareResult(res, want); msg != "" {
		out.Violation = fmt.Sprintf("expression %q with leaves %v: %s", src, c.Leaves, msg)
		return out
	}
	if !hasPath {
		res2 := xpath.NewCtxFromMach(m, nil).Run()
		if msg := compareResult(res2, want); msg != "" {
			out.Violation = fmt.Sprintf("expression %q (NewCtxFromMach): %s", src, msg)
			return out
		}
	}
	return out
}
