// Package merr reads the fields of danos/mgmterror values without depending on their concrete types.
package merr

import "reflect"

// Fields returns Path, Message and AppTag of an mgmterror value; ok is false when err is not one.
func Fields(err error) (path, msg, apptag string, ok bool) {
	v := reflect.ValueOf(err)
	if !v.IsValid() {
		return
	}
	for v.Kind() == reflect.Ptr || v.Kind() == reflect.Interface {
		if v.IsNil() {
			return
		}
		v = v.Elem()
	}
	if v.Kind() != reflect.Struct {
		return
	}
	get := func(name string) (string, bool) {
		f := v.FieldByName(name)
		if !f.IsValid() || f.Kind() != reflect.String {
			return "", false
		}
		return f.String(), true
	}
	p, ok1 := get("Path")
	m, ok2 := get("Message")
	a, ok3 := get("AppTag")
	return p, m, a, ok1 && ok2 && ok3
}

// InfoValues returns the values of the error-info entries (e.g. bad-element).
func InfoValues(err error) []string {
	v := reflect.ValueOf(err)
	for v.IsValid() && (v.Kind() == reflect.Ptr || v.Kind() == reflect.Interface) {
		if v.IsNil() {
			return nil
		}
		v = v.Elem()
	}
	if !v.IsValid() || v.Kind() != reflect.Struct {
		return nil
	}
	info := v.FieldByName("Info")
	if !info.IsValid() || info.Kind() != reflect.Slice {
		return nil
	}
	var out []string
	for i := 0; i < info.Len(); i++ {
		e := info.Index(i)
		for e.Kind() == reflect.Ptr || e.Kind() == reflect.Interface {
			e = e.Elem()
		}
		if e.Kind() == reflect.Struct {
			if f := e.FieldByName("Value"); f.IsValid() && f.Kind() == reflect.String {
				out = append(out, f.String())
			}
		}
	}
	return out
}
