// Package c14: config, status, if-feature and deviations shape the tree as specified.
package c14

import (
	"fmt"
	"os"
	"sort"
	"strings"
	"testing"

	"verifharness/canon"
	"verifharness/fw"
	"verifharness/sg"
	"verifharness/sgc"

	"pgregory.net/rapid"

	"github.com/sdcio/yang-parser/compile"
)

func texts(mods []*sg.Mod) string {
	var b []string
	for _, m := range mods {
		b = append(b, m.Text())
	}
	return strings.Join(b, "\n")
}

func firstDiff(a, b string) string {
	la, lb := strings.Split(a, "\n"), strings.Split(b, "\n")
	for i := 0; i < len(la) && i < len(lb); i++ {
		if la[i] != lb[i] {
			return fmt.Sprintf("line %d:\n  left:  %s\n  right: %s", i+1, la[i], lb[i])
		}
	}
	return fmt.Sprintf("lengths differ: %d vs %d lines", len(la), len(lb))
}

func sp(s string) *string { return &s }

// compare compiles both forms and compares verdict and dump.
func compare(out *fw.Outcome, what string, left, right []*sg.Mod, lo, ro sgc.Opts, co canon.Opts) (bothOK bool) {
	l, r := sgc.Compile(left, lo), sgc.Compile(right, ro)
	for _, x := range []sgc.Result{l, r} {
		if x.Hang || x.Panic != "" {
			out.Violation = fmt.Sprintf("%s: %s\n%s", what, x.Describe(), texts(left))
			return false
		}
		if x.ParseErr {
			out.Violation = fmt.Sprintf("harness: generated module does not parse: %v\n%s\n%s", x.Err, texts(left), texts(right))
			return false
		}
	}
	if l.OK() != r.OK() {
		out.Violation = fmt.Sprintf("%s: original %s ; equivalent form %s\n--- original\n%s\n--- equivalent form\n%s", what, l.Describe(), r.Describe(), texts(left), texts(right))
		return false
	}
	if !l.OK() {
		out.Labels = append(out.Labels, "both-rejected")
		if os.Getenv("VERIF_DEBUG") != "" {
			fmt.Println("both rejected:", l.Describe())
		}
		return false
	}
	ld, rd := canon.Dump(l.MS, co), canon.Dump(r.MS, co)
	if ld != rd {
		out.Violation = fmt.Sprintf("%s: compiled schemas differ\n%s\n--- original\n%s\n--- equivalent form\n%s", what, firstDiff(ld, rd), texts(left), texts(right))
		return false
	}
	out.Labels = append(out.Labels, "both-compile")
	return true
}

// ------------------------------------------------------------------- if-feature

type FeatCase struct {
	Mods []*sg.Mod `json:"mods"`
	On   []string  `json:"on"`
	// Via: how the same set is also handed to the compiler through the library's own checkers: 1 FeaturesFromNames,
	// 2 enable all then disable the rest, 3 disable all then enable the set, 4 the set, a nil checker and an unrelated
	// disable list (combined with MultiFeatureCheckers: the last definite answer wins)
	Via int `json:"via,omitempty"`
}

func allFeatures(mods []*sg.Mod) []string {
	var out []string
	for _, m := range mods {
		for _, f := range m.Features {
			out = append(out, m.Name+":"+f.Name)
		}
	}
	sort.Strings(out)
	return out
}

func genFeat(t *rapid.T) FeatCase {
	g := &sg.G{T: t, Cfg: sg.GenCfg{MaxMods: 3, ConfigFalse: true}}
	c := FeatCase{Mods: g.GenSet()}
	if g.Chance(1, 3, "twinfeatures") {
		// three modules that each define a feature of the same name and write "if-feature zshared" without a prefix: on
		// their own nodes, on a node one of them adds to the tree of another by an augment, and on a node of a grouping
		// that another one uses - the name means the feature of the module the statement is written in, wherever the
		// node ends up
		str := &sg.TypeSpec{Name: "string"}
		lf := func(n string) *sg.Node { return &sg.Node{Kind: "leaf", Name: n, Type: str, IfFeatures: []string{"zshared"}} }
		feat := func() []*sg.Feature { return []*sg.Feature{{Name: "zshared"}} }
		za := &sg.Mod{Name: "zta", Prefix: "zta", Features: feat(), Nodes: []*sg.Node{{Kind: "container", Name: "zta-top", Kids: []*sg.Node{lf("own-a"), {Kind: "leaf", Name: "plain", Type: str}}}}}
		zb := &sg.Mod{Name: "ztb", Prefix: "ztb", Features: feat(), Imports: []sg.Import{{Mod: "zta", Prefix: "zta"}},
			Groupings: []*sg.Grouping{{Name: "zg", Kids: []*sg.Node{lf("from-grouping-b"), {Kind: "leaf", Name: "gplain", Type: str}}}},
			Augments:  []*sg.Augment{{Target: "/zta:zta-top", Kids: []*sg.Node{lf("from-augment-b")}}}}
		zc := &sg.Mod{Name: "ztc", Prefix: "ztc", Features: feat(), Imports: []sg.Import{{Mod: "ztb", Prefix: "ztb"}},
			Nodes: []*sg.Node{{Kind: "container", Name: "ztc-top", Kids: []*sg.Node{lf("own-c"), {Kind: "uses", Name: "ztb:zg"}, lf("own-c2")}}}}
		if g.Bool("twinorder") {
			zc.Nodes[0].Kids[0], zc.Nodes[0].Kids[1] = zc.Nodes[0].Kids[1], zc.Nodes[0].Kids[0]
		}
		c.Mods = append(c.Mods, za, zb, zc)
	}
	for _, f := range allFeatures(c.Mods) {
		if g.Chance(1, 2, "on") {
			c.On = append(c.On, f)
		}
	}
	c.Via = g.Pick(5, "via")
	return c
}

// viaChecker expresses the enabled set with the library's feature checkers.
func viaChecker(c FeatCase) compile.FeaturesChecker {
	all := allFeatures(c.Mods)
	isOn := map[string]bool{}
	for _, f := range c.On {
		isOn[f] = true
	}
	var off []string
	for _, f := range all {
		if !isOn[f] {
			off = append(off, f)
		}
	}
	switch c.Via {
	case 1:
		return compile.FeaturesFromNames(true, c.On...)
	case 2:
		return compile.MultiFeatureCheckers(compile.FeaturesFromNames(true, all...), compile.FeaturesFromNames(false, off...))
	case 3:
		return compile.MultiFeatureCheckers(compile.FeaturesFromNames(false, all...), compile.FeaturesFromNames(true, c.On...))
	case 4:
		return compile.MultiFeatureCheckers(compile.FeaturesFromNames(true, c.On...), nil, compile.FeaturesFromNames(false, append([]string{"nosuch:feature"}, off...)...))
	}
	return nil
}

func checkFeatOne(c FeatCase) fw.Outcome {
	out := fw.Outcome{}
	on := sgc.FeatureSet{}
	for _, f := range c.On {
		on[f] = true
	}
	pruned := sg.PruneFeatures(c.Mods, on)
	out.Key = strings.Join(c.On, ",") + "|" + texts(c.Mods)
	// non-trivial: a node removed because of a feature that depends on another, or with two if-features
	en := sg.FeatureEnabled(c.Mods, on)
	multi := false
	var walk func(kids []*sg.Node)
	walk = func(kids []*sg.Node) {
		for _, k := range kids {
			if len(k.IfFeatures) >= 2 {
				multi = true
			}
			walk(k.Kids)
		}
	}
	dep := false
	for _, m := range c.Mods {
		walk(m.Nodes)
		for _, g := range m.Groupings {
			walk(g.Kids)
		}
		for _, f := range m.Features {
			if len(f.IfFeatures) > 0 {
				dep = true
			}
		}
	}
	out.NonTrivial = multi || dep
	if compare(&out, "if-feature pruning", c.Mods, pruned, sgc.Opts{Features: on}, sgc.Opts{Features: on}, canon.Opts{NoFeatures: true, XPathListing: true}) {
		// the enabled features reported per module are exactly the effectively enabled ones
		res := sgc.Compile(c.Mods, sgc.Opts{Features: on})
		for name, m := range res.MS.Modules() {
			var want []string
			for k, v := range en {
				if v && strings.HasPrefix(k, name+":") {
					want = append(want, strings.TrimPrefix(k, name+":"))
				}
			}
			got := append([]string(nil), m.Features()...)
			sort.Strings(want)
			sort.Strings(got)
			if strings.Join(want, ",") != strings.Join(got, ",") {
				out.Violation = fmt.Sprintf("module %s reports enabled features %v, expected %v (switched on: %v)\n%s", name, got, want, c.On, texts(c.Mods))
			}
		}
		// the same set of enabled features handed over through the library's own checkers gives the same schema
		if chk := viaChecker(c); chk != nil && out.Violation == "" {
			out.Labels = append(out.Labels, fmt.Sprintf("via:%d", c.Via))
			res2 := sgc.Compile(c.Mods, sgc.Opts{Features: chk})
			if res2.OK() != res.OK() {
				out.Violation = fmt.Sprintf("feature set %v given through checkers (form %d): %s ; given directly: %s\n%s", c.On, c.Via, res2.Describe(), res.Describe(), texts(c.Mods))
			} else if res.OK() {
				if a, b := canon.Dump(res.MS, canon.Opts{}), canon.Dump(res2.MS, canon.Opts{}); a != b {
					out.Violation = fmt.Sprintf("feature set %v given through checkers (form %d) gives another schema than given directly\n%s\n%s", c.On, c.Via, firstDiff(a, b), texts(c.Mods))
				}
			}
		}
	}
	return out
}

var featProp = fw.Register(&fw.Prop[FeatCase]{
	ID: "C14", Name: "iffeature",
	Rule: "generated module sets with features (dependency chains within and across modules) and if-feature on random nodes (also features of one name in three modules, named without a prefix on own nodes, on nodes added to another module's tree and on nodes of a grouping another module uses), with a drawn set of switched-on features; oracle (metamorphic): " +
		"the compiled schema equals that of the source in which every node whose transitive feature condition is false is deleted and all if-feature statements are removed; the per-module list of " +
		"enabled features equals the transitively enabled set; non-trivial = a feature depending on another or a node with two if-features",
	Gen: genFeat, Check: checkFeatOne,
})

// exhaustive: all subsets of the features of a set with at most 4 features
func TestFeatureSubsets(t *testing.T) {
	if fw.Shard() != 0 {
		return
	}
	f := func(name string, deps ...string) *sg.Feature { return &sg.Feature{Name: name, IfFeatures: deps} }
	leaf := func(name string, iff ...string) *sg.Node {
		return &sg.Node{Kind: "leaf", Name: name, Type: &sg.TypeSpec{Name: "string"}, IfFeatures: iff}
	}
	m0 := &sg.Mod{Name: "m0", Prefix: "m0", Features: []*sg.Feature{f("a"), f("b", "a")},
		Nodes: []*sg.Node{{Kind: "container", Name: "m0-top", Kids: []*sg.Node{leaf("la", "a"), leaf("lb", "b"), leaf("lab", "a", "b"), leaf("plain"),
			{Kind: "container", Name: "cb", IfFeatures: []string{"b"}, Kids: []*sg.Node{leaf("inner", "a")}}}}}}
	m1 := &sg.Mod{Name: "m1", Prefix: "m1", Imports: []sg.Import{{Mod: "m0", Prefix: "p0"}}, Features: []*sg.Feature{f("c", "p0:b"), f("d", "c", "p0:a")},
		Nodes: []*sg.Node{{Kind: "container", Name: "m1-top", Kids: []*sg.Node{leaf("lc", "c"), leaf("ld", "d"), leaf("lx", "p0:a", "d"),
			{Kind: "list", Name: "ls", Key: "k", IfFeatures: []string{"p0:b"}, Kids: []*sg.Node{leaf("k"), leaf("v", "c")}}}}}}
	mods := []*sg.Mod{m0, m1}
	all := allFeatures(mods)
	for mask := 0; mask < 1<<len(all); mask++ {
		var on []string
		for i, n := range all {
			if mask&(1<<i) != 0 {
				on = append(on, n)
			}
		}
		fw.Eval(featProp, "/subsets", FeatCase{Mods: mods, On: on})
	}
	fw.NoteExhaustive("iffeature/subsets", "all 2^4 enabled-feature subsets of a two-module set with a 4-feature dependency chain", 16)
}

// ------------------------------------------------------------------- inheritance

type InheritCase struct {
	Mods []*sg.Mod `json:"mods"`
}

func genInherit(t *rapid.T) InheritCase {
	g := &sg.G{T: t, Cfg: sg.GenCfg{MaxMods: 2, ConfigFalse: true, NoFeatures: true}}
	mods := g.GenSet()
	// status on some containers / lists (weakening only)
	var walk func(kids []*sg.Node, st string)
	walk = func(kids []*sg.Node, st string) {
		for _, k := range kids {
			s := st
			if k.Kind != "uses" && k.Kind != "case" && g.Chance(1, 6, "status") {
				opts := []string{"deprecated", "obsolete"}
				if st == "obsolete" {
					opts = []string{"obsolete"}
				}
				k.Status = opts[g.Pick(len(opts), "which")]
				s = k.Status
			}
			walk(k.Kids, s)
		}
	}
	for _, m := range mods {
		walk(m.Nodes, "")
	}
	return InheritCase{Mods: mods}
}

func checkInherit(c InheritCase) fw.Outcome {
	out := fw.Outcome{Key: texts(c.Mods)}
	depth2 := false
	var walk func(kids []*sg.Node, d int, under bool)
	walk = func(kids []*sg.Node, d int, under bool) {
		for _, k := range kids {
			u := under || k.Config == "false" || k.Status != ""
			if under && len(k.Kids) > 0 {
				depth2 = true
			}
			walk(k.Kids, d+1, u)
		}
	}
	for _, m := range c.Mods {
		walk(m.Nodes, 0, false)
	}
	out.NonTrivial = depth2
	compare(&out, "explicit config/status", c.Mods, sg.Explicit(c.Mods), sgc.Opts{Features: sgc.AllFeatures{}}, sgc.Opts{Features: sgc.AllFeatures{}}, canon.Opts{XPathListing: true})
	return out
}

var inheritProp = fw.Register(&fw.Prop[InheritCase]{
	ID: "C14", Name: "inherit",
	Rule: "generated module sets with config false and deprecated/obsolete status at random nodes; oracle (metamorphic): the compiled schema equals that of the source with the inherited config " +
		"and status written explicitly on every descendant; non-trivial = a config false or non-current subtree of depth >= 2",
	Gen: genInherit, Check: checkInherit,
})

// ------------------------------------------------------------------- illegal variants

type IllegalCase struct {
	Kind string `json:"kind"`
	Sub  int    `json:"sub"`
}

var illegalKinds = []string{"config-true-under-false", "config-true-under-false-deep", "config-true-in-grouping-used-under-false", "status-strengthened", "status-strengthened-deep",
	"current-uses-deprecated-grouping", "current-type-obsolete-typedef", "deprecated-type-obsolete-typedef", "current-iffeature-deprecated-feature", "current-uses-iffeature-deprecated-feature", "current-base-deprecated-identity",
	"current-refine-deprecated-node", "current-uses-augment-deprecated-node", "current-augment-deprecated-node", "current-grouping-uses-deprecated-grouping", "current-typedef-type-deprecated-typedef",
	"deviate-add-existing", "deviate-delete-missing", "deviate-delete-wrong-value", "deviate-replace-missing", "not-supported-plus-other", "deviate-add-not-allowed", "deviate-unknown-target", "deviate-replace-not-allowed", "deviate-replace-duplicate", "deviate-unknown-target-in-operation"}

func leaf(name string) *sg.Node {
	return &sg.Node{Kind: "leaf", Name: name, Type: &sg.TypeSpec{Name: "string"}}
}

func buildIllegal(kind string, sub int, legal bool) []*sg.Mod {
	// sub drives the variation: where the construction sits, how references are spelled, the order of deviates
	v := func(n int) int { r := sub % n; sub /= n; return r }
	m := &sg.Mod{Name: "m0", Prefix: "m0"}
	root := &sg.Node{Kind: "container", Name: "m0-top"}
	m.Nodes = []*sg.Node{root}
	// the subject container "top" sits 0-2 levels below the top-level container, through a container, a list or a choice/case
	top := root
	tpath := "/m0:m0-top"
	for lv := v(3); lv > 0; lv-- {
		name := fmt.Sprintf("w%d", lv)
		inner := &sg.Node{Kind: "container", Name: name}
		switch v(3) {
		case 0:
			top.Kids = append(top.Kids, inner)
		case 1:
			inner = &sg.Node{Kind: "list", Name: name, Key: "wk", Kids: []*sg.Node{leaf("wk")}}
			top.Kids = append(top.Kids, inner)
		default:
			top.Kids = append(top.Kids, &sg.Node{Kind: "choice", Name: name + "ch", Kids: []*sg.Node{{Kind: "case", Name: name + "cs", Kids: []*sg.Node{inner}}}})
			tpath += "/m0:" + name + "ch/m0:" + name + "cs"
		}
		tpath += "/m0:" + name
		top = inner
	}
	ref := func(s string) string {
		if v(2) == 1 {
			return "m0:" + s
		}
		return s
	}
	dev := &sg.Mod{Name: "mdev", Prefix: "mdev", Imports: []sg.Import{{Mod: "m0", Prefix: "m0"}}}
	mods := []*sg.Mod{m}
	// place puts the node that makes the reference below the subject container, or (one time in three) into a grouping of
	// m0 that only another module uses: the reference is still one within m0
	place := func(n *sg.Node) {
		if v(3) != 2 {
			top.Kids = append(top.Kids, n)
			return
		}
		m.Groupings = append(m.Groupings, &sg.Grouping{Name: "gremote", Kids: []*sg.Node{n}})
		mods = append(mods, &sg.Mod{Name: "mu", Prefix: "mu", Imports: []sg.Import{{Mod: "m0", Prefix: "m0"}},
			Nodes: []*sg.Node{{Kind: "container", Name: "mu-top", Kids: []*sg.Node{{Kind: "uses", Name: "m0:gremote"}}}}})
	}
	target := leaf("t")
	target.Units = "seconds"
	target.Default = sp("dv")
	top.Kids = append(top.Kids, target)
	switch kind {
	case "config-true-under-false":
		top.Config = "false"
		l := leaf("x")
		l.Config = "true"
		if legal {
			l.Config = "false"
		}
		top.Kids = append(top.Kids, l)
	case "config-true-under-false-deep":
		top.Config = "false"
		l := leaf("x")
		l.Config = "true"
		if legal {
			l.Config = ""
		}
		top.Kids = append(top.Kids, &sg.Node{Kind: "container", Name: "mid", Kids: []*sg.Node{{Kind: "list", Name: "ls", Key: "k", Kids: []*sg.Node{leaf("k"), l}}}})
	case "config-true-in-grouping-used-under-false":
		l := leaf("x")
		l.Config = "true"
		if legal {
			l.Config = ""
		}
		m.Groupings = []*sg.Grouping{{Name: "g", Kids: []*sg.Node{l}}}
		top.Kids = append(top.Kids, &sg.Node{Kind: "container", Name: "st", Config: "false", Kids: []*sg.Node{{Kind: "uses", Name: ref("g")}}})
	case "status-strengthened":
		top.Status = "deprecated"
		l := leaf("x")
		l.Status = "current"
		if legal {
			l.Status = "obsolete"
		}
		top.Kids = append(top.Kids, l)
	case "status-strengthened-deep":
		top.Status = "obsolete"
		l := leaf("x")
		l.Status = "deprecated"
		if legal {
			l.Status = "obsolete"
		}
		top.Kids = append(top.Kids, &sg.Node{Kind: "container", Name: "mid", Kids: []*sg.Node{l}})
	case "current-uses-deprecated-grouping":
		m.Groupings = []*sg.Grouping{{Name: "g", Status: "deprecated", Kids: []*sg.Node{leaf("x")}}}
		u := &sg.Node{Kind: "uses", Name: ref("g")}
		// the uses stands 0-2 levels below the node that carries the status (inherited through nodes that have none)
		carrier := u
		for d := v(3); d > 0; d-- {
			u = &sg.Node{Kind: "container", Name: fmt.Sprintf("lvl%d", d), Kids: []*sg.Node{u}}
			carrier = u
		}
		if legal {
			carrier.Status = "deprecated"
		}
		if v(2) == 1 {
			// an earlier, legal use of the same grouping: every reference is checked, not the first only
			top.Kids = append(top.Kids, &sg.Node{Kind: "container", Name: "early", Status: "obsolete", Kids: []*sg.Node{{Kind: "uses", Name: ref("g")}}})
		}
		top.Kids = append(top.Kids, u)
	case "current-typedef-type-deprecated-typedef":
		// a typedef defined in terms of a more obsolete typedef; the legal twin gives the referring typedef (and the leaf
		// that uses it) the same status
		st := []string{"deprecated", "obsolete"}[v(2)]
		tb := &sg.Typedef{Name: "tb", Type: &sg.TypeSpec{Name: "string"}, Status: st}
		ta := &sg.Typedef{Name: "ta", Type: &sg.TypeSpec{Name: ref("tb")}}
		l := &sg.Node{Kind: "leaf", Name: "x", Type: &sg.TypeSpec{Name: ref("ta")}}
		if legal {
			ta.Status, l.Status = st, st
		} else if v(2) == 1 {
			// (the typedef in the middle current, the leaf as obsolete as the inner typedef: still a reference from current)
			l.Status = st
			ta.Status = ""
		}
		if v(2) == 1 {
			m.Typedefs = []*sg.Typedef{ta, tb}
		} else {
			m.Typedefs = []*sg.Typedef{tb, ta}
		}
		top.Kids = append(top.Kids, l)
	case "current-grouping-uses-deprecated-grouping":
		// the reference is made by the grouping that holds the uses, wherever that grouping is used from (a deprecated
		// container, another grouping, nowhere) and in whatever order the groupings are written
		gdep := &sg.Grouping{Name: "gdep", Status: "deprecated", Kids: []*sg.Node{leaf("x")}}
		g1 := &sg.Grouping{Name: "g1", Kids: []*sg.Node{{Kind: "uses", Name: ref("gdep")}}}
		if v(2) == 1 {
			g1.Kids = append([]*sg.Node{leaf("y")}, g1.Kids...)
		}
		if legal {
			g1.Status = "deprecated"
		}
		g2 := &sg.Grouping{Name: "g2", Kids: []*sg.Node{{Kind: "container", Name: "c2", Status: "deprecated", Kids: []*sg.Node{{Kind: "uses", Name: ref("g1")}}}}}
		site := v(4)
		switch v(3) {
		case 0:
			m.Groupings = []*sg.Grouping{gdep, g1}
		case 1:
			m.Groupings = []*sg.Grouping{g1, gdep}
		default:
			m.Groupings = []*sg.Grouping{g2, gdep, g1}
			if site == 3 {
				top.Kids = append(top.Kids, &sg.Node{Kind: "container", Name: "viag2", Status: "deprecated", Kids: []*sg.Node{{Kind: "uses", Name: ref("g2")}}})
			}
		}
		switch site {
		case 1:
			top.Kids = append(top.Kids, &sg.Node{Kind: "container", Name: "site", Status: "deprecated", Kids: []*sg.Node{{Kind: "uses", Name: ref("g1")}}})
		case 2:
			top.Kids = append([]*sg.Node{{Kind: "container", Name: "site", Status: "obsolete", Kids: []*sg.Node{{Kind: "uses", Name: ref("g1")}}}}, top.Kids...)
		}
	case "current-type-obsolete-typedef", "deprecated-type-obsolete-typedef":
		m.Typedefs = []*sg.Typedef{{Name: "t1", Type: &sg.TypeSpec{Name: "string"}, Status: "obsolete"}}
		l := &sg.Node{Kind: "leaf", Name: "x", Type: &sg.TypeSpec{Name: ref("t1")}}
		if kind == "deprecated-type-obsolete-typedef" {
			l.Status = "deprecated"
		}
		if legal {
			l.Status = "obsolete"
		}
		switch v(4) {
		case 1:
			// an earlier, legal reference to the same typedef: every reference is checked, not the first only
			top.Kids = append(top.Kids, &sg.Node{Kind: "leaf", Name: "early", Status: "obsolete", Type: &sg.TypeSpec{Name: ref("t1")}})
		case 2:
			top.Kids = append(top.Kids, &sg.Node{Kind: "container", Name: "early", Status: "obsolete", Kids: []*sg.Node{{Kind: "leaf-list", Name: "ll", Type: &sg.TypeSpec{Name: "union", Members: []*sg.TypeSpec{{Name: "int8"}, {Name: ref("t1")}}}}}})
		case 3:
			m.Groupings = []*sg.Grouping{{Name: "gt", Kids: []*sg.Node{{Kind: "leaf", Name: "gl", Type: &sg.TypeSpec{Name: ref("t1")}, Status: "obsolete"}}}}
			top.Kids = append(top.Kids, &sg.Node{Kind: "uses", Name: "gt"})
		}
		place(l)
	case "current-iffeature-deprecated-feature":
		m.Features = []*sg.Feature{{Name: "f", Status: "deprecated"}}
		l := leaf("x")
		l.IfFeatures = []string{ref("f")}
		if legal {
			l.Status = "deprecated"
		}
		if v(2) == 1 {
			e := leaf("early")
			e.Status, e.IfFeatures = "deprecated", []string{ref("f")}
			top.Kids = append(top.Kids, e)
		}
		place(l)
	case "current-uses-iffeature-deprecated-feature":
		// the if-feature is written on a uses (or on the augment of a uses): the reference is made by that statement, whose
		// status counts - not the status of the nodes the if-feature is handed on to
		m.Features = []*sg.Feature{{Name: "f", Status: "deprecated"}}
		gx := leaf("x")
		gx.Status = "deprecated"
		m.Groupings = []*sg.Grouping{{Name: "g", Kids: []*sg.Node{gx, {Kind: "container", Name: "gc", Status: "deprecated"}}}}
		u := &sg.Node{Kind: "uses", Name: ref("g")}
		if v(2) == 0 {
			u.IfFeatures = []string{ref("f")}
			if legal {
				u.Status = "deprecated"
			}
		} else {
			a := &sg.Augment{Target: "gc", IfFeatures: []string{ref("f")}, Kids: []*sg.Node{leaf("added")}}
			a.Kids[0].Status = "deprecated"
			if legal {
				a.Status = "deprecated"
			}
			u.Augments = []*sg.Augment{a}
		}
		top.Kids = append(top.Kids, u)
	case "current-base-deprecated-identity":
		m.Identities = []*sg.Identity{{Name: "base", Status: "deprecated"}, {Name: "derived", Base: ref("base")}}
		if legal {
			m.Identities[1].Status = "deprecated"
		}
	case "current-refine-deprecated-node", "current-uses-augment-deprecated-node", "current-augment-deprecated-node":
		// the path of a refine / augment names nodes of the same module: each of them is a reference.  The more
		// obsolete node is the last or an inner element of a path of length 1-3; the referencing statement is current or
		// deprecated, the node deprecated or obsolete.
		depth := 1 + v(3)
		weak := []string{"deprecated", "obsolete"}[v(2)]
		own := ""
		if weak == "obsolete" && v(2) == 1 {
			own = "deprecated"
		}
		at := v(depth) // index of the path element that carries the weaker status
		var first, cur *sg.Node
		path := ""
		for i := 0; i < depth; i++ {
			n := &sg.Node{Kind: "container", Name: fmt.Sprintf("p%d", i)}
			if i == at {
				n.Status = weak
			} else if i > at {
				n.Status = "" // inherits
			}
			if cur == nil {
				first = n
			} else {
				cur.Kids = append(cur.Kids, n)
			}
			cur = n
			if path != "" {
				path += "/"
			}
			path += ref(n.Name)
		}
		st := own
		if legal {
			st = weak
		}
		switch kind {
		case "current-refine-deprecated-node":
			m.Groupings = []*sg.Grouping{{Name: "g", Kids: []*sg.Node{first}}}
			top.Kids = append(top.Kids, &sg.Node{Kind: "uses", Name: ref("g"), Status: st, Refines: []sg.Refine{{Target: path, Stmts: []string{`description "refined";`}}}})
		case "current-uses-augment-deprecated-node":
			m.Groupings = []*sg.Grouping{{Name: "g", Kids: []*sg.Node{first}}}
			top.Kids = append(top.Kids, &sg.Node{Kind: "uses", Name: ref("g"), Status: st, Augments: []*sg.Augment{{Target: path, Kids: []*sg.Node{leaf("added")}}}})
		default:
			top.Kids = append(top.Kids, first)
			abs := tpath
			for _, el := range strings.Split(path, "/") {
				abs += "/m0:" + strings.TrimPrefix(el, "m0:")
			}
			m.Augments = append(m.Augments, &sg.Augment{Target: abs, Status: st, Kids: []*sg.Node{leaf("added")}})
		}
	case "deviate-add-existing":
		st := `units "hours";`
		if legal {
			st = `must "string-length(.) > 1";`
		}
		dev.Deviations = []*sg.Deviation{{Target: tpath + "/m0:t", Deviates: []sg.Deviate{{Kind: "add", Stmts: []string{st}}}}}
		mods = append(mods, dev)
	case "deviate-delete-missing":
		st := `must "a = 'b'";`
		if legal {
			st = `units "seconds";`
		}
		dev.Deviations = []*sg.Deviation{{Target: tpath + "/m0:t", Deviates: []sg.Deviate{{Kind: "delete", Stmts: []string{st}}}}}
		mods = append(mods, dev)
	case "deviate-delete-wrong-value":
		st := `units "hours";`
		if legal {
			st = `default "dv";`
		}
		switch v(3) {
		case 1:
			// the empty string is a value like any other: it is not the target's value (which here reads like the keyword)
			target.Default = sp("default")
			st = `default "";`
			if legal {
				st = `default "default";`
			}
		case 2:
			target.Units = "units"
			st = `units "";`
			if legal {
				st = `units "units";`
			}
		}
		dev.Deviations = []*sg.Deviation{{Target: tpath + "/m0:t", Deviates: []sg.Deviate{{Kind: "delete", Stmts: []string{st}}}}}
		mods = append(mods, dev)
	case "deviate-unknown-target-in-operation":
		// the path of a deviation may lead into a notification or into the input or output of an rpc; the illegal variant
		// names a node that is not there
		nx := leaf("nx")
		nx.Units = "seconds"
		m.Notifs = []*sg.Notif{{Name: "ntf", Kids: []*sg.Node{nx, leaf("ny"), {Kind: "container", Name: "nc", Kids: []*sg.Node{leaf("deep")}}}}}
		ix := leaf("ix")
		ix.Units = "seconds"
		m.Rpcs = []*sg.Rpc{{Name: "rp", Input: []*sg.Node{ix, leaf("iy")}, Output: []*sg.Node{leaf("ox")}}}
		tgt := []string{"/m0:ntf/m0:nx", "/m0:rp/m0:input/m0:ix", "/m0:ntf/m0:nc/m0:deep", "/m0:rp/m0:output/m0:ox"}[v(4)]
		if !legal {
			tgt = tgt[:strings.LastIndex(tgt, ":")+1] + "nosuch"
		}
		dv := sg.Deviate{Kind: "not-supported"}
		if strings.HasSuffix(tgt, "x") && !strings.HasSuffix(tgt, "ox") && v(2) == 1 {
			dv = sg.Deviate{Kind: "replace", Stmts: []string{`units "hours";`}}
		}
		dev.Deviations = []*sg.Deviation{{Target: tgt, Deviates: []sg.Deviate{dv}}}
		mods = append(mods, dev)
	case "deviate-replace-duplicate":
		// every property a deviate replace can give is single-valued
		pairs := [][2]string{{`units "hours";`, `units "days";`}, {`default "a";`, `default "b";`}, {`units "hours";`, `units "hours";`}}
		pr := pairs[v(3)]
		sts := []string{pr[0], pr[1]}
		if legal {
			sts = []string{pr[0]}
		}
		if v(2) == 1 {
			sts = append([]string{`default "zz";`}, sts...)
			if sts[1][:7] == "default" {
				sts = sts[1:]
			}
		}
		dev.Deviations = []*sg.Deviation{{Target: tpath + "/m0:t", Deviates: []sg.Deviate{{Kind: "replace", Stmts: sts}}}}
		mods = append(mods, dev)
	case "deviate-replace-missing":
		st := `mandatory true;`
		if legal {
			st = `units "hours";`
		}
		dev.Deviations = []*sg.Deviation{{Target: tpath + "/m0:t", Deviates: []sg.Deviate{{Kind: "replace", Stmts: []string{st}}}}}
		mods = append(mods, dev)
	case "not-supported-plus-other":
		others := []sg.Deviate{{Kind: "add", Stmts: []string{`must "a";`}}, {Kind: "replace", Stmts: []string{`units "hours";`}}, {Kind: "delete", Stmts: []string{`default "dv";`}}}
		ds := []sg.Deviate{others[v(3)]}
		if v(2) == 1 {
			ds = append(ds, others[(v(2)+1)%3])
			if ds[1].Kind == ds[0].Kind {
				ds = ds[:1]
			}
		}
		pos := v(len(ds) + 1)
		ds = append(ds[:pos], append([]sg.Deviate{{Kind: "not-supported"}}, ds[pos:]...)...)
		if legal {
			ds = []sg.Deviate{{Kind: "not-supported"}}
		}
		dev.Deviations = []*sg.Deviation{{Target: tpath + "/m0:t", Deviates: ds}}
		mods = append(mods, dev)
	case "deviate-add-not-allowed":
		st := `min-elements 1;`
		if legal {
			st = `mandatory false;`
		}
		dev.Deviations = []*sg.Deviation{{Target: tpath + "/m0:t", Deviates: []sg.Deviate{{Kind: "add", Stmts: []string{st}}}}}
		mods = append(mods, dev)
	case "deviate-replace-not-allowed":
		// only type, units, default, config, mandatory, min-elements and max-elements can be replaced; the target has
		// one of each of the others, so that "nothing there to replace" is not the reason for the refusal
		target.Desc, target.Ref, target.Status = "the target", "RFC 0000", "deprecated"
		target.When = "../anchor = 'x'"
		top.Kids = append(top.Kids, leaf("anchor"))
		st := []string{`description "other";`, `reference "other";`, `status obsolete;`, `when "../anchor = 'y'";`}[v(4)]
		if legal {
			st = `units "hours";`
		}
		dev.Deviations = []*sg.Deviation{{Target: tpath + "/m0:t", Deviates: []sg.Deviate{{Kind: "replace", Stmts: []string{st}}}}}
		mods = append(mods, dev)
	case "deviate-unknown-target":
		tg := tpath + []string{"/m0:nosuch", "/m0:t/m0:t", "/mdev:t"}[v(3)]
		if legal {
			tg = tpath + "/m0:t"
		}
		dev.Deviations = []*sg.Deviation{{Target: tg, Deviates: []sg.Deviate{{Kind: "add", Stmts: []string{`must "a";`}}}}}
		mods = append(mods, dev)
	}
	// the more obsolete definition may be written in a submodule of the module: a submodule is part of its module, the
	// reference is one within the module all the same
	switch kind {
	case "current-type-obsolete-typedef", "deprecated-type-obsolete-typedef", "current-iffeature-deprecated-feature", "current-base-deprecated-identity", "current-uses-deprecated-grouping":
		if v(3) == 1 {
			sub := &sg.Mod{Name: "m0-sub", Prefix: "m0", BelongsTo: "m0"}
			switch kind {
			case "current-iffeature-deprecated-feature":
				sub.Features, m.Features = m.Features, nil
			case "current-base-deprecated-identity":
				sub.Identities, m.Identities = m.Identities[:1], m.Identities[1:]
			case "current-uses-deprecated-grouping":
				var keep []*sg.Grouping
				for _, g := range m.Groupings {
					if g.Status != "" && len(g.Kids) > 0 && g.Kids[0].Kind != "uses" {
						sub.Groupings = append(sub.Groupings, g)
					} else {
						keep = append(keep, g)
					}
				}
				m.Groupings = keep
			default:
				sub.Typedefs, m.Typedefs = m.Typedefs, nil
			}
			if len(sub.Features)+len(sub.Identities)+len(sub.Groupings)+len(sub.Typedefs) > 0 {
				m.Includes = append(m.Includes, "m0-sub")
				mods = append(mods, sub)
			}
		}
	}
	return mods
}

func checkIllegal(c IllegalCase) fw.Outcome {
	out := fw.Outcome{NonTrivial: true, Key: fmt.Sprintf("%s/%d", c.Kind, c.Sub), Labels: []string{"illegal:" + c.Kind}}
	bad := sgc.Compile(buildIllegal(c.Kind, c.Sub, false), sgc.Opts{Features: sgc.AllFeatures{}})
	good := sgc.Compile(buildIllegal(c.Kind, c.Sub, true), sgc.Opts{Features: sgc.AllFeatures{}})
	if good.Hang || good.Panic != "" || bad.Hang || bad.Panic != "" {
		out.Violation = fmt.Sprintf("%s: %s / %s", c.Kind, good.Describe(), bad.Describe())
		return out
	}
	if !good.OK() {
		out.Violation = fmt.Sprintf("%s: the legal twin is rejected: %s\n%s", c.Kind, good.Describe(), texts(buildIllegal(c.Kind, c.Sub, true)))
		return out
	}
	if bad.OK() {
		out.Violation = fmt.Sprintf("%s: the illegal variant compiles without error\n%s", c.Kind, texts(buildIllegal(c.Kind, c.Sub, false)))
	}
	return out
}

var illegalProp = fw.Register(&fw.Prop[IllegalCase]{
	ID: "C14", Name: "illegal",
	Rule: "illegal constructions (kind x variation: nesting of the construction 0-2 levels deep through containers, lists and choice/case, own-prefix spelling of references, order and kind of the deviates), each with a legal twin that differs in one statement: config true under config false (direct, deep, through a grouping), status strengthened below a weaker parent, " +
		"a current/deprecated definition referencing a more obsolete typedef / grouping / feature / identity of its own module (written in the module or in a submodule of it), a current/deprecated refine, uses-augment or augment whose path names a more obsolete node of its own module (as last or inner element), deviate add of an existing single-instance property, delete of a missing or differently valued " +
		"property, replace of a missing property, replace of a property that cannot be replaced (description, reference, status, when), not-supported next to another deviate, a property not allowed on the target, an unknown target; oracle: the twin compiles, the illegal variant is rejected",
	Gen: func(t *rapid.T) IllegalCase {
		return IllegalCase{Kind: illegalKinds[rapid.IntRange(0, len(illegalKinds)-1).Draw(t, "kind")], Sub: rapid.IntRange(0, 9999).Draw(t, "sub")}
	}, Check: checkIllegal,
})

func TestIllegalVariants(t *testing.T) {
	if fw.Shard() != 0 {
		return
	}
	for _, k := range illegalKinds {
		fw.Eval(illegalProp, "", IllegalCase{Kind: k})
	}
	fw.NoteExhaustive("illegal", "enumerated illegal constructions with legal twins", int64(len(illegalKinds)))
}

func TestMain(m *testing.M) { fw.Main(m) }

func TestIfFeature(t *testing.T) { fw.Run(t, featProp) }
func TestIllegal(t *testing.T)   { fw.Run(t, illegalProp) }
func TestInherit(t *testing.T)   { fw.Run(t, inheritProp) }

// ------------------------------------------------------------------- deviations

type DevCase struct {
	Mods []*sg.Mod `json:"mods"`
	Devs []DevEdit `json:"devs"`
	// InSub: the deviation statements are written in a submodule of the deviating module, which alone imports the
	// deviated module
	InSub bool `json:"in_sub,omitempty"`
	// ExtNote: every deviate also carries the use of an extension that the deviating module
	// defines (`mdev:note "...";`), which is legal anywhere and changes nothing
	ExtNote bool `json:"ext_note,omitempty"`
	// OpsNS: rpcs ("rpc:<name>") and notifications ("notif:<name>") of Mods[0] that a deviation marks not-supported:
	// the edited twin has them removed
	OpsNS []string `json:"ops_ns,omitempty"`
}

// DevEdit is one deviation: target (index into the node listing of Mods[0]) and what to do.
type DevEdit struct {
	Target int    `json:"target"`
	Kind   string `json:"kind"` // not-supported add replace delete
	Prop   string `json:"prop,omitempty"`
	Idx    int    `json:"idx,omitempty"` // which of several must / unique statements a delete names
}

func isKey(r sg.NodeRef) bool {
	return r.Parent != nil && r.Parent.Kind == "list" && r.Parent.IsKey(r.Node.Name)
}

// uniqueNodes: every node that a unique statement of the module names, directly or as a step of a descendant path
var uniqueNodes = map[*sg.Node]bool{}

func noteUniques(kids []*sg.Node) {
	for _, k := range kids {
		for _, u := range k.Uniques {
			for _, f := range strings.Fields(u) {
				cur := k.Kids
				for _, step := range strings.Split(f, "/") {
					var next *sg.Node
					for _, c := range cur {
						if c.Name == step {
							next = c
						}
					}
					if next == nil {
						break
					}
					uniqueNodes[next] = true
					cur = next.Kids
				}
			}
		}
		noteUniques(k.Kids)
	}
}

func inUnique(r sg.NodeRef) bool { return uniqueNodes[r.Node] }

func simpleString(t *sg.TypeSpec) bool {
	return t != nil && t.Name == "string"
}

// options lists the deviations that are legal for a node, as (kind, prop) pairs.
// freeUniqueLeaf: a direct, non-key leaf child of the list without a config of its own that no unique statement of
// the list names yet.
func freeUniqueLeaf(n *sg.Node) *sg.Node {
	for _, k := range n.Kids {
		if k.Kind != "leaf" || n.IsKey(k.Name) || k.Config != "" || uniqueNodes[k] {
			continue
		}
		return k
	}
	return nil
}

func options(r sg.NodeRef, cfgTrueAbove, cfgTrueParent bool) [][2]string {
	n := r.Node
	var o [][2]string
	if n.Kind == "case" || n.Kind == "uses" {
		return nil
	}
	leafy := n.Kind == "leaf" || n.Kind == "leaf-list"
	if !isKey(r) && !inUnique(r) && !(r.Parent != nil && r.Parent.Kind == "choice" && r.Parent.Default != nil && *r.Parent.Default == n.Name) {
		o = append(o, [2]string{"not-supported", ""})
	}
	if leafy {
		if n.Units == "" {
			o = append(o, [2]string{"add", "units"})
		} else {
			o = append(o, [2]string{"replace", "units"}, [2]string{"delete", "units"})
		}
	}
	if n.Kind == "leaf" && !isKey(r) {
		if n.Default == nil && n.Mandatory == "" && (simpleString(n.Type) || n.Type.Name == "boolean") && len(n.Type.Patterns) == 0 && n.Type.Length == "" {
			o = append(o, [2]string{"add", "default"})
		}
		if n.Default != nil {
			o = append(o, [2]string{"replace", "default"}, [2]string{"delete", "default"})
		}
		if n.Default == nil && n.Mandatory == "" && !(r.Parent != nil && (r.Parent.Kind == "choice" || r.Parent.Kind == "case")) {
			o = append(o, [2]string{"add", "mandatory"})
		}
		if n.Mandatory != "" {
			o = append(o, [2]string{"replace", "mandatory"})
		}
		if n.Default == nil && !inUnique(r) {
			o = append(o, [2]string{"replace", "type"})
		}
	}
	if n.Kind != "choice" {
		o = append(o, [2]string{"add", "must"})
		if len(n.Musts) > 0 {
			o = append(o, [2]string{"delete", "must"})
		}
	}
	if n.Kind == "list" && len(n.Uniques) > 0 {
		o = append(o, [2]string{"delete", "unique"})
	}
	if n.Kind == "list" && freeUniqueLeaf(n) != nil {
		o = append(o, [2]string{"add", "unique"})
	}
	if n.Config == "false" && cfgTrueParent && !isKey(r) && n.Kind != "case" && !(r.Parent != nil && (r.Parent.Kind == "choice" || r.Parent.Kind == "case")) {
		o = append(o, [2]string{"replace", "config"})
	}
	if n.Kind == "list" || n.Kind == "leaf-list" {
		if n.Min == "" {
			o = append(o, [2]string{"add", "min-elements"})
		} else {
			o = append(o, [2]string{"replace", "min-elements"})
		}
		if n.Max == "" {
			o = append(o, [2]string{"add", "max-elements"})
		} else {
			o = append(o, [2]string{"replace", "max-elements"})
		}
	}
	if n.Config == "" && cfgTrueAbove && !isKey(r) {
		o = append(o, [2]string{"add", "config"})
	}
	return o
}

func newDefault(t *sg.TypeSpec, old string) string {
	switch {
	case t.Name == "boolean":
		return "false"
	case t.Name == "string":
		return "xyz"
	}
	return old
}

// apply performs the edit on the node (source-level equivalent) and returns the deviate statement text.
func applyEdit(r sg.NodeRef, e DevEdit) (stmt string, remove bool) {
	n := r.Node
	switch e.Kind + ":" + e.Prop {
	case "not-supported:":
		return "", true
	case "add:units":
		n.Units = "added-units"
		return `units "added-units";`, false
	case "replace:units":
		n.Units = "replaced-units"
		return `units "replaced-units";`, false
	case "delete:units":
		s := fmt.Sprintf("units %q;", n.Units)
		n.Units = ""
		return s, false
	case "add:default":
		v := newDefault(n.Type, "")
		n.Default = &v
		return fmt.Sprintf("default %q;", v), false
	case "replace:default":
		v := newDefault(n.Type, *n.Default)
		n.Default = &v
		return fmt.Sprintf("default %q;", v), false
	case "delete:default":
		s := fmt.Sprintf("default %q;", *n.Default)
		n.Default = nil
		return s, false
	case "add:mandatory":
		n.Mandatory = "true"
		return "mandatory true;", false
	case "replace:mandatory":
		n.Mandatory = "false"
		return "mandatory false;", false
	case "replace:type":
		n.Type = &sg.TypeSpec{Name: "string", Length: "2..20"}
		return `type string { length "2..20"; }`, false
	case "add:must":
		n.Musts = append(n.Musts, sg.Must{Expr: "1 = 1"})
		return `must "1 = 1";`, false
	case "delete:must":
		i := e.Idx % len(n.Musts)
		s := fmt.Sprintf("must %q;", n.Musts[i].Expr)
		n.Musts = append(n.Musts[:i:i], n.Musts[i+1:]...)
		return s, false
	case "delete:unique":
		i := e.Idx % len(n.Uniques)
		s := fmt.Sprintf("unique %q;", n.Uniques[i])
		n.Uniques = append(n.Uniques[:i:i], n.Uniques[i+1:]...)
		return s, false
	case "add:unique":
		l := freeUniqueLeaf(n)
		uniqueNodes[l] = true
		n.Uniques = append(n.Uniques, l.Name)
		return fmt.Sprintf("unique %q;", l.Name), false
	case "replace:config":
		n.Config = "true"
		return "config true;", false
	case "add:min-elements", "replace:min-elements":
		n.Min = "2"
		if n.Max != "" && n.Max != "unbounded" {
			n.Min = "1"
		}
		return "min-elements " + n.Min + ";", false
	case "add:max-elements", "replace:max-elements":
		n.Max = "7"
		return "max-elements 7;", false
	case "add:config":
		n.Config = "false"
		return "config false;", false
	}
	panic("unknown edit " + e.Kind + ":" + e.Prop)
}

// devRefs lists the possible targets: the nodes of the first module and of its submodule (their paths carry the
// module's prefix all the same); home gives the index of the (sub)module whose text holds the node.
func devRefs(mods []*sg.Mod) (refs []sg.NodeRef, home []int) {
	for i, m := range mods {
		if i == 0 || (i == 1 && m.BelongsTo == mods[0].Name) {
			for _, r := range sg.ListNodes(m) {
				refs = append(refs, r)
				home = append(home, i)
			}
		}
	}
	return
}

func genDev(t *rapid.T) DevCase {
	g := &sg.G{T: t, Cfg: sg.GenCfg{MaxMods: 2, ConfigFalse: true, NoFeatures: true, NoAugments: true}}
	c := DevCase{Mods: g.GenSet()}
	uniqueNodes = map[*sg.Node]bool{}
	refs, home := devRefs(c.Mods)
	for _, h := range home {
		noteUniques(c.Mods[h].Nodes)
	}
	// some nodes carry several must statements, so that a delete can name one that is not the first
	for _, r := range refs {
		if r.Node.Kind != "choice" && r.Node.Kind != "case" && r.Node.Kind != "uses" && len(r.Node.Musts) > 0 && g.Chance(1, 3, "moremusts") {
			for k := 0; k <= g.Pick(2, "nmoremusts"); k++ {
				r.Node.Musts = append(r.Node.Musts, sg.Must{Expr: fmt.Sprintf(". != 'extra%d'", k)})
			}
		}
	}
	c.InSub = g.Chance(1, 4, "devinsub")
	c.ExtNote = g.Chance(1, 3, "devextnote")
	nd := 1 + g.Pick(3, "ndev")
	used := map[int]bool{}
	for i := 0; i < nd && len(refs) > 0; i++ {
		ti := g.Pick(len(refs), "target")
		if g.Chance(1, 5, "uqtarget") {
			// lists that carry unique statements are rare among the targets; aim at one now and then
			var uq []int
			for k, r := range refs {
				if r.Node.Kind == "list" && len(r.Node.Uniques) > 0 {
					uq = append(uq, k)
				}
			}
			if len(uq) > 0 {
				ti = uq[g.Pick(len(uq), "uqpick")]
			}
		}
		if used[ti] {
			continue
		}
		// skip targets whose ancestors were already chosen (a not-supported ancestor removes the target)
		skip := false
		for u := range used {
			a, b := refs[u].Path, refs[ti].Path
			if len(a) <= len(b) && strings.Join(b[:len(a)], "/") == strings.Join(a, "/") || len(b) <= len(a) && strings.Join(a[:len(b)], "/") == strings.Join(b, "/") {
				skip = true
			}
		}
		if skip {
			continue
		}
		par := refs[ti]
		par.Path = par.Path[:len(par.Path)-1]
		opts := options(refs[ti], configTrueAt(c.Mods[home[ti]], refs[ti]), configTrueAt(c.Mods[home[ti]], par))
		if len(opts) == 0 {
			continue
		}
		o := opts[g.Pick(len(opts), "opt")]
		if g.Chance(1, 3, "rareopt") {
			var rare [][2]string
			for _, x := range opts {
				switch x[0] + ":" + x[1] {
				case "not-supported:", "add:must", "add:units", "add:config":
				default:
					rare = append(rare, x)
				}
			}
			if len(rare) > 0 {
				o = rare[g.Pick(len(rare), "rarepick")]
			}
		}
		if o[0]+":"+o[1] == "add:unique" {
			l, clash := freeUniqueLeaf(refs[ti].Node), false
			for u := range used {
				clash = clash || refs[u].Node == l
			}
			if clash {
				continue
			}
			uniqueNodes[l] = true
		}
		used[ti] = true
		c.Devs = append(c.Devs, DevEdit{Target: ti, Kind: o[0], Prop: o[1], Idx: g.Pick(4, "which")})
	}
	// not-supported on an rpc or a notification of the deviated module (one of two is kept, so that the lists stay
	// non-empty on one side at least)
	if m0 := c.Mods[0]; g.Chance(1, 3, "opsns") {
		if len(m0.Rpcs) == 0 && len(m0.Notifs) == 0 {
			str := &sg.TypeSpec{Name: "string"}
			m0.Rpcs = append(m0.Rpcs, &sg.Rpc{Name: "oprpc", Input: []*sg.Node{{Kind: "leaf", Name: "opin", Type: str}}},
				&sg.Rpc{Name: "oprpc2", Output: []*sg.Node{{Kind: "leaf", Name: "opout", Type: str}}})
			m0.Notifs = append(m0.Notifs, &sg.Notif{Name: "opntf", Kids: []*sg.Node{{Kind: "leaf", Name: "opev", Type: str}}},
				&sg.Notif{Name: "opntf2", Kids: []*sg.Node{{Kind: "container", Name: "opc", Kids: []*sg.Node{{Kind: "leaf", Name: "opev2", Type: str}}}}})
		}
		for _, r := range m0.Rpcs {
			if g.Chance(1, 2, "rpcns") {
				c.OpsNS = append(c.OpsNS, "rpc:"+r.Name)
			}
		}
		for _, n := range m0.Notifs {
			if g.Chance(1, 2, "notifns") {
				c.OpsNS = append(c.OpsNS, "notif:"+n.Name)
			}
		}
	}
	return c
}

// configTrueAt: the effective config of the node is true (no config false on it or above it)
func configTrueAt(m *sg.Mod, r sg.NodeRef) bool {
	kids := m.Nodes
	for _, name := range r.Path {
		var next *sg.Node
		for _, k := range kids {
			if k.Name == name {
				next = k
			}
		}
		if next == nil {
			// shorthand case level: same name repeated
			continue
		}
		if next.Config == "false" {
			return false
		}
		kids = next.Kids
	}
	// descendants with explicit config are all "false" in this generator: adding config false above them is fine
	return true
}

func removeNode(m *sg.Mod, r sg.NodeRef) {
	repl := func(kids []*sg.Node) []*sg.Node {
		var out []*sg.Node
		for _, k := range kids {
			if k == r.Node {
				if r.Parent != nil && r.Parent.Kind == "choice" && k.Kind != "case" {
					out = append(out, &sg.Node{Kind: "case", Name: k.Name}) // the implicit case stays, empty
				}
				continue
			}
			out = append(out, k)
		}
		return out
	}
	if r.Parent == nil {
		m.Nodes = repl(m.Nodes)
	} else {
		r.Parent.Kids = repl(r.Parent.Kids)
	}
}

func checkDev(c DevCase) fw.Outcome {
	out := fw.Outcome{Key: fmt.Sprint(c.Devs) + texts(c.Mods)}
	if len(c.Devs) == 0 && len(c.OpsNS) == 0 {
		out.Skip = true
		return out
	}
	edited := sg.Clone(c.Mods)
	uniqueNodes = map[*sg.Node]bool{}
	erefs, ehome := devRefs(edited)
	for _, h := range ehome {
		noteUniques(edited[h].Nodes)
	}
	orefs, _ := devRefs(c.Mods)
	dev := &sg.Mod{Name: "mdev", Prefix: "mdev", Imports: []sg.Import{{Mod: c.Mods[0].Name, Prefix: c.Mods[0].Prefix}}}
	if c.ExtNote {
		out.Labels = append(out.Labels, "extension-in-deviate")
		dev.Raw = []string{"extension note { argument text; }"}
	}
	plainDev := sg.Clone(dev)
	belowUses := false
	for _, e := range c.Devs {
		if e.Target >= len(erefs) {
			out.Skip = true
			return out
		}
		out.Labels = append(out.Labels, "deviate:"+e.Kind+":"+e.Prop)
		stmt, remove := applyEdit(erefs[e.Target], e)
		d := sg.Deviate{Kind: e.Kind}
		if stmt != "" {
			d.Stmts = []string{stmt}
		}
		if c.ExtNote {
			d.Stmts = append([]string{`mdev:note "why";`}, d.Stmts...)
		}
		dev.Deviations = append(dev.Deviations, &sg.Deviation{Target: orefs[e.Target].AbsPath(c.Mods[0].Prefix), Deviates: []sg.Deviate{d}})
		if remove {
			removeNode(edited[ehome[e.Target]], erefs[e.Target])
			if ehome[e.Target] != 0 {
				out.Labels = append(out.Labels, "target-in-submodule")
			}
		}
		if len(orefs[e.Target].Path) >= 3 {
			belowUses = true
		}
	}
	for _, op := range c.OpsNS {
		kind, name, _ := strings.Cut(op, ":")
		out.Labels = append(out.Labels, "deviate:not-supported:"+kind)
		d := sg.Deviate{Kind: "not-supported"}
		if c.ExtNote {
			d.Stmts = []string{`mdev:note "why";`}
		}
		dev.Deviations = append(dev.Deviations, &sg.Deviation{Target: "/" + c.Mods[0].Prefix + ":" + name, Deviates: []sg.Deviate{d}})
		e0 := edited[0]
		if kind == "rpc" {
			var keep []*sg.Rpc
			for _, r := range e0.Rpcs {
				if r.Name != name {
					keep = append(keep, r)
				}
			}
			e0.Rpcs = keep
		} else {
			var keep []*sg.Notif
			for _, n := range e0.Notifs {
				if n.Name != name {
					keep = append(keep, n)
				}
			}
			e0.Notifs = keep
		}
	}
	out.NonTrivial = belowUses || len(c.Devs)+len(c.OpsNS) >= 2
	g := append(sg.Clone(c.Mods), dev)
	if c.InSub {
		out.Labels = append(out.Labels, "written-in-submodule")
		dsub := &sg.Mod{Name: "mdev-sub", Prefix: "mdev", BelongsTo: "mdev", Imports: dev.Imports, Deviations: dev.Deviations}
		dev.Imports, dev.Deviations, dev.Includes = nil, nil, []string{"mdev-sub"}
		g = append(g, dsub)
	}
	i := append(edited, plainDev)
	if c.InSub {
		// the edited twin has the same (empty) submodule, so that the two module sets list the same members
		plainDev.Includes = []string{"mdev-sub"}
		i = append(i, &sg.Mod{Name: "mdev-sub", Prefix: "mdev", BelongsTo: "mdev"})
	}
	if compare(&out, "deviation", g, i, sgc.Opts{Features: sgc.AllFeatures{}}, sgc.Opts{Features: sgc.AllFeatures{}}, canon.Opts{NoDeviations: true, MaskXPathNS: true}) {
		res := sgc.Compile(g, sgc.Opts{Features: sgc.AllFeatures{}})
		got := res.MS.Modules()[c.Mods[0].Name].Deviations()
		if len(got) != 1 || got[0] != "mdev" {
			out.Violation = fmt.Sprintf("module %s reports deviations %v, want [mdev]\n%s", c.Mods[0].Name, got, texts(g))
		}
	}
	return out
}

var devProp = fw.Register(&fw.Prop[DevCase]{
	ID: "C14", Name: "deviation",
	Rule: "generated base modules and a deviating module with 1-3 deviations on generated targets (paths through containers, lists, choices and cases; rpcs and notifications for not-supported): not-supported, add (units, default, mandatory, must, " +
		"min/max-elements, config, unique), replace (units, default, mandatory, type, min/max-elements, config), delete (units, default, must, unique); oracle (metamorphic): base + deviating module compiles to the same schema " +
		"as the base with its source edited accordingly (Deviations() attribute compared separately); non-trivial = a target at depth >= 3 or at least two deviations",
	Gen: genDev, Check: checkDev,
})

func TestDeviation(t *testing.T) { fw.Run(t, devProp) }
