// Package vt is the harness's reference model of YANG value spaces (RFC 6020
// section 9): exact interval sets over big.Int (decimal64 as scaled integers),
// length interval sets and anchored patterns for strings, name sets for
// enumerations and identityrefs.  It imports nothing from the repository.
package vt

import (
	"fmt"
	"math/big"
	"regexp"
	"strings"
	"unicode/utf8"
)

// Iv is a closed interval.
type Iv struct{ Lo, Hi *big.Int }

func (i Iv) String() string { return i.Lo.String() + ".." + i.Hi.String() }

// Space is a value space.
type Space struct {
	Kind     string // int uint decimal64 string boolean empty enumeration identityref union
	Bits     int
	FD       int
	Ranges   []Iv             // int/uint/decimal64 (scaled)
	Lengths  []Iv             // string
	Patterns []*regexp.Regexp // string, each anchored; all must match
	Names    []string         // enumeration, identityref
	Members  []*Space         // union
}

func bi(s string) *big.Int {
	v, ok := new(big.Int).SetString(s, 10)
	if !ok {
		panic("bad int " + s)
	}
	return v
}

func pow10(n int) *big.Int { return new(big.Int).Exp(big.NewInt(10), big.NewInt(int64(n)), nil) }

// Builtin returns the value space of a built-in type.
func Builtin(name string, fd int) *Space {
	switch name {
	case "int8", "int16", "int32", "int64":
		bits := map[string]int{"int8": 8, "int16": 16, "int32": 32, "int64": 64}[name]
		hi := new(big.Int).Sub(new(big.Int).Lsh(big.NewInt(1), uint(bits-1)), big.NewInt(1))
		lo := new(big.Int).Neg(new(big.Int).Lsh(big.NewInt(1), uint(bits-1)))
		return &Space{Kind: "int", Bits: bits, Ranges: []Iv{{lo, hi}}}
	case "uint8", "uint16", "uint32", "uint64":
		bits := map[string]int{"uint8": 8, "uint16": 16, "uint32": 32, "uint64": 64}[name]
		hi := new(big.Int).Sub(new(big.Int).Lsh(big.NewInt(1), uint(bits)), big.NewInt(1))
		return &Space{Kind: "uint", Bits: bits, Ranges: []Iv{{big.NewInt(0), hi}}}
	case "decimal64":
		hi := bi("9223372036854775807")
		lo := bi("-9223372036854775808")
		return &Space{Kind: "decimal64", FD: fd, Ranges: []Iv{{lo, hi}}}
	case "string":
		// the implementation's documented limit for string lengths is 2^32-1 (RFC 6020 only says that more than
		// 18446744073709551615 need not be supported); lengths beyond it are not generated
		return &Space{Kind: "string", Lengths: []Iv{{big.NewInt(0), bi("4294967295")}}}
	case "boolean":
		return &Space{Kind: "boolean"}
	case "empty":
		return &Space{Kind: "empty"}
	}
	return nil
}

var intRe = regexp.MustCompile(`^[+-]?[0-9]+$`)
var decRe = regexp.MustCompile(`^[+-]?[0-9]+(\.[0-9]+)?$`)

// ParseScaled parses a decimal lexical form into an integer scaled by 10^fd.
// ok is false when the text is not a decimal number or has more than fd fraction digits.
func ParseScaled(s string, fd int) (*big.Int, bool) {
	if !decRe.MatchString(s) {
		return nil, false
	}
	neg := strings.HasPrefix(s, "-")
	t := strings.TrimLeft(s, "+-")
	ip, fp := t, ""
	if i := strings.Index(t, "."); i >= 0 {
		ip, fp = t[:i], t[i+1:]
	}
	if len(fp) > fd {
		return nil, false
	}
	fp += strings.Repeat("0", fd-len(fp))
	v := bi(ip + fp)
	if neg {
		v.Neg(v)
	}
	return v, true
}

func inIvs(v *big.Int, ivs []Iv) bool {
	for _, iv := range ivs {
		if v.Cmp(iv.Lo) >= 0 && v.Cmp(iv.Hi) <= 0 {
			return true
		}
	}
	return false
}

// Contains reports whether the string is a lexical representation of a value of the space.
func (sp *Space) Contains(s string) bool {
	switch sp.Kind {
	case "int", "uint":
		if !intRe.MatchString(s) {
			return false
		}
		if len(s) > 40 {
			return false
		}
		return inIvs(bi(strings.TrimPrefix(s, "+")), sp.Ranges)
	case "decimal64":
		v, ok := ParseScaled(s, sp.FD)
		if !ok || len(s) > 60 {
			return false
		}
		return inIvs(v, sp.Ranges)
	case "string":
		if !utf8.ValidString(s) {
			return false
		}
		if !inIvs(big.NewInt(int64(utf8.RuneCountInString(s))), sp.Lengths) {
			return false
		}
		for _, p := range sp.Patterns {
			if !p.MatchString(s) {
				return false
			}
		}
		return true
	case "boolean":
		return s == "true" || s == "false"
	case "empty":
		return s == ""
	case "enumeration", "identityref":
		for _, n := range sp.Names {
			if n == s {
				return true
			}
		}
		return false
	case "union":
		for _, m := range sp.Members {
			if m.Contains(s) {
				return true
			}
		}
		return false
	}
	return false
}

// Clone copies the space.
func (sp *Space) Clone() *Space {
	c := *sp
	c.Ranges = append([]Iv(nil), sp.Ranges...)
	c.Lengths = append([]Iv(nil), sp.Lengths...)
	c.Patterns = append([]*regexp.Regexp(nil), sp.Patterns...)
	c.Names = append([]string(nil), sp.Names...)
	return &c
}

// parseBoundary: min / max / number, relative to the base intervals; scaled by 10^fd.
func parseBoundary(tok string, base []Iv, fd int, decimal bool) (*big.Int, error) {
	tok = strings.TrimSpace(tok)
	switch tok {
	case "min":
		return base[0].Lo, nil
	case "max":
		return base[len(base)-1].Hi, nil
	}
	if decimal {
		v, ok := ParseScaled(tok, fd)
		if !ok {
			return nil, fmt.Errorf("bad decimal boundary %q", tok)
		}
		return v, nil
	}
	if !regexp.MustCompile(`^-?(0|[1-9][0-9]*)$`).MatchString(tok) {
		return nil, fmt.Errorf("bad integer boundary %q", tok)
	}
	return bi(tok), nil
}

// Restrict applies a range (or length) expression to base intervals following
// RFC 6020 9.2.4 / 9.4.4: parts ascending and disjoint, each part within the
// base; 'contiguous' says whether a part may span base parts that touch
// (integers and lengths: yes; decimal64: no).
func Restrict(expr string, base []Iv, fd int, decimal bool, contiguous bool) ([]Iv, error) {
	var out []Iv
	for _, part := range strings.Split(expr, "|") {
		bs := strings.Split(part, "..")
		if len(bs) > 2 {
			return nil, fmt.Errorf("bad part %q", part)
		}
		lo, err := parseBoundary(bs[0], base, fd, decimal)
		if err != nil {
			return nil, err
		}
		hi := lo
		if len(bs) == 2 {
			hi, err = parseBoundary(bs[1], base, fd, decimal)
			if err != nil {
				return nil, err
			}
		}
		if lo.Cmp(hi) > 0 {
			return nil, fmt.Errorf("part %q: lower bound above upper bound", part)
		}
		if len(out) > 0 && lo.Cmp(out[len(out)-1].Hi) <= 0 {
			return nil, fmt.Errorf("part %q: not ascending / overlapping", part)
		}
		// within the base
		if !within(lo, hi, base, contiguous) {
			return nil, fmt.Errorf("part %q is not within the base %v", part, base)
		}
		out = append(out, Iv{lo, hi})
	}
	return out, nil
}

func within(lo, hi *big.Int, base []Iv, contiguous bool) bool {
	one := big.NewInt(1)
	for i, b := range base {
		if lo.Cmp(b.Lo) < 0 || lo.Cmp(b.Hi) > 0 {
			continue
		}
		// lo is inside b; extend over touching parts if allowed
		end := b.Hi
		for j := i + 1; contiguous && j < len(base); j++ {
			if new(big.Int).Add(end, one).Cmp(base[j].Lo) == 0 {
				end = base[j].Hi
			} else {
				break
			}
		}
		return hi.Cmp(end) <= 0
	}
	return false
}

// Anchored compiles an XSD-style pattern (implicitly anchored) for the sub-language on which XSD and RE2 agree.
func Anchored(p string) *regexp.Regexp {
	return regexp.MustCompile(`^(?:` + basicLatin(p) + `)$`)
}

// basicLatin writes the block escape \p{IsBasicLatin} of XML Schema (which RE2 does not know) as the range it stands for:
// as a class of its own outside of a bracket expression, as a range inside of one.
func basicLatin(p string) string {
	const esc = `\p{IsBasicLatin}`
	var b strings.Builder
	inClass := false
	for i := 0; i < len(p); {
		switch {
		case strings.HasPrefix(p[i:], esc):
			if inClass {
				b.WriteString(`\x{00}-\x{7F}`)
			} else {
				b.WriteString(`[\x{00}-\x{7F}]`)
			}
			i += len(esc)
		case p[i] == '\\' && i+1 < len(p):
			b.WriteString(p[i : i+2])
			i += 2
		default:
			if p[i] == '[' {
				inClass = true
			} else if p[i] == ']' {
				inClass = false
			}
			b.WriteByte(p[i])
			i++
		}
	}
	return b.String()
}

// GenPattern draws a pattern from a small regular-expression grammar on which XSD and RE2 agree
// (literals a b c, '.', classes, groups, alternation at every level including the top, quantifiers).
func GenPattern(pick func(n int, label string) int, depth int) string {
	var alt func(d int) string
	atom := func(d int) string {
		k := pick(8, "atom")
		if d <= 0 && k == 7 {
			k = 0
		}
		switch k {
		case 0, 1:
			return "a"
		case 2:
			return "b"
		case 3:
			return "c"
		case 4:
			return "."
		case 5:
			return "[ab]"
		case 6:
			return "[^a]"
		default:
			return "(" + alt(d-1) + ")"
		}
	}
	branch := func(d int) string {
		n := 1 + pick(3, "npieces")
		s := ""
		for i := 0; i < n; i++ {
			s += atom(d) + []string{"", "", "", "*", "+", "?", "{1,2}", "{2}"}[pick(8, "quant")]
		}
		return s
	}
	alt = func(d int) string {
		n := 1 + pick(3, "nbranches")
		s := branch(d)
		for i := 1; i < n; i++ {
			s += "|" + branch(d)
		}
		return s
	}
	if pick(6, "parenalt") == 2 {
		// alternation of parenthesised branches: the whole pattern starts with '(' and ends with ')' although the
		// parentheses do not enclose it
		return "(" + branch(depth-1) + ")|(" + branch(depth-1) + ")"
	}
	return alt(depth)
}

// SmallStrings returns every string of length 0..n over the alphabet.
func SmallStrings(alphabet string, n int) []string {
	out := []string{""}
	level := []string{""}
	for i := 0; i < n; i++ {
		var next []string
		for _, s := range level {
			for _, c := range alphabet {
				next = append(next, s+string(c))
			}
		}
		out = append(out, next...)
		level = next
	}
	return out
}
