// Package c20: schema filters prune top-down and change nothing else.
package c20

import (
	"fmt"
	"strings"
	"testing"

	"verifharness/canon"
	"verifharness/fw"
	"verifharness/sg"
	"verifharness/sgc"

	"github.com/sdcio/yang-parser/compile"
	"github.com/sdcio/yang-parser/schema"
	"pgregory.net/rapid"
)

type Case struct {
	Mods   []*sg.Mod `json:"mods"`
	Filter int       `json:"filter"`
	// Again: 0 no; k > 0: the parse trees are compiled a second time - without a filter after a compile with the filter,
	// and with the filter after a compile with filter number k-1
	Again int `json:"again,omitempty"`
}

// the harness's own copy of the three predicates, as functions of the dumped kind and config flag
func pConfig(n schema.Node) bool { return n.Config() }
func pOpd(n schema.Node) bool    { return canon.KindOf(n) == "opd" }
func pState(n schema.Node) bool  { return !pConfig(n) && !pOpd(n) }

type filt struct {
	name string
	impl compile.SchemaFilter
	ref  func(schema.Node) bool
}

func anyOf(ps ...func(schema.Node) bool) func(schema.Node) bool {
	return func(n schema.Node) bool {
		for _, p := range ps {
			if p(n) {
				return true
			}
		}
		return false
	}
}
func noneOf(ps ...func(schema.Node) bool) func(schema.Node) bool {
	a := anyOf(ps...)
	return func(n schema.Node) bool { return !a(n) }
}

var filters []filt

func init() {
	impls := []compile.SchemaFilter{compile.IsConfig, compile.IsState, compile.IsOpd}
	refs := []func(schema.Node) bool{pConfig, pState, pOpd}
	names := []string{"IsConfig", "IsState", "IsOpd"}
	filters = append(filters,
		filt{"IsConfig", compile.IsConfig, pConfig},
		filt{"IsState", compile.IsState, pState},
		filt{"IsOpd", compile.IsOpd, pOpd},
		filt{"IsConfigOrState()", compile.IsConfigOrState(), anyOf(pConfig, pState)},
		filt{"IncludeState(true)", compile.IncludeState(true), pState},
		filt{"IncludeState(false)", compile.IncludeState(false), noneOf(pState)},
		filt{"Include(IsConfig,IncludeState(true))", compile.Include(compile.IsConfig, compile.IncludeState(true)), anyOf(pConfig, pState)},
		filt{"Include(IsConfig,IncludeState(false))", compile.Include(compile.IsConfig, compile.IncludeState(false)), anyOf(pConfig, noneOf(pState))},
	)
	for mask := 0; mask < 8; mask++ {
		var is []compile.SchemaFilter
		var rs []func(schema.Node) bool
		var ns []string
		for b := 0; b < 3; b++ {
			if mask&(1<<b) != 0 {
				is = append(is, impls[b])
				rs = append(rs, refs[b])
				ns = append(ns, names[b])
			}
		}
		filters = append(filters,
			filt{"Include(" + strings.Join(ns, ",") + ")", compile.Include(is...), anyOf(rs...)},
			filt{"Exclude(" + strings.Join(ns, ",") + ")", compile.Exclude(is...), noneOf(rs...)})
	}
}

func genCase(t *rapid.T) Case {
	g := &sg.G{T: t, Cfg: sg.GenCfg{ConfigFalse: true, MaxMods: 3}}
	c := Case{Mods: g.GenSet(), Filter: g.Pick(len(filters), "filter")}
	if g.Chance(1, 3, "again") {
		c.Again = 1 + g.Pick(len(filters), "againfilter")
	}
	// operational command trees: a third class of nodes next to configuration and state
	for i, m := range c.Mods {
		if m.BelongsTo != "" || !g.Chance(1, 2, "opd") {
			continue
		}
		n := 0
		var cmd func(depth int, ind string) string
		cmd = func(depth int, ind string) string {
			n++
			out := fmt.Sprintf("%sopd:command cmd%d-%d {\n", ind, i, n)
			k := g.Pick(4, "opdkids")
			for j := 0; j < k; j++ {
				n++
				switch g.Pick(3, "opdkind") {
				case 0:
					out += fmt.Sprintf("%s  opd:option opt%d-%d { type string; }\n", ind, i, n)
				case 1:
					out += fmt.Sprintf("%s  opd:argument arg%d-%d {\n%s    type string;\n", ind, i, n, ind)
					if g.Bool("argopt") {
						n++
						out += fmt.Sprintf("%s    opd:option opt%d-%d { type string; }\n", ind, i, n)
					}
					out += ind + "  }\n"
				default:
					if depth > 0 {
						out += cmd(depth-1, ind+"  ")
					}
				}
			}
			return out + ind + "}"
		}
		m.Raw = append(m.Raw, cmd(2, ""))
	}
	if g.Chance(1, 3, "thinmodule") {
		// a module whose top level holds nothing but choices (and perhaps a state container): under a configuration
		// filter the members of a choice may all go while the choice itself, which is config true, stays
		str := func() *sg.TypeSpec { return &sg.TypeSpec{Name: "string"} }
		mz := &sg.Mod{Name: "mz", Prefix: "mz"}
		nch := 1 + g.Pick(2, "thinchoices")
		for i := 0; i < nch; i++ {
			ch := &sg.Node{Kind: "choice", Name: fmt.Sprintf("mz-ch%d", i)}
			for j, nc := 0, 1+g.Pick(2, "thincases"); j < nc; j++ {
				var member *sg.Node
				if g.Bool("thinmember") {
					member = &sg.Node{Kind: "leaf", Name: fmt.Sprintf("mz-l%d%d", i, j), Type: str()}
				} else {
					member = &sg.Node{Kind: "container", Name: fmt.Sprintf("mz-c%d%d", i, j), Kids: []*sg.Node{{Kind: "leaf", Name: "x", Type: str()}}}
				}
				if g.Chance(3, 4, "thinstate") {
					member.Config = "false"
				}
				ch.Kids = append(ch.Kids, &sg.Node{Kind: "case", Name: fmt.Sprintf("mz-cs%d%d", i, j), Kids: []*sg.Node{member}})
			}
			mz.Nodes = append(mz.Nodes, ch)
		}
		if g.Chance(1, 3, "thinstatetop") {
			mz.Nodes = append(mz.Nodes, &sg.Node{Kind: "container", Name: "mz-state", Config: "false", Kids: []*sg.Node{{Kind: "leaf", Name: "x", Type: str()}}})
		}
		c.Mods = append(c.Mods, mz)
	}
	if g.Chance(1, 3, "augmentedchoice") {
		// a choice in one module, to which another module's augment adds cases in the short form (a node written
		// directly under the choice) and in the long form; members are state or configuration: a case that survives a
		// filter is the same node as without the filter, also when its member has gone
		str := func() *sg.TypeSpec { return &sg.TypeSpec{Name: "string"} }
		my := &sg.Mod{Name: "my", Prefix: "my", Nodes: []*sg.Node{{Kind: "container", Name: "my-top", Kids: []*sg.Node{
			{Kind: "choice", Name: "my-ch", Kids: []*sg.Node{{Kind: "leaf", Name: "my-own", Type: str()}}}}}}}
		mx := &sg.Mod{Name: "mx", Prefix: "mx", Imports: []sg.Import{{Mod: "my", Prefix: "my"}}}
		aug := &sg.Augment{Target: "/my:my-top/my:my-ch"}
		for j, n := 0, 1+g.Pick(3, "augcases"); j < n; j++ {
			var member *sg.Node
			if g.Bool("augmember") {
				member = &sg.Node{Kind: "leaf", Name: fmt.Sprintf("mx-l%d", j), Type: str()}
			} else {
				member = &sg.Node{Kind: "container", Name: fmt.Sprintf("mx-c%d", j), Kids: []*sg.Node{{Kind: "leaf", Name: "x", Type: str()}}}
			}
			if g.Chance(2, 3, "augstate") {
				member.Config = "false"
			}
			if g.Bool("auglongform") {
				member = &sg.Node{Kind: "case", Name: fmt.Sprintf("mx-cs%d", j), Kids: []*sg.Node{member}}
			}
			aug.Kids = append(aug.Kids, member)
		}
		mx.Augments = []*sg.Augment{aug}
		c.Mods = append(c.Mods, my, mx)
	}
	return c
}

func countNodes(ms schema.ModelSet, keep func(schema.Node) bool) (kept, removed, keptWithKids int) {
	var walk func(n schema.Node)
	walk = func(n schema.Node) {
		if !keep(n) {
			removed++
			return
		}
		kept++
		if len(n.Children()) > 0 {
			keptWithKids++
		}
		// (counting only: a node below a rejected top-level choice is counted as kept although it goes with the choice)
		for _, c := range n.Children() {
			walk(c)
		}
	}
	for _, c := range ms.Children() {
		walk(c)
	}
	return
}

func checkCase(c Case) fw.Outcome {
	f := filters[c.Filter%len(filters)]
	out := fw.Outcome{Labels: []string{"filter:" + f.name}}
	plain := sgc.Compile(c.Mods, sgc.Opts{Features: sgc.AllFeatures{}})
	filtered := sgc.Compile(c.Mods, sgc.Opts{Features: sgc.AllFeatures{}, Filter: f.impl})
	var texts []string
	for _, m := range c.Mods {
		texts = append(texts, m.Text())
	}
	src := strings.Join(texts, "\n")
	out.Key = f.name + "|" + src
	for _, r := range []sgc.Result{plain, filtered} {
		if r.Hang || r.Panic != "" {
			out.Violation = fmt.Sprintf("compile with filter %s: %s\n%s", f.name, r.Describe(), src)
			return out
		}
	}
	if !plain.OK() {
		out.Labels = append(out.Labels, "unfiltered-rejected")
		if filtered.OK() {
			// pruning may remove the offending node; nothing is claimed for sets that do not compile unfiltered
			out.Skip = true
		}
		out.Skip = true
		return out
	}
	if !filtered.OK() {
		out.Violation = fmt.Sprintf("the set compiles without a filter but not with %s: %s\n%s", f.name, filtered.Describe(), src)
		return out
	}
	kept, removed, keptWithKids := countNodes(plain.MS, f.ref)
	out.NonTrivial = removed >= 1 && keptWithKids >= 1
	_ = kept
	opts := canon.Opts{XPathListing: true, ChoiceNS: true}
	want := canon.Dump(plain.MS, canon.Opts{Prune: f.ref, XPathListing: true, ChoiceNS: true})
	got := canon.Dump(filtered.MS, opts)
	if got != want {
		out.Violation = fmt.Sprintf("filter %s: compiled-with-filter differs from pruned unfiltered schema\n%s\nmodules:\n%s", f.name, firstDiff(want, got), src)
		return out
	}
	if c.Again > 0 {
		// a filter decides what goes into the schema it is given to; it changes nothing else, the parsed modules included.
		// Parse trees may be compiled again (compile.CompileDirKeepMods hands them back); what a second compilation gives
		// is not the subject here (with submodules it fails, filter or no filter) - only that it does not depend on the
		// filter the first compilation ran with.
		other := filters[(c.Again-1)%len(filters)]
		for _, second := range []filt{{name: "no filter"}, f, other} {
			base := sgc.Compile(c.Mods, sgc.Opts{Features: sgc.AllFeatures{}, Filter: second.impl, HasPrior: true, PriorFilters: []compile.SchemaFilter{nil}})
			if !base.OK() {
				out.Labels = append(out.Labels, "second-compilation-fails")
				continue
			}
			out.Labels = append(out.Labels, "compiled-again")
			for _, first := range []filt{f, other} {
				after := sgc.Compile(c.Mods, sgc.Opts{Features: sgc.AllFeatures{}, Filter: second.impl, HasPrior: true, PriorFilters: []compile.SchemaFilter{first.impl}})
				if !after.OK() {
					out.Violation = fmt.Sprintf("parsed modules that were compiled without a filter compile again with %s; after a compilation with %s they do not: %s\n%s", second.name, first.name, after.Describe(), src)
					return out
				}
				if a, b := canon.Dump(base.MS, opts), canon.Dump(after.MS, opts); a != b {
					out.Violation = fmt.Sprintf("second compilation (%s) of parsed modules: after a first compilation with %s the schema differs from the one after a first compilation without a filter\n%s\nmodules:\n%s",
						second.name, first.name, firstDiff(a, b), src)
					return out
				}
			}
		}
	}
	return out
}

func firstDiff(a, b string) string {
	la, lb := strings.Split(a, "\n"), strings.Split(b, "\n")
	for i := 0; i < len(la) && i < len(lb); i++ {
		if la[i] != lb[i] {
			return fmt.Sprintf("line %d:\n  pruned:   %s\n  filtered: %s", i+1, la[i], lb[i])
		}
	}
	return fmt.Sprintf("lengths differ: pruned %d vs filtered %d lines", len(la), len(lb))
}

var prune = fw.Register(&fw.Prop[Case]{
	ID: "C20", Name: "prune",
	Rule: "compilable module sets with mixed config (config false subtrees at random nodes, lists with state children, choices, rpcs/notifications, augments, uses) x the enumerated filter family " +
		"{IsConfig, IsState, IsOpd, IsConfigOrState(), IncludeState(b), Include(S), Exclude(S) for every subset S, Include(IsConfig, IncludeState(b))} (24 filters); " +
		"oracle (metamorphic): canonical dump of compile-with-filter equals the dump of the unfiltered compile pruned top-down with the harness's own copy of the predicate; every attribute of the survivors is compared; " +
		"in a third of the cases the parsed modules are compiled twice: the schema of the second compilation (without a filter, with the filter, with another filter) is the same whether the first one ran without a filter, with the filter or with another one; " +
		"non-trivial = the filter removes at least one node and keeps at least one node with children; distinct by (filter, module texts)",
	Gen: genCase, Check: checkCase,
})

func TestMain(m *testing.M) { fw.Main(m) }

func TestPrune(t *testing.T) { fw.Run(t, prune) }
