package yg

import (
	"strings"

	"pgregory.net/rapid"
)

// G wraps a rapid.T with the drawing helpers of the YANG text generators.
type G struct {
	T *rapid.T
	// knobs
	NoComments bool
	NoTabs     bool
	// BackslashR: `\r` is among the backslash sequences that are ordinary text (RFC 6020 6.1.3 substitutes \n \t \" \\ only)
	BackslashR bool
	// Abut: a comment may stand directly behind an unquoted argument (RFC 6020 6.1.3: an unquoted string holds no
	// comment opener, so the comment ends it); the statement is then marked Abut
	Abut bool
}

// StartsWithComment tells whether the trivia begins with a comment opener.
func StartsWithComment(t string) bool { return strings.HasPrefix(t, "/*") || strings.HasPrefix(t, "//") }

// Abuts tells whether the trivia t2 can stand directly behind the unquoted argument raw: it begins with a comment, and
// the last character of the argument does not form a comment opener of its own with the first character of the trivia
func Abuts(raw, t2 string) bool { return StartsWithComment(t2) && !strings.HasSuffix(raw, "/") }

func (g *G) Pick(n int, l string) int { return rapid.IntRange(0, n-1).Draw(g.T, l) }

var commentBodies = []string{"", " c ", "x", " ; ", " { ", " } ", " \"q\" ", " 'q' ", " + ", "é", " a;b{c}d ", " * / ", "/", " leaf x; ",
	// a carriage return that no line feed follows is a character of the comment like any other
	" old\rleaf hidden { type string; } ", "\r", " a\rb "}

// Trivia draws a run of blanks, line breaks and comments.  needBlankFirst:
// the previous token is unquoted, so a comment must not follow it directly.
func (g *G) Trivia(needBlankFirst bool, maxElems int) string {
	n := g.Pick(maxElems+1, "ntrivia")
	var b strings.Builder
	for i := 0; i < n; i++ {
		k := g.Pick(10, "trivia")
		if g.NoComments && k >= 7 {
			k = 0
		}
		if g.NoTabs && k == 2 {
			k = 0
		}
		if i == 0 && needBlankFirst && k >= 7 && !(g.Abut && g.Pick(2, "abut") == 1) {
			b.WriteByte(' ')
		}
		switch k {
		case 0, 1:
			b.WriteString(" ")
		case 2:
			b.WriteString("\t")
		case 3, 4:
			b.WriteString("\n")
		case 5:
			b.WriteString("\r\n")
		case 6:
			b.WriteString("  ")
		case 7, 8:
			b.WriteString("/*" + commentBodies[g.Pick(len(commentBodies), "cbody")] + "*/")
		default:
			b.WriteString("//" + commentBodies[g.Pick(len(commentBodies), "lbody")] + "\n")
		}
	}
	return b.String()
}

// Sep is trivia that starts with a blank (keyword / argument separator).
func (g *G) Sep() string {
	first := []string{" ", " ", "\t", "\n", "  ", "\r\n"}[g.Pick(6, "sep")]
	if g.NoTabs && first == "\t" {
		first = " "
	}
	return first + g.Trivia(false, 2)
}

var words = []string{"+5", "+", "a+b", "a", "abc", "x1", "foo-bar", "é", "日本", "a.b", "urn:x", "10", "-1", "k=v", "p:q", "*", "a/b", "[1]", "(x)", "$", "~",
	// RFC 6020 6.1.3 lets an unquoted string hold an apostrophe (only blanks, ";", "{", "}" and comment openers force
	// quoting); it must not come first, where it would open a single-quoted string
	"o'clock", "x'", "a''b", "k='v'",
	// blanks other than space, tab and line breaks are ordinary characters of an unquoted string
	"ACME\u00a0Net", "a\u3000b", "x\u00a0", "\u00a0y", "v\vw", "f\ff", "l\u2028s", "n\u0085l", "\u202f"}

// UnquotedArg: no blanks, no ; { } quotes, does not start with '+' or a comment opener.
func (g *G) UnquotedArg() string {
	n := 1 + g.Pick(3, "uwords")
	var b strings.Builder
	for i := 0; i < n; i++ {
		b.WriteString(words[g.Pick(len(words), "uword")])
	}
	s := b.String()
	if strings.Contains(s, "//") || strings.Contains(s, "/*") || s == "+" || strings.HasPrefix(s, "'") {
		return "w"
	}
	return s
}

var sqAtoms = []string{"a", "abc", " ", "  ", "\t", ";", "{", "}", "\"", "+", "\\", "\\n", "\\\"", "/* c */", "// c", "é", "日本", "\n", "\r\n", "\n   ", "x y", "="}

// SingleQuoted: anything but a single quote.
func (g *G) SingleQuoted() string {
	n := g.Pick(6, "sqn")
	var b strings.Builder
	for i := 0; i < n; i++ {
		b.WriteString(sqAtoms[g.Pick(len(sqAtoms), "sqatom")])
	}
	return b.String()
}

var dqPlain = []string{"a", "abc", "x", ";", "{", "}", "'", "+", "/* c */", "// c", "é", "日本", "=", "k1", "*/", "/"}
var dqEsc = []string{"\\n", "\\t", "\\\"", "\\\\"}

// a backslash in front of any other character is ordinary text
var dqOdd = []string{"\\d", "\\.", "\\x", "\\'", "\\/", "C:\\dir", "\\é"}

// dqBody: a line body that neither starts nor ends with a blank; escapes only between non-blank atoms.
func (g *G) dqBody() string {
	n := g.Pick(6, "bodyn")
	var atoms []string
	for i := 0; i < n; i++ {
		switch g.Pick(8, "bodykind") {
		case 0:
			if i > 0 && i < n-1 {
				atoms = append(atoms, []string{" ", "  ", "\t", " \t "}[g.Pick(4, "inblank")])
				if g.NoTabs {
					atoms[len(atoms)-1] = " "
				}
				continue
			}
			atoms = append(atoms, "w")
		case 1, 2:
			if g.Pick(5, "oddesc") == 0 {
				if g.BackslashR && g.Pick(4, "oddr") == 0 {
					atoms = append(atoms, "\\r")
					continue
				}
				atoms = append(atoms, dqOdd[g.Pick(len(dqOdd), "odd")])
				continue
			}
			atoms = append(atoms, dqEsc[g.Pick(len(dqEsc), "esc")])
		default:
			atoms = append(atoms, dqPlain[g.Pick(len(dqPlain), "plain")])
		}
	}
	// repair: \n and \t escapes must have non-blank neighbours and not sit at an edge
	isBlank := func(s string) bool { return strings.Trim(s, " \t") == "" }
	for i, a := range atoms {
		if a == "\\n" || a == "\\t" {
			wsEsc := func(s string) bool { return s == "\\n" || s == "\\t" }
			if i == 0 || i == len(atoms)-1 || isBlank(atoms[i-1]) || isBlank(atoms[i+1]) || wsEsc(atoms[i-1]) || wsEsc(atoms[i+1]) {
				atoms[i] = "e"
			}
		}
	}
	// a blank atom at the edges was excluded above; ensure again
	for len(atoms) > 0 && isBlank(atoms[0]) {
		atoms = atoms[1:]
	}
	for len(atoms) > 0 && isBlank(atoms[len(atoms)-1]) {
		atoms = atoms[:len(atoms)-1]
	}
	return strings.Join(atoms, "")
}

// DoubleQuoted draws the raw text of a double-quoted piece: 1-5 lines, each
// indent + body + trailing blanks + break.
func (g *G) DoubleQuoted() string {
	nl := []int{1, 1, 2, 2, 3, 4, 5}[g.Pick(7, "nlines")]
	var b strings.Builder
	for i := 0; i < nl; i++ {
		if i > 0 {
			// indentation of a continuation line
			switch g.Pick(6, "indent") {
			case 0:
			case 1:
				b.WriteString(strings.Repeat(" ", g.Pick(40, "ispaces")))
			case 2:
				if !g.NoTabs {
					b.WriteString(strings.Repeat("\t", 1+g.Pick(3, "itabs")))
				}
				b.WriteString(strings.Repeat(" ", g.Pick(9, "ispaces2")))
			case 3:
				b.WriteString(strings.Repeat(" ", g.Pick(4, "ispaces3")))
				if !g.NoTabs {
					b.WriteString("\t")
				}
			default:
				b.WriteString(strings.Repeat(" ", g.Pick(12, "ispaces4")))
			}
		}
		body := ""
		if g.Pick(6, "blankline") != 0 {
			body = g.dqBody()
		}
		if i == 0 && nl == 1 && g.Pick(3, "lead1") == 0 {
			// single-line strings may have leading / trailing blanks: nothing is stripped
			body = " " + body + "  "
		}
		b.WriteString(body)
		if i < nl-1 {
			tr := []string{"", "", " ", "  ", "\t", " \t"}[g.Pick(6, "trail")]
			if g.NoTabs {
				tr = strings.ReplaceAll(tr, "\t", " ")
			}
			if body != "" && tr == "" && g.Pick(8, "eolbackslash") == 0 {
				// the line ends in a backslash (a shell continuation in a description, a Windows path): ordinary text
				b.WriteString("\\")
			}
			b.WriteString(tr)
			if g.Pick(4, "crlf") == 0 {
				b.WriteString("\r\n")
			} else {
				b.WriteString("\n")
			}
		} else if g.Pick(4, "lasttrail") == 0 {
			b.WriteString("  ")
		}
	}
	return b.String()
}

// Arg draws a quoting plan: 1-4 pieces.
func (g *G) Arg() ([]Piece, []string) {
	n := []int{1, 1, 1, 2, 2, 3, 4}[g.Pick(7, "npieces")]
	var ps []Piece
	var plus []string
	for i := 0; i < n; i++ {
		q := []string{"u", "s", "d", "d", "d"}[g.Pick(5, "quote")]
		if n > 1 && q == "u" {
			q = "d" // concatenation is defined for quoted strings only
		}
		switch q {
		case "u":
			ps = append(ps, Piece{"u", g.UnquotedArg()})
		case "s":
			ps = append(ps, Piece{"s", g.SingleQuoted()})
		default:
			ps = append(ps, Piece{"d", g.DoubleQuoted()})
		}
		if i > 0 {
			plus = append(plus, g.Trivia(false, 2), g.Trivia(false, 2))
		}
	}
	return ps, plus
}

// ExtStmt draws a prefixed extension statement (never cardinality-checked, any argument).
func (g *G) ExtStmt(depth, maxKids int) *Stmt {
	s := &Stmt{Kw: []string{"x:ext", "y:note", "x:a-b", "ex:leaf", "p1:container", "my.ext:note", "_x.y-z:a.b_c"}[g.Pick(7, "extkw")]}
	s.T0 = g.Trivia(false, 3)
	if g.Pick(5, "noarg") != 0 {
		s.Pieces, s.Plus = g.Arg()
		s.T1 = g.Sep()
	}
	last := len(s.Pieces) == 0 || s.Pieces[len(s.Pieces)-1].Q == "u"
	s.T2 = g.Trivia(last, 2)
	s.Abut = last && len(s.Pieces) > 0 && Abuts(s.Pieces[len(s.Pieces)-1].Raw, s.T2)
	if depth > 0 {
		nk := g.Pick(maxKids+1, "nkids")
		for i := 0; i < nk; i++ {
			s.Kids = append(s.Kids, g.ExtStmt(depth-1, maxKids))
		}
	}
	if len(s.Kids) == 0 && g.Pick(4, "emptyblock") == 0 {
		s.Block = true
	}
	if len(s.Kids) > 0 || s.Block {
		s.T3 = g.Trivia(false, 3)
	}
	return s
}
