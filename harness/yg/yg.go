// Package yg is the harness's model of YANG text: abstract statements with a
// concrete layout (trivia at every token boundary, a quoting plan per
// argument), a renderer that records the position of every keyword, and the
// RFC 6020 section 6.1.3 decoder written from the RFC text.  It imports
// nothing from the repository under test.
package yg

import (
	"strings"
)

// Piece is one piece of an argument: unquoted ("u"), single-quoted ("s") or
// double-quoted ("d").  Raw is the source text (between the quotes).
type Piece struct {
	Q   string `json:"q"`
	Raw string `json:"raw"`
}

// Stmt is a statement with its layout.
type Stmt struct {
	Kw     string   `json:"kw"`
	Pieces []Piece  `json:"pieces,omitempty"` // empty: no argument
	Plus   []string `json:"plus,omitempty"`   // trivia before and after each '+': 2 per extra piece
	Kids   []*Stmt  `json:"kids,omitempty"`
	Block  bool     `json:"block,omitempty"` // "{ }" even without substatements
	T0     string   `json:"t0,omitempty"`    // trivia before the keyword
	T1     string   `json:"t1,omitempty"`    // between keyword and argument (forced to contain a separator)
	T2     string   `json:"t2,omitempty"`    // before ';' or '{'
	T3     string   `json:"t3,omitempty"`    // before '}'
	// Abut: T2 starts with a comment and stands directly behind an unquoted argument; a comment opener ends an unquoted
	// string (RFC 6020 6.1.3), so nothing is put between them
	Abut bool `json:"abut,omitempty"`
}

// Info is what the renderer knows about one emitted statement (preorder).
type Info struct {
	Kw     string
	HasArg bool
	Value  string // RFC 6020 value of the argument
	Grey   bool   // the argument touches a stated grey zone of section 6.1.3
	Offset int
	Line   int // 1-based
	Col    int // byte offset in the line
	Depth  int
	NKids  int
}

type renderer struct {
	b     strings.Builder
	infos []Info
}

func isBlankByte(c byte) bool { return c == ' ' || c == '\t' || c == '\n' || c == '\r' }

func startsWithBlank(s string) bool { return s != "" && isBlankByte(s[0]) }

func (r *renderer) pos() (off, line, col int) {
	s := r.b.String()
	off = len(s)
	line = 1 + strings.Count(s, "\n")
	if i := strings.LastIndex(s, "\n"); i >= 0 {
		col = off - i - 1
	} else {
		col = off
	}
	return
}

// quoteWidth: width of the current line up to and including the quote just written (tab = 8).
func (r *renderer) quoteWidth() int {
	s := r.b.String()
	if i := strings.LastIndex(s, "\n"); i >= 0 {
		s = s[i+1:]
	}
	w := 0
	for _, c := range s {
		if c == '\t' {
			w += 8
		} else {
			w++
		}
	}
	return w
}

func (r *renderer) stmt(s *Stmt, depth int) {
	r.b.WriteString(s.T0)
	off, line, col := r.pos()
	r.b.WriteString(s.Kw)
	info := Info{Kw: s.Kw, Offset: off, Line: line, Col: col, Depth: depth, NKids: len(s.Kids), HasArg: len(s.Pieces) > 0}
	lastUnquoted := true // the keyword itself
	if len(s.Pieces) > 0 {
		t1 := s.T1
		if !startsWithBlank(t1) {
			t1 = " " + t1
		}
		r.b.WriteString(t1)
		var val strings.Builder
		for i, p := range s.Pieces {
			if i > 0 {
				pre, post := "", ""
				if 2*(i-1)+1 < len(s.Plus) {
					pre, post = s.Plus[2*(i-1)], s.Plus[2*(i-1)+1]
				}
				r.b.WriteString(pre)
				r.b.WriteString("+")
				r.b.WriteString(post)
			}
			switch p.Q {
			case "u":
				r.b.WriteString(p.Raw)
				val.WriteString(p.Raw)
				lastUnquoted = true
			case "s":
				r.b.WriteString("'" + p.Raw + "'")
				val.WriteString(p.Raw)
				lastUnquoted = false
			default:
				r.b.WriteString("\"")
				qw := r.quoteWidth()
				r.b.WriteString(p.Raw + "\"")
				v, grey := DecodeDQ(p.Raw, qw)
				val.WriteString(v)
				if grey {
					info.Grey = true
				}
				lastUnquoted = false
			}
		}
		info.Value = val.String()
	}
	t2 := s.T2
	if lastUnquoted && t2 != "" && !startsWithBlank(t2) && !s.Abut {
		t2 = " " + t2 // a comment directly after an unquoted token would become part of it
	}
	r.b.WriteString(t2)
	idx := len(r.infos)
	r.infos = append(r.infos, info)
	if len(s.Kids) > 0 || s.Block {
		r.b.WriteString("{")
		for _, k := range s.Kids {
			r.stmt(k, depth+1)
		}
		r.b.WriteString(s.T3)
		r.b.WriteString("}")
	} else {
		r.b.WriteString(";")
	}
	_ = idx
}

// Render produces the text of the statements followed by the trailing trivia.
func Render(stmts []*Stmt, trailing string) (string, []Info) {
	r := &renderer{}
	for _, s := range stmts {
		r.stmt(s, 0)
	}
	r.b.WriteString(trailing)
	return r.b.String(), r.infos
}

// DecodeDQ is RFC 6020 section 6.1.3 for one double-quoted string: raw is the
// source text between the quotes, qw the width of the line up to and including
// the opening quote (a tab counting 8).  grey reports that the input touches a
// case the RFC text does not determine: an escape next to a blank or a line
// edge (order of substitution vs stripping), a backslash in front of a blank,
// a tab that straddles the quote column, a lone CR.  A backslash in front of
// any other character is ordinary text: both characters stay.
func DecodeDQ(raw string, qw int) (val string, grey bool) {
	// split into lines at LF; remember CRLF
	type ln struct {
		text string
		brk  string // "\n", "\r\n" or "" for the last line
	}
	var lines []ln
	rest := raw
	for {
		i := strings.IndexByte(rest, '\n')
		if i < 0 {
			lines = append(lines, ln{text: rest})
			break
		}
		t, brk := rest[:i], "\n"
		if strings.HasSuffix(t, "\r") {
			t, brk = t[:len(t)-1], "\r\n"
		}
		lines = append(lines, ln{t, brk})
		rest = rest[i+1:]
	}
	var out strings.Builder
	for i, l := range lines {
		t := l.text
		if strings.Contains(t, "\r") {
			grey = true // lone CR
		}
		if i > 0 {
			// strip leading blanks up to and including the quote column, or to the first non-blank
			w, j := 0, 0
			for j < len(t) && w < qw {
				if t[j] == ' ' {
					w++
				} else if t[j] == '\t' {
					if w+8 > qw {
						grey = true // the tab straddles the quote column
					}
					w += 8
				} else {
					break
				}
				j++
			}
			t = t[j:]
		}
		if l.brk != "" {
			t = strings.TrimRight(t, " \t")
		}
		// escapes at a line edge or next to a blank: order of substitution and stripping matters
		for k := 0; k < len(t); k++ {
			if t[k] != '\\' {
				continue
			}
			if k+1 >= len(t) {
				// a backslash as the last character of a line: followed by the line break it is no escape and stays as
				// it is (only \n \t \" \\ are substituted); at the very end of the text it cannot occur
				if l.brk == "" {
					grey = true
				}
				break
			}
			e := t[k+1]
			if e != 'n' && e != 't' && e != '"' && e != '\\' && (e == ' ' || e == '\t') {
				grey = true // a backslash in front of a blank: stripping may or may not see that blank
			}
			if e == 'n' || e == 't' {
				before := k == 0 || t[k-1] == ' ' || t[k-1] == '\t'
				after := k+2 >= len(t) || t[k+2] == ' ' || t[k+2] == '\t'
				// a neighbouring \n or \t escape is a blank / line edge after substitution
				if k >= 2 && t[k-2] == '\\' && (t[k-1] == 'n' || t[k-1] == 't') {
					before = true
				}
				if k+3 < len(t) && t[k+2] == '\\' && (t[k+3] == 'n' || t[k+3] == 't') {
					after = true
				}
				if before || after {
					grey = true
				}
			}
			k++
		}
		out.WriteString(t)
		out.WriteString(l.brk)
	}
	// escape substitution
	s := out.String()
	var res strings.Builder
	for k := 0; k < len(s); k++ {
		if s[k] == '\\' && k+1 < len(s) {
			switch s[k+1] {
			case 'n':
				res.WriteByte('\n')
			case 't':
				res.WriteByte('\t')
			case '"':
				res.WriteByte('"')
			case '\\':
				res.WriteByte('\\')
			default:
				res.WriteByte('\\')
				res.WriteByte(s[k+1])
			}
			k++
			continue
		}
		res.WriteByte(s[k])
	}
	return res.String(), grey
}

// Flatten lists the statements in preorder.
func Flatten(stmts []*Stmt) []*Stmt {
	var out []*Stmt
	var walk func(s *Stmt)
	walk = func(s *Stmt) {
		out = append(out, s)
		for _, k := range s.Kids {
			walk(k)
		}
	}
	for _, s := range stmts {
		walk(s)
	}
	return out
}
