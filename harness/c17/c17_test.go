// Package c17: schema path validation walks the tree exactly.
package c17

import (
	"fmt"
	"net/url"
	"strings"
	"testing"

	"verifharness/fw"
	"verifharness/merr"
	"verifharness/sg"
	"verifharness/sgc"
	"verifharness/vt"

	"github.com/sdcio/yang-parser/compile"
	"pgregory.net/rapid"
)

type Case struct {
	Mods  []*sg.Mod  `json:"mods"`
	Paths [][]string `json:"paths"`
	// CfgOnly: the schema is compiled with the configuration-only filter (what a configuration datastore uses); the
	// paths are then walked on the tree without its config false nodes
	CfgOnly bool `json:"cfgonly,omitempty"`
}

type vctx struct{ incomplete bool }

func (v vctx) ErrorHelpText() []string    { return nil }
func (v vctx) AllowIncompletePaths() bool { return v.incomplete }

// effective children of a node: choices and cases are transparent
func effKids(kids []*sg.Node) []*sg.Node {
	var out []*sg.Node
	for _, k := range kids {
		switch k.Kind {
		case "choice", "case":
			out = append(out, effKids(k.Kids)...)
		default:
			out = append(out, k)
		}
	}
	return out
}

// keyLeaf: the leaf the (first) key of a list names - a child of the entry, or (an extension of this implementation) a leaf
// below a container of the entry, named by a descendant path
func keyLeaf(n *sg.Node) *sg.Node {
	var key *sg.Node
	kk := n.Kids
	for _, seg := range strings.Split(n.FirstKey(), "/") {
		key = find(kk, seg)
		if key == nil {
			return nil
		}
		kk = key.Kids
	}
	return key
}

func find(kids []*sg.Node, name string) *sg.Node {
	for _, k := range effKids(kids) {
		if k.Name == name {
			return k
		}
	}
	return nil
}

type verdict struct {
	ok      bool
	at      int    // index of the first offending token (len(tokens) when the path ends too early)
	kind    string // unknown-child bad-value trailing too-short
	unknown bool   // the reference cannot decide (unmodelled type)
}

type world struct {
	mods   []*sg.Mod
	inl    []*sg.Mod
	byName map[string]*sg.Mod
}

func (w *world) space(owner *sg.Mod, n *sg.Node) (*vt.Space, bool) {
	dm := owner
	if n.DefMod != "" {
		dm = w.byName[n.DefMod]
	}
	lm := owner
	if n.NsMod != "" {
		lm = w.byName[n.NsMod]
	}
	return sg.SpaceOf(w.mods, dm, n.Type, lm)
}

func (w *world) walk(owner *sg.Mod, kids []*sg.Node, toks []string, i int, incomplete bool) verdict {
	if i >= len(toks) {
		return verdict{ok: true}
	}
	n := find(kids, toks[i])
	if n == nil {
		return verdict{at: i, kind: "unknown-child"}
	}
	i++
	switch n.Kind {
	case "container":
		if i >= len(toks) {
			if n.Presence != "" || incomplete {
				return verdict{ok: true}
			}
			return verdict{at: i, kind: "too-short"}
		}
		return w.walk(owner, n.Kids, toks, i, incomplete)
	case "list":
		if i >= len(toks) {
			if incomplete {
				return verdict{ok: true}
			}
			return verdict{at: i, kind: "too-short"}
		}
		// (the key may name a leaf below a container of the entry by a descendant path, an extension of this implementation)
		var key *sg.Node
		kk := n.Kids
		for _, seg := range strings.Split(n.FirstKey(), "/") {
			key = find(kk, seg)
			if key == nil {
				return verdict{unknown: true}
			}
			kk = key.Kids
		}
		sp, ok := w.space(owner, key)
		if !ok {
			return verdict{unknown: true}
		}
		if !sp.Contains(toks[i]) {
			return verdict{at: i, kind: "bad-value"}
		}
		i++
		if i >= len(toks) {
			return verdict{ok: true}
		}
		return w.walk(owner, n.Kids, toks, i, incomplete)
	case "leaf", "leaf-list":
		sp, ok := w.space(owner, n)
		if i >= len(toks) {
			if (ok && sp.Kind == "empty" && n.Kind == "leaf") || incomplete {
				return verdict{ok: true}
			}
			if !ok && n.Type != nil && n.Type.Name != "empty" {
				// unmodelled type: still "needs a value"
				return verdict{at: i, kind: "too-short"}
			}
			return verdict{at: i, kind: "too-short"}
		}
		// the value comes first: a value outside the type is the first offending element also when more tokens follow
		if !ok {
			return verdict{unknown: true}
		}
		if !sp.Contains(toks[i]) {
			return verdict{at: i, kind: "bad-value"}
		}
		if i+1 < len(toks) {
			return verdict{at: i + 1, kind: "trailing"}
		}
		return verdict{ok: true}
	}
	return verdict{unknown: true}
}

func (w *world) top() (map[string]*sg.Mod, []*sg.Node) {
	owner := map[string]*sg.Mod{}
	var tops []*sg.Node
	for _, m := range w.inl {
		// (top-level nodes written in a submodule are top-level nodes of the schema like any other; their types resolve in
		// the submodule's scope)
		for _, n := range m.Nodes {
			tops = append(tops, n)
		}
		// (a top-level choice is transparent: its members are first tokens, too)
		for _, n := range effKids(m.Nodes) {
			owner[n.Name] = w.byName[m.Name]
		}
	}
	return owner, tops
}

// member picks a value of the space; half of the time it tries values first that need escaping when they appear as
// an element of a path string ('/', ':', blank, '%', non-ASCII, an already escaped sequence).
func member(g *sg.G, sp *vt.Space) (string, bool) {
	if g.Chance(1, 2, "special") {
		specials := []string{"a/b", "a:b", "a b", "5%", "/", "é/ü", "a%2Fb", "..", "x/y/z", "%", "#?&"}
		off := g.Pick(len(specials), "specialoff")
		for i := range specials {
			if c := specials[(i+off)%len(specials)]; sp.Contains(c) {
				return c, true
			}
		}
	}
	return sg.MemberOf(sp)
}

// randomPath walks the inlined model and returns a complete valid path (as far as member values can be found).
func randomPath(g *sg.G, w *world) []string {
	owners, tops := w.top()
	if len(tops) == 0 {
		return nil
	}
	var toks []string
	kids := tops
	var owner *sg.Mod
	for depth := 0; depth < 8; depth++ {
		ek := effKids(kids)
		if len(ek) == 0 {
			break
		}
		n := ek[g.Pick(len(ek), "step")]
		if depth == 0 {
			owner = owners[n.Name]
		}
		toks = append(toks, n.Name)
		switch n.Kind {
		case "container":
			kids = n.Kids
			if n.Presence != "" && g.Chance(1, 4, "stop") {
				return toks
			}
			continue
		case "list":
			key := keyLeaf(n)
			sp, ok := w.space(owner, key)
			if !ok {
				return toks
			}
			v, ok := member(g, sp)
			if !ok {
				return toks
			}
			toks = append(toks, v)
			kids = n.Kids
			if g.Chance(1, 4, "stopentry") {
				return toks
			}
			continue
		default:
			sp, ok := w.space(owner, n)
			if ok {
				if v, ok := member(g, sp); ok {
					toks = append(toks, v)
				}
			}
			return toks
		}
	}
	return toks
}

func genCase(t *rapid.T) Case {
	g := &sg.G{T: t, Cfg: sg.GenCfg{MaxMods: 2, NoFeatures: true, NoWhenMust: true, NoRpcs: true}}
	// config false subtrees in half of the schemas; half of those compiled with the configuration-only filter
	g.Cfg.ConfigFalse = g.Chance(1, 2, "cfgfalse")
	cfgOnly := g.Cfg.ConfigFalse && g.Chance(1, 2, "cfgonly")
	c := Case{Mods: g.GenSet(), CfgOnly: cfgOnly}
	// status on some nodes, choices and cases included (weakening only): a deprecated or obsolete node is a node of the
	// schema like any other
	var st func(kids []*sg.Node, above string)
	st = func(kids []*sg.Node, above string) {
		for _, k := range kids {
			s := above
			if k.Kind != "uses" && g.Chance(1, 6, "status") {
				opts := []string{"deprecated", "obsolete"}
				if above == "obsolete" {
					opts = []string{"obsolete"}
				}
				k.Status = opts[g.Pick(len(opts), "whichstatus")]
				s = k.Status
			}
			st(k.Kids, s)
		}
	}
	for _, m := range c.Mods {
		st(m.Nodes, "")
	}
	shared := false
	if m0 := c.Mods[0]; m0.BelongsTo == "" && g.Chance(1, 3, "sharedgrouping") {
		// a grouping whose nodes have no body, used twice in its own module; one of the two copies is augmented, the
		// other refined: what is added to one copy is not part of the other
		shared = true
		str := &sg.TypeSpec{Name: "string"}
		m0.Groupings = append(m0.Groupings, &sg.Grouping{Name: "shg", Kids: []*sg.Node{{Kind: "container", Name: "shc"}, {Kind: "container", Name: "shp"},
			{Kind: "choice", Name: "shch", Kids: []*sg.Node{{Kind: "case", Name: "shcs"}, {Kind: "leaf", Name: "shl", Type: str}}}}})
		m0.Nodes = append(m0.Nodes, &sg.Node{Kind: "container", Name: "sha", Kids: []*sg.Node{{Kind: "uses", Name: "shg"}}},
			&sg.Node{Kind: "container", Name: "shb", Kids: []*sg.Node{{Kind: "uses", Name: "shg", Refines: []sg.Refine{{Target: "shp", Stmts: []string{`presence "refined";`}}},
				Augments: []*sg.Augment{{Target: "shch/shcs", Kids: []*sg.Node{{Kind: "leaf", Name: "incase", Type: str}}}}}}})
		m0.Augments = append(m0.Augments, &sg.Augment{Target: "/" + m0.Prefix + ":sha/" + m0.Prefix + ":shc", Kids: []*sg.Node{{Kind: "leaf", Name: "extra", Type: str}}})
	}
	nested := false
	if m0 := c.Mods[0]; m0.BelongsTo == "" && g.Chance(1, 3, "nestedlists") {
		// a list below the entries of another list, asked about under several outer entries one after the other with the
		// same (good or bad) inner key: every answer is about the path that was asked
		nested = true
		str := &sg.TypeSpec{Name: "string"}
		m0.Nodes = append(m0.Nodes, &sg.Node{Kind: "container", Name: "zn-top", Kids: []*sg.Node{{Kind: "list", Name: "zsite", Key: "name", Kids: []*sg.Node{
			{Kind: "leaf", Name: "name", Type: str},
			{Kind: "list", Name: "zport", Key: "num", Kids: []*sg.Node{{Kind: "leaf", Name: "num", Type: &sg.TypeSpec{Name: "uint16"}}, {Kind: "leaf", Name: "speed", Type: &sg.TypeSpec{Name: "uint8"}}}}}},
			// a list whose key is a leaf below a container of the entry
			{Kind: "list", Name: "zkl", Key: "sub/v", Kids: []*sg.Node{{Kind: "container", Name: "sub", Kids: []*sg.Node{{Kind: "leaf", Name: "v", Type: &sg.TypeSpec{Name: "uint8"}}}}, {Kind: "leaf", Name: "w", Type: str}}}}})
	}
	w := newWorld(c.Mods)
	if w == nil {
		return c
	}
	if nested {
		bad := []string{"99999", "-1", "x", ""}[g.Pick(4, "nestedbad")]
		c.Paths = append(c.Paths, []string{"zn-top", "zsite", "a", "zport", bad}, []string{"zn-top", "zsite", "b", "zport", bad}, []string{"zn-top", "zsite", "b", "zport", bad, "speed", "1"},
			[]string{"zn-top", "zsite", "c", "zport", "80"}, []string{"zn-top", "zsite", "d", "zport", "80", "speed", "300"}, []string{"zn-top", "zsite", "e", "zport", "80", "speed", "300"},
			[]string{"zn-top", "zsite", "a", "zport", bad}, []string{"zn-top", "zsite", "f", "zport", "80", "nosuch"}, []string{"zn-top", "zsite", "g", "zport", "80", "nosuch"})
	}
	if nested {
		c.Paths = append(c.Paths, []string{"zn-top", "zkl", "5"}, []string{"zn-top", "zkl", "5", "w", "x"}, []string{"zn-top", "zkl", "300"}, []string{"zn-top", "zkl", "x", "w", "y"},
			[]string{"zn-top", "zkl"}, []string{"zn-top", "zkl", "7", "sub", "v", "7"}, []string{"zn-top", "zkl", "7", "sub"}, []string{"zn-top", "zkl", "7", "nosuch"})
	}
	if shared {
		c.Paths = append(c.Paths, []string{"sha", "shc", "extra", "v"}, []string{"shb", "shc", "extra", "v"}, []string{"sha", "shp"}, []string{"shb", "shp"},
			[]string{"shb", "incase", "v"}, []string{"sha", "incase", "v"}, []string{"sha", "shc"}, []string{"shb", "shc"})
	}
	np := 6
	for i := 0; i < np; i++ {
		p := randomPath(g, w)
		if len(p) == 0 {
			continue
		}
		c.Paths = append(c.Paths, p)
		// every proper prefix
		for k := 1; k < len(p); k++ {
			c.Paths = append(c.Paths, append([]string(nil), p[:k]...))
		}
		// one-token corruptions
		q := append([]string(nil), p...)
		pos := g.Pick(len(q), "corrupt")
		switch g.Pick(14, "how") {
		case 12, 13:
			// a token with a module-like qualifier in front: names are not qualified in a path, so this is another name
			at := 0
			if g.Pick(3, "qualwhere") == 0 {
				at = pos
			}
			q[at] = []string{"nosuch:", ":", "m0:", "m1:", "urn:verif:m0:", "m0-sub:"}[g.Pick(6, "qualifier")] + q[at]
		case 10:
			// a further token made of white space only: a token like any other (after a leaf value, after a leaf of type
			// empty, as a key or a child name)
			q = append(q, []string{" ", "\t", "\n", "  ", "\u00a0"}[g.Pick(5, "blanktok")])
		case 11:
			q[pos] = []string{" ", "\t", "\n", "  "}[g.Pick(4, "blankval")]
		case 5:
			// the token repeated (a doubled name, a repeated key or value)
			q = append(q[:pos+1], append([]string{q[pos]}, q[pos+1:]...)...)
		case 6:
			if pos > 0 {
				q[pos] = q[pos-1]
			}
		case 7:
			if pos+1 < len(q) {
				q[pos], q[pos+1] = q[pos+1], q[pos]
			}
		case 8:
			q = append(q[:pos], q[pos+1:]...)
		case 9:
			// a token that is valid somewhere else in the schema
			if len(c.Paths) > 0 {
				other := c.Paths[g.Pick(len(c.Paths), "otherpath")]
				q[pos] = other[g.Pick(len(other), "othertok")]
			}
		case 0:
			q[pos] = "no-such-node"
		case 1:
			q[pos] = "!!not a value!!"
		case 2:
			q = append(q, "extra")
		case 3:
			q = append(q, "extra", "more")
		default:
			q[pos] = ""
		}
		if len(q) > 0 {
			c.Paths = append(c.Paths, q)
		}
		// two things wrong with one path: the earlier one is the one to report.  The second corruption sits behind the
		// first (directly behind it in half of the cases).
		if len(p) >= 2 && g.Chance(1, 2, "double") {
			d := append([]string(nil), p...)
			first := g.Pick(len(d)-1, "first")
			second := first + 1
			if second+1 < len(d) && g.Chance(1, 2, "further") {
				second += 1 + g.Pick(len(d)-second-1, "second")
			}
			bad := []string{"no-such-node", "!!not a value!!", "", " ", "extra"}
			d[first] = bad[g.Pick(len(bad), "firstbad")]
			d[second] = bad[g.Pick(len(bad), "secondbad")]
			if g.Chance(1, 3, "tail") {
				d = append(d, "extra")
			}
			c.Paths = append(c.Paths, d)
			// a good path with a bad value and more tokens behind it
			e := append(append([]string(nil), p[:len(p)-1]...), "!!not a value!!", "extra")
			c.Paths = append(c.Paths, e)
		}
	}
	// choice / case names used as tokens right where the choice sits
	cps := choicePaths(w)
	for i := 0; i < 4 && len(cps) > 0; i++ {
		c.Paths = append(c.Paths, cps[g.Pick(len(cps), "choicepath")])
	}
	return c
}

// choicePaths: for every choice and case, the data path to its enclosing data node followed by the choice / case name.
func choicePaths(w *world) [][]string {
	owners, tops := w.top()
	var out [][]string
	var rec func(owner *sg.Mod, kids []*sg.Node, prefix []string, depth int)
	rec = func(owner *sg.Mod, kids []*sg.Node, prefix []string, depth int) {
		if depth > 6 {
			return
		}
		var names func(ks []*sg.Node)
		names = func(ks []*sg.Node) {
			for _, k := range ks {
				if k.Kind == "choice" || k.Kind == "case" {
					// a shorthand case has the name of its data node, which IS a valid token
					if find(kids, k.Name) == nil {
						out = append(out, append(append([]string(nil), prefix...), k.Name))
					}
					names(k.Kids)
				}
			}
		}
		names(kids)
		for _, k := range effKids(kids) {
			o := owner
			if depth == 0 {
				o = owners[k.Name]
			}
			switch k.Kind {
			case "container":
				rec(o, k.Kids, append(append([]string(nil), prefix...), k.Name), depth+1)
			case "list":
				key := keyLeaf(k)
				if sp, ok := w.space(o, key); ok {
					if v, ok := sg.MemberOf(sp); ok {
						rec(o, k.Kids, append(append([]string(nil), prefix...), k.Name, v), depth+1)
					}
				}
			}
		}
	}
	rec(nil, tops, nil, 0)
	return out
}

func newWorld(mods []*sg.Mod) *world {
	inl, _, err := sg.Inline(mods)
	if err != nil {
		return nil
	}
	w := &world{mods: mods, inl: inl, byName: map[string]*sg.Mod{}}
	for _, m := range mods {
		w.byName[m.Name] = m
	}
	return w
}

// pruneState removes the config false nodes (with everything below them).
func pruneState(kids []*sg.Node) []*sg.Node {
	var out []*sg.Node
	for _, k := range kids {
		if k.Config == "false" {
			continue
		}
		cp := *k
		cp.Kids = pruneState(k.Kids)
		out = append(out, &cp)
	}
	return out
}

func pathstr(toks []string) string {
	var b strings.Builder
	for _, t := range toks {
		b.WriteString("/" + strings.ReplaceAll(url.QueryEscape(t), "+", "%20"))
	}
	return b.String()
}

func checkCase(c Case) fw.Outcome {
	out := fw.Outcome{}
	w := newWorld(c.Mods)
	if w == nil || len(c.Paths) == 0 {
		out.Skip = true
		return out
	}
	copts := sgc.Opts{Features: sgc.AllFeatures{}}
	if c.CfgOnly {
		copts.Filter = compile.IsConfig
		for _, m := range w.inl {
			m.Nodes = pruneState(m.Nodes)
		}
		out.Labels = append(out.Labels, "config-only")
	}
	res := sgc.Compile(c.Mods, copts)
	var texts []string
	for _, m := range c.Mods {
		texts = append(texts, m.Text())
	}
	src := strings.Join(texts, "\n")
	out.Key = src + fmt.Sprint(c.Paths)
	if !res.OK() {
		out.Skip = true
		return out
	}
	owners, tops := w.top()
	long := false
	for _, p := range c.Paths {
		for _, incomplete := range []bool{false, true} {
			var v verdict
			if len(p) == 0 {
				continue
			}
			owner := owners[p[0]]
			v = w.walk(owner, tops, p, 0, incomplete)
			if v.unknown {
				continue
			}
			if len(p) >= 3 {
				long = true
			}
			err := res.MS.Validate(vctx{incomplete}, nil, append([]string(nil), p...))
			if (err == nil) != v.ok {
				out.Violation = fmt.Sprintf("path %q (incomplete paths allowed: %v): reference says ok=%v (%s at token %d), Validate says %v\n%s", p, incomplete, v.ok, v.kind, v.at, err, src)
				return out
			}
			if err == nil {
				out.Labels = append(out.Labels, "accepted")
				continue
			}
			out.Labels = append(out.Labels, "rejected:"+v.kind)
			ep, _, _, ok := merr.Fields(err)
			if !ok {
				out.Violation = fmt.Sprintf("path %q: rejection is not a management error: %T %v", p, err, err)
				return out
			}
			info := merr.InfoValues(err)
			hasInfo := func(s string) bool {
				for _, i := range info {
					if i == s {
						return true
					}
				}
				return false
			}
			// the element the error is about: the bad-element it names behind its path, else the last element of its path
			located := false
			switch v.kind {
			case "unknown-child", "trailing", "bad-value":
				for k := 0; k <= len(p); k++ {
					if ep != pathstr(p[:k]) {
						continue
					}
					e := k - 1
					if k < len(p) && hasInfo(p[k]) {
						e = k
					}
					if e == v.at {
						located = true
					}
				}
			case "too-short":
				located = ep == pathstr(p)
			}
			if !located {
				out.Violation = fmt.Sprintf("path %q rejected (%s at token %d) but the error does not identify the offending element: path %q info %v\n%s", p, v.kind, v.at, ep, info, src)
				return out
			}
		}
	}
	out.NonTrivial = long
	// collapse labels
	seen := map[string]bool{}
	var ls []string
	for _, l := range out.Labels {
		if !seen[l] {
			seen[l] = true
			ls = append(ls, l)
		}
	}
	out.Labels = ls
	return out
}

var paths = fw.Register(&fw.Prop[Case]{
	ID: "C17", Name: "paths",
	Rule: "compiled schemas from the module-set generator (presence and non-presence containers, lists with typed keys, leaves of all modelled types incl. empty, leaf-lists, nested choices and cases, groupings, " +
		"augments) and token paths from a random walk of the harness's own (inlined) model: complete valid paths, every proper prefix, one-token corruptions (unknown name, value outside the type, empty token, token doubled, predecessor repeated, neighbours swapped, token dropped, token valid elsewhere), two corruptions in one path (the earlier one is the one to report), a bad value with further tokens behind it, " +
		"over-long paths, choice / case names used as tokens; both values of AllowIncompletePaths; oracle: reference walker over the abstract model with exact value spaces; a rejection must identify the first " +
		"offending element (error path = valid prefix, offending element = bad-element info or last path element); non-trivial = a path of length >= 3",
	Gen: genCase, Check: checkCase,
	MinLabel: []string{"accepted", "rejected:unknown-child", "rejected:bad-value", "rejected:trailing", "rejected:too-short"},
})

func TestMain(m *testing.M) { fw.Main(m) }

func TestPaths(t *testing.T) { fw.Run(t, paths) }
