package c09

import "testing"

// self-test of the recogniser on examples of XML Schema Part 2, Appendix F, and on the near misses of the pool
func TestXsdRecogniser(t *testing.T) {
	for s, want := range map[string]int{
		"": 1, "a": 1, "a*b+c?": 1, "(a|b)*": 1, "[a-z]": 1, "[^a-z0-9]": 1, `\d{3}-[A-Z]{2}`: 1, `\p{Lu}`: 1, `\P{IsBasicLatin}`: 1, "a{2,}": 1, "a{2,3}": 1, "[-a]": 1, "[a-]": 1,
		"[a-z-[aeiou]]": 1, `[\d-a]`: 0, "()": 1, "a||b": 1, `\i\c*`: 1, "Chapter\\s\\d+": 1, "[a\\-z]": 1, "--": 1, "a^$": 1,
		"(": 0, ")": 0, "a)(b": 0, ")(": 0, "[": 0, "[]": 0, "[^]": 0, "[z-a]": 0, "*a": 0, "a**": 0, "a*?": 0, "a{2,1}": 0, `\`: 0, `\q`: 0, `\p{Foo}`: 0, `\p{L`: 0, "a]": 0, "[[a]": 0,
		"a|*": 0, "(?i)a": 0, "[a--b]": 0, "a{,2}": -1, "a{": -1, "}": -1, `\p{IsGreek}`: -1,
	} {
		if got := xsdVerdict(s); got != want {
			t.Errorf("xsdVerdict(%q) = %d, want %d", s, got, want)
		}
	}
	for s, want := range map[string]int{"a)(b": 0, "(a)(b)": 1, "a*?": -1, `\i`: -1, "(?i)a": -1, "a{1001}": -1, "[]a]": -1, `\A`: -1, "[z-a]": 0, "a**": 0} {
		if got := patternVerdict(s); got != want {
			t.Errorf("patternVerdict(%q) = %d, want %d", s, got, want)
		}
	}
}
