// Package c09: statement grammar - cardinality, ordering and argument syntax.
//
// This file is the hand transcription of the RFC 6020 substatement tables
// (sections 7.x.1, 9.x) and of the argument ABNF of section 12.  It is a
// trusted-base item: there is no copy of the RFC in the sandbox.
package c09

import (
	"regexp"
	"strings"
)

// card is min..max with max = -1 for "n".
type card struct{ min, max int }

var (
	c01 = card{0, 1}
	c0n = card{0, -1}
	c11 = card{1, 1}
	c1n = card{1, -1}
)

var dataDefs = []string{"anyxml", "choice", "container", "leaf", "leaf-list", "list", "uses"}

func withData(m map[string]card, names ...string) map[string]card {
	for _, n := range names {
		m[n] = c0n
	}
	return m
}

// substatements[parent][child] = cardinality (RFC 6020).
var substatements = map[string]map[string]card{
	"module": withData(map[string]card{
		"augment": c0n, "contact": c01, "description": c01, "deviation": c0n, "extension": c0n, "feature": c0n, "grouping": c0n,
		"identity": c0n, "import": c0n, "include": c0n, "namespace": c11, "notification": c0n, "organization": c01, "prefix": c11,
		"reference": c01, "revision": c0n, "rpc": c0n, "typedef": c0n, "yang-version": c01}, dataDefs...),
	"submodule": withData(map[string]card{
		"augment": c0n, "belongs-to": c11, "contact": c01, "description": c01, "deviation": c0n, "extension": c0n, "feature": c0n, "grouping": c0n,
		"identity": c0n, "import": c0n, "include": c0n, "notification": c0n, "organization": c01,
		"reference": c01, "revision": c0n, "rpc": c0n, "typedef": c0n, "yang-version": c01}, dataDefs...),
	"import":     {"prefix": c11, "revision-date": c01},
	"include":    {"revision-date": c01},
	"revision":   {"description": c01, "reference": c01},
	"belongs-to": {"prefix": c11},
	"typedef":    {"default": c01, "description": c01, "reference": c01, "status": c01, "type": c11, "units": c01},
	"type": {"bit": c0n, "enum": c0n, "length": c01, "path": c01, "pattern": c0n, "range": c01, "require-instance": c01, "type": c0n,
		"fraction-digits": c01, "base": c01},
	"container": withData(map[string]card{"config": c01, "description": c01, "grouping": c0n, "if-feature": c0n, "must": c0n, "presence": c01,
		"reference": c01, "status": c01, "typedef": c0n, "when": c01}, dataDefs...),
	"must": {"description": c01, "error-app-tag": c01, "error-message": c01, "reference": c01},
	"leaf": {"config": c01, "default": c01, "description": c01, "if-feature": c0n, "mandatory": c01, "must": c0n, "reference": c01,
		"status": c01, "type": c11, "units": c01, "when": c01},
	"leaf-list": {"config": c01, "description": c01, "if-feature": c0n, "max-elements": c01, "min-elements": c01, "must": c0n, "ordered-by": c01,
		"reference": c01, "status": c01, "type": c11, "units": c01, "when": c01},
	"list": withData(map[string]card{"config": c01, "description": c01, "grouping": c0n, "if-feature": c0n, "key": c01, "max-elements": c01,
		"min-elements": c01, "must": c0n, "ordered-by": c01, "reference": c01, "status": c01, "typedef": c0n, "unique": c0n, "when": c01}, dataDefs...),
	"choice": {"anyxml": c0n, "case": c0n, "config": c01, "container": c0n, "default": c01, "description": c01, "if-feature": c0n, "leaf": c0n,
		"leaf-list": c0n, "list": c0n, "mandatory": c01, "reference": c01, "status": c01, "when": c01},
	"case":     withData(map[string]card{"description": c01, "if-feature": c0n, "reference": c01, "status": c01, "when": c01}, dataDefs...),
	"anyxml":   {"config": c01, "description": c01, "if-feature": c0n, "mandatory": c01, "must": c0n, "reference": c01, "status": c01, "when": c01},
	"grouping": withData(map[string]card{"description": c01, "grouping": c0n, "reference": c01, "status": c01, "typedef": c0n}, dataDefs...),
	"uses":     {"augment": c0n, "description": c01, "if-feature": c0n, "refine": c0n, "reference": c01, "status": c01, "when": c01},
	"rpc":      {"description": c01, "grouping": c0n, "if-feature": c0n, "input": c01, "output": c01, "reference": c01, "status": c01, "typedef": c0n},
	"input":    withData(map[string]card{"grouping": c0n, "typedef": c0n}, dataDefs...),
	"output":   withData(map[string]card{"grouping": c0n, "typedef": c0n}, dataDefs...),
	"notification": withData(map[string]card{"description": c01, "grouping": c0n, "if-feature": c0n, "reference": c01, "status": c01,
		"typedef": c0n}, dataDefs...),
	"augment":   withData(map[string]card{"case": c0n, "description": c01, "if-feature": c0n, "reference": c01, "status": c01, "when": c01}, dataDefs...),
	"identity":  {"base": c01, "description": c01, "reference": c01, "status": c01},
	"extension": {"argument": c01, "description": c01, "reference": c01, "status": c01},
	"argument":  {"yin-element": c01},
	"feature":   {"description": c01, "if-feature": c0n, "status": c01, "reference": c01},
	"deviation": {"description": c01, "deviate": c1n, "reference": c01},
	"range":     {"description": c01, "error-app-tag": c01, "error-message": c01, "reference": c01},
	"length":    {"description": c01, "error-app-tag": c01, "error-message": c01, "reference": c01},
	"pattern":   {"description": c01, "error-app-tag": c01, "error-message": c01, "reference": c01},
	"enum":      {"description": c01, "reference": c01, "status": c01, "value": c01},
	"bit":       {"description": c01, "reference": c01, "status": c01, "position": c01},
	"when":      {"description": c01, "reference": c01},
}

// leafStatements take no substatements (other than extensions).
var leafStatements = []string{"yang-version", "namespace", "prefix", "organization", "contact", "description", "reference", "revision-date",
	"default", "units", "status", "config", "mandatory", "presence", "ordered-by", "key", "unique", "min-elements", "max-elements",
	"error-message", "error-app-tag", "value", "position", "yin-element", "fraction-digits", "path", "require-instance", "base", "if-feature"}

// variantParents: which substatements a refine or a deviate may hold depends on the node it is applied to (RFC 6020
// 7.12.2, 7.18.3.2), which the parser cannot know; the implementation leaves that to the compiler (C14 'illegal' has
// "a property not allowed on the target").  What does not depend on the target: a substatement the tables give 0..1
// may not be written twice, and the ones they allow are accepted.  Index: refine, then deviate by kind
// (not-supported, add, replace, delete).
var variantParents = map[string]map[string]card{
	"refine": {"config": c01, "default": c01, "description": c01, "mandatory": c01, "max-elements": c01, "min-elements": c01, "must": c0n, "presence": c01, "reference": c01},
	"deviate not-supported": {},
	"deviate add":     {"units": c01, "must": c0n, "unique": c0n, "default": c01, "config": c01, "mandatory": c01, "min-elements": c01, "max-elements": c01},
	"deviate replace": {"type": c01, "units": c01, "default": c01, "config": c01, "mandatory": c01, "min-elements": c01, "max-elements": c01},
	"deviate delete":  {"units": c01, "must": c0n, "unique": c0n, "default": c01},
}

var deviateKinds = []string{"not-supported", "add", "replace", "delete"}

func variantVerdict(parent string, pkind int, child string, m int) int {
	key := parent
	if parent == "deviate" {
		key = "deviate " + deviateKinds[pkind%4]
	}
	c, ok := variantParents[key][child]
	if !ok {
		if m == 0 {
			return 1
		}
		return -1 // whether it is allowed depends on the target: the compiler's matter
	}
	if c.max >= 0 && m > c.max {
		return 0
	}
	return 1
}

var allKeywords []string

func init() {
	seen := map[string]bool{}
	add := func(k string) {
		if !seen[k] {
			seen[k] = true
			allKeywords = append(allKeywords, k)
		}
	}
	for p, kids := range substatements {
		add(p)
		for k := range kids {
			add(k)
		}
	}
	for _, k := range leafStatements {
		add(k)
	}
	add("deviate")
	add("refine")
	// deterministic order
	for i := 1; i < len(allKeywords); i++ {
		for j := i; j > 0 && allKeywords[j] < allKeywords[j-1]; j-- {
			allKeywords[j], allKeywords[j-1] = allKeywords[j-1], allKeywords[j]
		}
	}
}

// verdict for (parent, child, multiplicity): 1 accept, 0 reject, -1 grey.
func cardVerdict(parent string, pkind int, child string, m int) int {
	if parent == "refine" || parent == "deviate" {
		return variantVerdict(parent, pkind, child, m)
	}
	// RFC 6020 table 7.12.1 says 0..1 for augment/refine under uses while the ABNF says *: erratum
	if parent == "uses" && (child == "augment" || child == "refine") && m == 2 {
		return -1
	}
	// 'key' is optional for config false lists, which is not known at parse time
	if parent == "list" && child == "key" && m == 0 {
		return -1
	}
	kids := substatements[parent]
	c, ok := kids[child]
	if !ok {
		if m == 0 {
			return 1
		}
		return 0
	}
	if m < c.min {
		return 0
	}
	if c.max >= 0 && m > c.max {
		return 0
	}
	return 1
}

// ---- argument syntax (RFC 6020 section 12) --------------------------------------

const reIdent = `[A-Za-z_][A-Za-z0-9_.\-]*`
const reNonNeg = `(0|[1-9][0-9]*)`
const reInt = `-?` + reNonNeg
const reDec = reInt + `\.[0-9]+`
const reNodeID = `(` + reIdent + `:)?` + reIdent
const reOptsep = `[ \t\r\n]*`
const reSep = `[ \t\r\n]+`

var argRes = map[string]*regexp.Regexp{
	"identifier":      regexp.MustCompile(`^` + reIdent + `$`),
	"identifier-ref":  regexp.MustCompile(`^` + reNodeID + `$`),
	"date":            regexp.MustCompile(`^[0-9]{4}-[0-9]{2}-[0-9]{2}$`),
	"boolean":         regexp.MustCompile(`^(true|false)$`),
	"integer":         regexp.MustCompile(`^` + reInt + `$`),
	"non-negative":    regexp.MustCompile(`^` + reNonNeg + `$`),
	"max-value":       regexp.MustCompile(`^(unbounded|[1-9][0-9]*)$`),
	"status":          regexp.MustCompile(`^(current|obsolete|deprecated)$`),
	"ordered-by":      regexp.MustCompile(`^(user|system)$`),
	"deviate":         regexp.MustCompile(`^(add|delete|replace|not-supported)$`),
	"fraction-digits": regexp.MustCompile(`^(1[0-8]?|[2-9])$`),
	"yang-version":    regexp.MustCompile(`^1$`),
	"key":             regexp.MustCompile(`^` + reNodeID + `(` + reSep + reNodeID + `)*$`),
	"absolute-schema": regexp.MustCompile(`^(/` + reNodeID + `)+$`),
	"descendant":      regexp.MustCompile(`^` + reNodeID + `(/` + reNodeID + `)*$`),
	"unique":          regexp.MustCompile(`^` + reNodeID + `(/` + reNodeID + `)*(` + reSep + reNodeID + `(/` + reNodeID + `)*)*$`),
}

var reRangeBoundary = `(min|max|` + reInt + `(\.[0-9]+)?)`
var reRangePart = reRangeBoundary + `(` + reOptsep + `\.\.` + reOptsep + reRangeBoundary + `)?`
var reLenBoundary = `(min|max|` + reNonNeg + `)`
var reLenPart = reLenBoundary + `(` + reOptsep + `\.\.` + reOptsep + reLenBoundary + `)?`

func init() {
	argRes["range"] = regexp.MustCompile(`^` + reRangePart + `(` + reOptsep + `\|` + reOptsep + reRangePart + `)*$`)
	argRes["length"] = regexp.MustCompile(`^` + reLenPart + `(` + reOptsep + `\|` + reOptsep + reLenPart + `)*$`)
}

func startsXML(s string) bool {
	return len(s) >= 3 && strings.EqualFold(s[:3], "xml")
}

// identifiers anywhere in the argument must not start with "xml"
func xmlFree(kind, s string) bool {
	switch kind {
	case "identifier", "identifier-ref", "key", "absolute-schema", "descendant", "unique":
		for _, f := range strings.FieldsFunc(s, func(r rune) bool { return r == '/' || r == ':' || r == ' ' || r == '\t' || r == '\n' || r == '\r' }) {
			if startsXML(f) {
				return false
			}
		}
	}
	return true
}

// argVerdict: 1 valid, 0 invalid, -1 grey.
func argVerdict(kind, s string) int {
	re := argRes[kind]
	if re == nil {
		return -1
	}
	if re.MatchString(s) && xmlFree(kind, s) {
		if kind == "date" {
			// calendar validity (month 13, day 32) is not lexical: grey
			mm, dd := s[5:7], s[8:10]
			if mm < "01" || mm > "12" || dd < "01" || dd > "31" {
				return -1
			}
		}
		if (kind == "integer" || kind == "non-negative" || kind == "max-value") && len(strings.TrimLeft(s, "-")) > 9 {
			return -1 // beyond 32 bits: range, not syntax
		}
		if kind == "range" || kind == "length" {
			for _, f := range regexp.MustCompile(`[0-9]{10,}`).FindAllString(s, -1) {
				_ = f
				return -1
			}
		}
		return 1
	}
	return 0
}
