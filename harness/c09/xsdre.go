package c09

// Recogniser of the regular expression language of XML Schema Part 2 (second edition), Appendix F, which RFC 6020 9.4.6
// makes the language of the pattern statement.  It decides syntax only.  Verdicts: 1 valid, 0 invalid, -1 for the places
// where the two editions of the specification disagree (a bare '{' or '}' as a normal character, block names).
//
// The implementation hands patterns to Go's regexp (RE2 syntax) after wrapping them into "^(" ... ")$".  The two languages
// differ at the edges (lazy quantifiers, \A, (?i), \i and \c, class subtraction), so C09 compares verdicts only where this
// recogniser and a compilation of the BARE pattern by the regexp library agree: both accept -> the parser must accept,
// both refuse -> the parser must refuse.  The regexp library is trusted; what is under test is what the parser does around
// it (the wrapping, the block-name replacement, where the verdict is reported).

import (
	"regexp"
	"strings"
)

type xsdP struct {
	r    []rune
	i    int
	grey bool
}

var xsdCategories = map[string]bool{}

func init() {
	for _, c := range strings.Fields("L Lu Ll Lt Lm Lo M Mn Mc Me N Nd Nl No P Pc Pd Ps Pe Pi Pf Po Z Zs Zl Zp S Sm Sc Sk So C Cc Cf Co Cn") {
		xsdCategories[c] = true
	}
}

func (p *xsdP) eof() bool  { return p.i >= len(p.r) }
func (p *xsdP) peek() rune { return p.r[p.i] }

// regExp ::= branch ( '|' branch )*
func (p *xsdP) regExp() bool {
	for {
		if !p.branch() {
			return false
		}
		if !p.eof() && p.peek() == '|' {
			p.i++
			continue
		}
		return true
	}
}

// branch ::= piece*
func (p *xsdP) branch() bool {
	for !p.eof() && p.peek() != '|' && p.peek() != ')' {
		if !p.piece() {
			return false
		}
	}
	return true
}

// piece ::= atom quantifier?
func (p *xsdP) piece() bool {
	if !p.atom() {
		return false
	}
	if p.eof() {
		return true
	}
	switch p.peek() {
	case '?', '*', '+':
		p.i++
	case '{':
		j := p.i + 1
		n, k := p.number(j)
		if k == j {
			// "a{" without a quantity: a bare brace (editions disagree on whether it is a normal character)
			p.grey = true
			p.i++
			return true
		}
		j = k
		if j < len(p.r) && p.r[j] == '}' {
			p.i = j + 1
			return true
		}
		if j < len(p.r) && p.r[j] == ',' {
			j++
			m, k2 := p.number(j)
			if k2 == j {
				if j < len(p.r) && p.r[j] == '}' {
					p.i = j + 1
					return true
				}
				return false
			}
			if k2 < len(p.r) && p.r[k2] == '}' {
				if m < n {
					return false
				}
				p.i = k2 + 1
				return true
			}
		}
		return false
	}
	return true
}

func (p *xsdP) number(j int) (int, int) {
	n := 0
	for j < len(p.r) && p.r[j] >= '0' && p.r[j] <= '9' {
		if n < 1<<30 {
			n = n*10 + int(p.r[j]-'0')
		}
		j++
	}
	return n, j
}

// atom ::= Char | charClass | '(' regExp ')'
func (p *xsdP) atom() bool {
	c := p.peek()
	switch c {
	case '(':
		p.i++
		if !p.regExp() {
			return false
		}
		if p.eof() || p.peek() != ')' {
			return false
		}
		p.i++
		return true
	case '.':
		p.i++
		return true
	case '\\':
		return p.escape(false)
	case '[':
		return p.classExpr()
	case '?', '*', '+', ')', '|', ']':
		return false
	case '{', '}':
		p.grey = true
		p.i++
		return true
	}
	p.i++
	return true
}

// escape: SingleCharEsc | MultiCharEsc | catEsc | complEsc
func (p *xsdP) escape(inClass bool) bool {
	p.i++ // backslash
	if p.eof() {
		return false
	}
	c := p.peek()
	p.i++
	switch c {
	case 'n', 'r', 't', '\\', '|', '.', '?', '*', '+', '(', ')', '{', '}', '-', '[', ']', '^':
		return true
	case 's', 'S', 'i', 'I', 'c', 'C', 'd', 'D', 'w', 'W':
		return true
	case 'p', 'P':
		if p.eof() || p.peek() != '{' {
			return false
		}
		j := p.i + 1
		k := j
		for k < len(p.r) && p.r[k] != '}' {
			k++
		}
		if k >= len(p.r) {
			return false
		}
		name := string(p.r[j:k])
		p.i = k + 1
		if xsdCategories[name] {
			return true
		}
		if strings.HasPrefix(name, "Is") && len(name) > 2 {
			if name != "IsBasicLatin" {
				p.grey = true // the list of block names depends on the Unicode version
			}
			return true
		}
		return false
	}
	return false
}

// charClassExpr ::= '[' '^'? ( charRange | charClassEsc )+ ( '-' charClassExpr )? ']'
func (p *xsdP) classExpr() bool {
	p.i++ // [
	if !p.eof() && p.peek() == '^' {
		p.i++
	}
	n := 0
	for {
		if p.eof() {
			return false
		}
		c := p.peek()
		if c == ']' {
			if n == 0 {
				return false
			}
			p.i++
			return true
		}
		if c == '[' {
			return false
		}
		if c == '-' {
			// a dash: first or last member, or the subtraction operator
			if p.i+1 < len(p.r) && p.r[p.i+1] == '[' && n > 0 {
				p.i++
				if !p.classExpr() {
					return false
				}
				if p.eof() || p.peek() != ']' {
					return false
				}
				p.i++
				return true
			}
			if n == 0 || (p.i+1 < len(p.r) && p.r[p.i+1] == ']') {
				p.i++
				n++
				continue
			}
			return false
		}
		lo, single, ok := p.classMember()
		if !ok {
			return false
		}
		n++
		if single && !p.eof() && p.peek() == '-' && p.i+1 < len(p.r) && p.r[p.i+1] != ']' && p.r[p.i+1] != '[' {
			p.i++
			if p.peek() == '-' {
				return false
			}
			hi, single2, ok2 := p.classMember()
			if !ok2 || !single2 {
				return false
			}
			if hi < lo {
				return false
			}
		}
	}
}

// classMember: a character or escape inside a class; single reports whether it denotes one character (a range end)
func (p *xsdP) classMember() (rune, bool, bool) {
	c := p.peek()
	if c == '\\' {
		if p.i+1 >= len(p.r) {
			return 0, false, false
		}
		e := p.r[p.i+1]
		if !p.escape(true) {
			return 0, false, false
		}
		switch e {
		case 'n':
			return '\n', true, true
		case 'r':
			return '\r', true, true
		case 't':
			return '\t', true, true
		case 's', 'S', 'i', 'I', 'c', 'C', 'd', 'D', 'w', 'W', 'p', 'P':
			return 0, false, true
		}
		return e, true, true
	}
	p.i++
	return c, true, true
}

// xsdVerdict: 1 valid, 0 invalid, -1 grey, by the XML Schema grammar alone.
func xsdVerdict(s string) int {
	p := &xsdP{r: []rune(s)}
	ok := p.regExp() && p.eof()
	if !ok {
		// a failure after a grey construct may be a consequence of reading it one way
		if p.grey {
			return -1
		}
		return 0
	}
	if p.grey {
		return -1
	}
	return 1
}

// patternVerdict: the verdict C09 holds the parser to (see the comment at the top of the file).
func patternVerdict(s string) int {
	x := xsdVerdict(s)
	if x < 0 {
		return -1
	}
	_, err := regexp.Compile(strings.ReplaceAll(s, `\p{IsBasicLatin}`, `[\x{0000}-\x{007F}]`))
	if x == 1 && err == nil {
		return 1
	}
	if x == 0 && err != nil {
		return 0
	}
	return -1
}
