package c09

import (
	"fmt"
	"regexp"
	"sort"
	"strconv"
	"strings"
	"testing"

	"verifharness/fw"
	"verifharness/yg"

	"github.com/sdcio/yang-parser/parse"
	"pgregory.net/rapid"
)

// ---- sample statements ------------------------------------------------------------

type S struct {
	Kw   string
	Arg  string
	Kids []*S
}

func leafS(name string) *S { return &S{"leaf", name, []*S{{"type", "string", nil}}} }

func sample(kw string, i int, parent string) *S {
	n := strconv.Itoa(i)
	switch kw {
	case "module":
		return &S{kw, "m", []*S{{"namespace", "urn:m", nil}, {"prefix", "m", nil}}}
	case "submodule":
		return &S{kw, "sm", []*S{{"belongs-to", "m", []*S{{"prefix", "m", nil}}}}}
	case "import":
		return &S{kw, "im" + n, []*S{{"prefix", "ip" + n, nil}}}
	case "include":
		return &S{kw, "inc" + n, nil}
	case "revision":
		return &S{kw, []string{"2020-02-02", "2020-01-01", "2019-01-01"}[i%3], nil}
	case "revision-date":
		return &S{kw, "2020-01-01", nil}
	case "belongs-to":
		return &S{kw, "m", []*S{{"prefix", "m", nil}}}
	case "typedef":
		return &S{kw, "t" + n, []*S{{"type", "string", nil}}}
	case "type":
		return &S{kw, "string", nil}
	case "leaf":
		return leafS("l" + n)
	case "leaf-list":
		return &S{kw, "ll" + n, []*S{{"type", "string", nil}}}
	case "list":
		return &S{kw, "ls" + n, []*S{{"key", "k", nil}, leafS("k")}}
	case "container", "choice", "case", "anyxml", "grouping", "rpc", "notification", "identity", "extension", "feature":
		return &S{kw, kw[:2] + n, nil}
	case "uses":
		return &S{kw, "g" + n, nil}
	case "input", "output":
		return &S{kw, "", []*S{leafS("io" + n)}}
	case "augment":
		if parent == "uses" {
			return &S{kw, "a" + n + "/b", []*S{leafS("la")}}
		}
		return &S{kw, "/x:a" + n, []*S{leafS("la")}}
	case "argument":
		return &S{kw, "arg" + n, nil}
	case "deviation":
		return &S{kw, "/x:d" + n, []*S{{"deviate", "not-supported", nil}}}
	case "deviate":
		return &S{kw, "not-supported", nil}
	case "range", "length":
		return &S{kw, "1..10", nil}
	case "pattern":
		return &S{kw, "a" + n + ".*", nil}
	case "enum":
		return &S{kw, "e" + n, nil}
	case "bit":
		return &S{kw, "b" + n, nil}
	case "when", "must":
		return &S{kw, "a" + n, nil}
	case "refine":
		return &S{kw, "a" + n + "/b", nil}
	case "yang-version":
		return &S{kw, "1", nil}
	case "namespace":
		return &S{kw, "urn:x" + n, nil}
	case "prefix":
		return &S{kw, "p" + n, nil}
	case "organization", "contact", "description", "reference", "default", "units", "presence", "error-message", "error-app-tag":
		return &S{kw, "some text " + n, nil}
	case "status":
		return &S{kw, "current", nil}
	case "config", "mandatory", "yin-element", "require-instance":
		return &S{kw, "true", nil}
	case "ordered-by":
		return &S{kw, "user", nil}
	case "key":
		return &S{kw, "k", nil}
	case "unique":
		return &S{kw, "a" + n + " b", nil}
	case "min-elements":
		return &S{kw, "1", nil}
	case "max-elements":
		return &S{kw, "5", nil}
	case "value", "position":
		return &S{kw, n, nil}
	case "fraction-digits":
		return &S{kw, "2", nil}
	case "path":
		return &S{kw, "/a/b", nil}
	case "base":
		return &S{kw, "b" + n, nil}
	case "if-feature":
		return &S{kw, "f" + n, nil}
	}
	// unknown (unprefixed) keyword; for the parser's internal names of the deviate kinds with the argument that would
	// make them look like the real thing
	if strings.HasPrefix(kw, "deviate-") {
		return &S{kw, strings.TrimPrefix(kw, "deviate-"), nil}
	}
	return &S{kw, "arg" + n, nil}
}

var sectionOf = map[string]int{"yang-version": 0, "namespace": 0, "prefix": 0, "belongs-to": 0, "import": 1, "include": 1,
	"organization": 2, "contact": 2, "description": 2, "reference": 2, "revision": 3}

func section(kw string) int {
	if s, ok := sectionOf[kw]; ok {
		return s
	}
	return 4
}

func toStmt(s *S, depth int) *yg.Stmt {
	st := &yg.Stmt{Kw: s.Kw, T0: "\n" + strings.Repeat("  ", depth), T1: " "}
	if s.Arg != "" {
		st.Pieces = []yg.Piece{{Q: "d", Raw: strings.ReplaceAll(strings.ReplaceAll(s.Arg, `\`, `\\`), `"`, `\"`)}}
	}
	for _, k := range s.Kids {
		st.Kids = append(st.Kids, toStmt(k, depth+1))
	}
	if len(s.Kids) > 0 {
		st.T3 = "\n" + strings.Repeat("  ", depth)
	}
	return st
}

var locRe = regexp.MustCompile(`in\.yang:(\d+):(\d+)`)

// parseText parses and returns (accepted, error text, locations named in the error).  The same text with CRLF line
// ends must get the same verdict and name the same line:column positions (a line break is one line break).
func parseText(text string) (bool, string, [][2]int, string) {
	ok, msg, locs, fatal := parseText1(text)
	if fatal != "" || !strings.Contains(text, "\n") || strings.Contains(text, "\r") {
		return ok, msg, locs, fatal
	}
	ok2, msg2, locs2, fatal2 := parseText1(strings.ReplaceAll(text, "\n", "\r\n"))
	if fatal2 != "" {
		return ok, msg, locs, "with CRLF line ends: " + fatal2
	}
	if ok2 != ok {
		return ok, msg, locs, fmt.Sprintf("verdict changes with CRLF line ends: LF %v (%s), CRLF %v (%s)", ok, msg, ok2, msg2)
	}
	if fmt.Sprint(locs) != fmt.Sprint(locs2) {
		return ok, msg, locs, fmt.Sprintf("the error names other positions with CRLF line ends: LF %v (%s), CRLF %v (%s)", locs, msg, locs2, msg2)
	}
	return ok, msg, locs, fatal
}

func parseText1(text string) (bool, string, [][2]int, string) {
	var err error
	var pan any
	done := fw.WithTimeout(20, func() {
		defer func() { pan = recover() }()
		_, err = parse.Parse("in.yang", text, nil)
	})
	if !done {
		return false, "", nil, "parse did not return"
	}
	if pan != nil {
		return false, "", nil, fmt.Sprintf("parse panicked: %v", pan)
	}
	// the verdict does not depend on what a shared pair of interners has seen before: the loader parses all files of
	// a module set with one pair (parse.ParseWithInterners), so the text is parsed twice more with a fresh shared pair
	si, ai := parse.NewStringInterner(), parse.NewArgInterner()
	for i := 0; i < 2; i++ {
		var err2 error
		var pan2 any
		if !fw.WithTimeout(20, func() {
			defer func() { pan2 = recover() }()
			_, err2 = parse.ParseWithInterners("in.yang", text, nil, si, ai)
		}) {
			return false, "", nil, "parse with shared interners did not return"
		}
		if pan2 != nil {
			return false, "", nil, fmt.Sprintf("parse with shared interners panicked: %v", pan2)
		}
		if (err2 == nil) != (err == nil) {
			return false, "", nil, fmt.Sprintf("parse %d with a shared pair of interners gives another verdict (%v) than the plain parse (%v)", i+1, err2, err)
		}
	}
	if err == nil {
		return true, "", nil, ""
	}
	var locs [][2]int
	for _, m := range locRe.FindAllStringSubmatch(err.Error(), -1) {
		l, _ := strconv.Atoi(m[1])
		c, _ := strconv.Atoi(m[2])
		locs = append(locs, [2]int{l, c})
	}
	return false, err.Error(), locs, ""
}

func locOK(locs [][2]int, infos []yg.Info, idxs ...int) bool {
	for _, l := range locs {
		for _, i := range idxs {
			if i >= 0 && i < len(infos) && infos[i].Line == l[0] && infos[i].Col == l[1] {
				return true
			}
		}
	}
	return false
}

// ---- (a) cardinality triples ----------------------------------------------------------

type CardCase struct {
	Parent string `json:"parent"`
	Child  string `json:"child"`
	M      int    `json:"m"`
	// Kinds: for the child "deviate", the kind of each copy (1 add, 2 replace, 3 delete, else not-supported): what the
	// tables say about "deviate" holds for every kind and every mixture of kinds
	Kinds []int `json:"kinds,omitempty"`
	// PKind: for the parent "deviate", its kind (0 not-supported, 1 add, 2 replace, 3 delete)
	PKind int `json:"pkind,omitempty"`
}

func buildCard(c CardCase) (*S, int) {
	p := sample(c.Parent, 9, "")
	if c.Parent == "deviate" {
		p.Arg = deviateKinds[c.PKind%4]
	}
	// remove default occurrences of the child, then add M copies
	var kids []*S
	for _, k := range p.Kids {
		if k.Kw != c.Child {
			kids = append(kids, k)
		}
	}
	for i := 0; i < c.M; i++ {
		idx := i
		if idx >= 9 {
			idx++ // (the parent is sample number 9: a child of the same kind does not take its name)
		}
		k := sample(c.Child, idx, c.Parent)
		if c.Child == "deviate" && i < len(c.Kinds) {
			k.Arg = []string{"not-supported", "add", "replace", "delete"}[c.Kinds[i]%4]
		}
		kids = append(kids, k)
	}
	// lists, input, output and augment keep at least one data node (ABNF 1*data-def-stmt)
	switch c.Parent {
	case "list":
		has := false
		for _, k := range kids {
			if k.Kw == "leaf" && k.Arg == "k" {
				has = true
			}
		}
		if !has {
			kids = append(kids, leafS("k"))
		}
	}
	if c.Parent == "module" || c.Parent == "submodule" {
		sort.SliceStable(kids, func(i, j int) bool { return section(kids[i].Kw) < section(kids[j].Kw) })
	}
	p.Kids = kids
	return p, 0
}

func checkCard(c CardCase) fw.Outcome {
	out := fw.Outcome{NonTrivial: true, Key: fmt.Sprintf("%s/%s/%d%v/%d", c.Parent, c.Child, c.M, c.Kinds, c.PKind)}
	want := cardVerdict(c.Parent, c.PKind, c.Child, c.M)
	if want < 0 {
		out.Skip = true
		return out
	}
	p, _ := buildCard(c)
	text, infos := yg.Render([]*yg.Stmt{toStmt(p, 0)}, "\n")
	ok, etxt, locs, fatal := parseText(text)
	if fatal != "" {
		out.Violation = fatal + " on " + text
		return out
	}
	if want == 1 {
		out.Labels = append(out.Labels, "table:allowed")
	} else {
		out.Labels = append(out.Labels, "table:forbidden")
	}
	if ok != (want == 1) {
		out.Violation = fmt.Sprintf("RFC 6020 tables: '%s' x%d under '%s' must be %s, parser says accepted=%v (%s)\ntext: %s",
			c.Child, c.M, c.Parent, map[int]string{0: "rejected", 1: "accepted"}[want], ok, etxt, text)
		return out
	}
	// the same statement inside the body of a prefixed extension statement (one and two levels deep): it is checked like
	// anywhere else
	if c.Parent != "module" && c.Parent != "submodule" && c.M <= 3 {
		for depth := 1; depth <= 2; depth++ {
			w := toStmt(p, depth)
			for d := depth; d > 0; d-- {
				w = &yg.Stmt{Kw: []string{"x:wrap", "y:annotation"}[d%2], T0: "\n" + strings.Repeat("  ", d-1), T1: " ", Pieces: []yg.Piece{{Q: "u", Raw: "w"}}, Kids: []*yg.Stmt{w}, T3: "\n"}
			}
			wtext, _ := yg.Render([]*yg.Stmt{w}, "\n")
			wok, wetxt, _, wfatal := parseText(wtext)
			if wfatal != "" {
				out.Violation = wfatal + " on " + wtext
				return out
			}
			if wok != ok {
				out.Violation = fmt.Sprintf("'%s' x%d under '%s': accepted=%v on its own, accepted=%v inside the body of an extension statement (%s)\ntext: %s", c.Child, c.M, c.Parent, ok, wok, wetxt, wtext)
				return out
			}
		}
	}
	if !ok {
		// the error names the offending statement (the child or, for a missing/duplicated child, its parent) and its location
		idxs := []int{0}
		for i, in := range infos {
			if in.Kw == c.Child && in.Depth == 1 {
				idxs = append(idxs, i)
			}
		}
		if !locOK(locs, infos, idxs...) {
			out.Violation = fmt.Sprintf("rejection of '%s' x%d under '%s' does not give the location of the parent or the child: %q\ntext: %s", c.Child, c.M, c.Parent, etxt, text)
			return out
		}
		if !strings.Contains(etxt, c.Child) && !strings.Contains(etxt, c.Parent) {
			out.Violation = fmt.Sprintf("rejection of '%s' under '%s' names neither statement: %q", c.Child, c.Parent, etxt)
		}
	}
	return out
}

var cardProp = fw.Register(&fw.Prop[CardCase]{
	ID: "C09", Name: "card",
	Rule: "ALL triples (parent keyword, child keyword, multiplicity 0/1/2, and 256 copies) over the RFC 6020 keywords: the parent is built with every other required substatement once, the child added m times " +
		"with a valid argument, plus a prefixed extension under every parent; refine and the four kinds of deviate as parents too (what they may hold depends on the target, which is the " +
		"compiler's matter, but a substatement their tables give 0..1 may not be written twice); oracle: the RFC 6020 substatement tables transcribed by hand (harness/c09/rfc6020.go); a rejection must give the " +
		"location of the child or parent and name one of them; every triple is a distinct non-trivial cell",
	Gen:   func(t *rapid.T) CardCase { return CardCase{} },
	Check: checkCard,
})

func TestCardinalityTriples(t *testing.T) {
	// (the parents are dealt out to the shards)
	n := int64(0)
	for pi, p := range allKeywords {
		if pi%fw.NShards() != fw.Shard() {
			continue
		}
		for _, c := range allKeywords {
			if c == "module" || c == "submodule" {
				continue // never substatements; a second root is a file-level matter
			}
			for m := 0; m <= 2; m++ {
				fw.Eval(cardProp, "", CardCase{Parent: p, Child: c, M: m})
				n++
				if p == "deviate" {
					for k := 1; k < 4; k++ {
						fw.Eval(cardProp, "", CardCase{Parent: p, Child: c, M: m, PKind: k})
						n++
					}
				}
			}
			// many copies: a count is a count, it does not come round again (256 and 257 copies, 512 for a few)
			if !((p == "module" || p == "submodule") && c == "revision") { // (the dates of the sample repeat after three: a matter of order, not of count)
				fw.Eval(cardProp, "", CardCase{Parent: p, Child: c, M: 256})
				n++
				if c == "description" || c == "leaf" || c == "type" || c == "key" {
					fw.Eval(cardProp, "", CardCase{Parent: p, Child: c, M: 257})
					fw.Eval(cardProp, "", CardCase{Parent: p, Child: c, M: 512})
					n += 2
				}
			}
			if c == "deviate" {
				// every kind once, twice, and every ordered pair of kinds; three of a kind
				for a := 0; a < 4; a++ {
					fw.Eval(cardProp, "", CardCase{Parent: p, Child: c, M: 1, Kinds: []int{a}})
					fw.Eval(cardProp, "", CardCase{Parent: p, Child: c, M: 3, Kinds: []int{a, a, a}})
					n += 2
					for b := 0; b < 4; b++ {
						fw.Eval(cardProp, "", CardCase{Parent: p, Child: c, M: 2, Kinds: []int{a, b}})
						n++
					}
				}
			}
		}
		// keywords that are neither YANG statements nor prefixed extensions are rejected everywhere
		for _, unk := range []string{"foo", "Leaf", "yin", "containers", "leaf_list", "x;y", "deviate-add", "deviate-delete", "deviate-replace", "deviate-not-supported"} {
			if unk == "x;y" {
				continue
			}
			fw.Eval(cardProp, "", CardCase{Parent: p, Child: unk, M: 1})
			n++
		}
		// prefixed extension statements are accepted anywhere
		fw.Eval(extProp, "", ExtCase{Parent: p})
	}
	fw.NoteExhaustive("card", fmt.Sprintf("all (parent, child, multiplicity 0..2 and 256) triples over the RFC 6020 keywords (share of shard %d of %d)", fw.Shard(), fw.NShards()), n)
}

type ExtCase struct {
	Parent string `json:"parent"`
}

func checkExt(c ExtCase) fw.Outcome {
	out := fw.Outcome{NonTrivial: true, Key: c.Parent}
	p := sample(c.Parent, 9, "")
	p.Kids = append(p.Kids, &S{"x:ext", "anything at all", nil}, &S{"y:note", "", []*S{{"z:inner", "1", nil}}},
		// (prefix and name are identifiers: letters, digits, '_', '-' and '.' after the first character)
		&S{"my.ext:note", "x", nil}, &S{"_x.y-z:a.b_c-d", "", nil}, &S{"acme-v2.ext_1:Note9", "v", []*S{{"p.q:r.s", "", nil}}})
	if c.Parent == "module" || c.Parent == "submodule" {
		p.Kids = append([]*S{{"x:first", "a", nil}}, p.Kids...)
	}
	text, _ := yg.Render([]*yg.Stmt{toStmt(p, 0)}, "\n")
	ok, etxt, _, fatal := parseText(text)
	if fatal != "" || !ok {
		out.Violation = fmt.Sprintf("prefixed extension statements under '%s' rejected: %s %s\ntext: %s", c.Parent, etxt, fatal, text)
	}
	return out
}

var extProp = fw.Register(&fw.Prop[ExtCase]{ID: "C09", Name: "ext", Rule: "a prefixed extension statement (with and without argument, nested) under every RFC 6020 keyword must be accepted",
	Gen: func(t *rapid.T) ExtCase { return ExtCase{} }, Check: checkExt})

// ---- (b) section order and revision order --------------------------------------------------

type OrderCase struct {
	Sub   bool     `json:"submodule"`
	Perm  []int    `json:"perm"`  // order of the five sections
	Mask  int      `json:"mask"`  // which of the four optional sections are present (bits 1..4)
	Count int      `json:"count"` // statements per present optional section
	Dates []string `json:"dates,omitempty"`
}

func sectionStmts(sec int, sub bool, count int, dates []string) []*S {
	switch sec {
	case 0:
		if sub {
			return []*S{{"yang-version", "1", nil}, {"belongs-to", "m", []*S{{"prefix", "m", nil}}}}
		}
		return []*S{{"namespace", "urn:m", nil}, {"yang-version", "1", nil}, {"prefix", "m", nil}}
	case 1:
		out := []*S{sample("import", 0, "")}
		if count > 1 {
			out = append(out, sample("include", 1, ""))
		}
		return out
	case 2:
		out := []*S{{"contact", "c", nil}}
		if count > 1 {
			out = append(out, &S{"organization", "o", nil})
		}
		return out
	case 3:
		var out []*S
		for _, d := range dates {
			out = append(out, &S{"revision", d, nil})
		}
		return out
	default:
		out := []*S{leafS("l1")}
		if count > 1 {
			out = append(out, &S{"container", "c1", nil})
		}
		return out
	}
}

func checkOrder(c OrderCase) fw.Outcome {
	out := fw.Outcome{NonTrivial: true, Key: fmt.Sprint(c)}
	root := &S{Kw: "module", Arg: "m"}
	if c.Sub {
		root = &S{Kw: "submodule", Arg: "sm"}
	}
	dates := c.Dates
	if dates == nil {
		dates = []string{"2020-02-02", "2020-01-01"}[:c.Count]
	}
	var order []int
	for _, sec := range c.Perm {
		if sec != 0 && c.Mask&(1<<sec) == 0 {
			continue
		}
		stmts := sectionStmts(sec, c.Sub, c.Count, dates)
		if len(stmts) > 0 {
			order = append(order, sec)
		}
		root.Kids = append(root.Kids, stmts...)
	}
	want := sort.IntsAreSorted(order)
	// revision dates must strictly descend
	datesOK := true
	for i := 1; i < len(dates); i++ {
		if dates[i] >= dates[i-1] {
			datesOK = false
		}
	}
	if c.Mask&(1<<3) != 0 && !datesOK {
		want = false
	}
	text, infos := yg.Render([]*yg.Stmt{toStmt(root, 0)}, "\n")
	ok, etxt, locs, fatal := parseText(text)
	if fatal != "" {
		out.Violation = fatal
		return out
	}
	if want {
		out.Labels = append(out.Labels, "order:valid")
	} else {
		out.Labels = append(out.Labels, "order:invalid")
	}
	if ok != want {
		out.Violation = fmt.Sprintf("section order %v (present mask %b, dates %v): must be accepted=%v, parser says accepted=%v (%s)\ntext: %s", c.Perm, c.Mask, dates, want, ok, etxt, text)
		return out
	}
	if !ok {
		// the offending statement: the first one that belongs to an earlier section than a statement in front of it, or the
		// first revision that is not older than the one in front of it
		off, maxSec, prevDate := -1, -1, ""
		for k, st := range root.Kids {
			sec := section(st.Kw)
			if sec < maxSec {
				off = k
				break
			}
			maxSec = sec
			if st.Kw == "revision" {
				if prevDate != "" && st.Arg >= prevDate {
					off = k
					break
				}
				prevDate = st.Arg
			}
		}
		idx, seen := -1, -1
		for i, in := range infos {
			if in.Depth == 1 {
				seen++
				if seen == off {
					idx = i
				}
			}
		}
		if !locOK(locs, infos, idx) {
			out.Violation = fmt.Sprintf("order rejection does not give the location of the offending statement (statement %d of the module, '%s %s'): %q\ntext: %s", off+1, root.Kids[max(off, 0)].Kw, root.Kids[max(off, 0)].Arg, etxt, text)
		}
	}
	return out
}

var orderProp = fw.Register(&fw.Prop[OrderCase]{
	ID: "C09", Name: "order",
	Rule: "all 5! orders of the five module sections x {module, submodule} x all subsets of present optional sections x {1,2} statements per section, and revision date sequences " +
		"(descending, equal, ascending); oracle: accepted iff the present sections are in header, linkage, meta, revision, body order and revision dates strictly descend; a rejection gives the line and column of the first statement that is out of place",
	Gen: func(t *rapid.T) OrderCase { return OrderCase{} }, Check: checkOrder,
})

func permutations(n int) [][]int {
	var out [][]int
	var rec func(cur []int, used int)
	rec = func(cur []int, used int) {
		if len(cur) == n {
			out = append(out, append([]int(nil), cur...))
			return
		}
		for i := 0; i < n; i++ {
			if used&(1<<i) == 0 {
				rec(append(cur, i), used|1<<i)
			}
		}
	}
	rec(nil, 0)
	return out
}

func TestSectionOrders(t *testing.T) {
	if fw.Shard() != 0 {
		return
	}
	n := int64(0)
	for _, sub := range []bool{false, true} {
		for _, perm := range permutations(5) {
			for mask := 0; mask < 32; mask += 2 {
				for count := 1; count <= 2; count++ {
					fw.Eval(orderProp, "", OrderCase{Sub: sub, Perm: perm, Mask: mask, Count: count})
					n++
				}
			}
		}
		for _, dates := range [][]string{{"2020-01-01"}, {"2020-01-02", "2020-01-01"}, {"2020-01-01", "2020-01-01"}, {"2020-01-01", "2020-01-02"},
			{"2020-03-01", "2020-02-01", "2020-01-01"}, {"2020-03-01", "2020-01-01", "2020-02-01"}, {"2020-03-01", "2020-03-01", "2020-01-01"},
			{"2019-12-31", "2020-01-01"}, {"2020-10-01", "2020-09-30"}, {"2020-09-30", "2020-10-01"}} {
			fw.Eval(orderProp, "", OrderCase{Sub: sub, Perm: []int{0, 1, 2, 3, 4}, Mask: 1 << 3, Count: len(dates), Dates: dates})
			n++
		}
	}
	fw.NoteExhaustive("order", "all section permutations x presence masks x counts x {module, submodule} + revision date sequences", n)
}

// ---- (c) argument syntax ---------------------------------------------------------------------

type ArgCase struct {
	Kind string  `json:"kind"`
	Arg  fw.BStr `json:"arg"`
}

// carrier returns the statement tree that carries an argument of the kind and the index path of the carrier.
func carrier(kind, arg string) (*S, string) {
	switch kind {
	case "identifier":
		return &S{"container", arg, nil}, "container"
	case "identifier-ref":
		return &S{"leaf", "x", []*S{{"type", arg, nil}}}, "type"
	case "date":
		return &S{"module", "m", []*S{{"namespace", "urn:m", nil}, {"prefix", "m", nil}, {"import", "i", []*S{{"prefix", "i", nil}, {"revision-date", arg, nil}}}}}, "revision-date"
	case "boolean":
		return &S{"leaf", "x", []*S{{"type", "string", nil}, {"config", arg, nil}}}, "config"
	case "integer":
		return &S{"leaf", "x", []*S{{"type", "enumeration", []*S{{"enum", "a", []*S{{"value", arg, nil}}}}}}}, "value"
	case "non-negative":
		return &S{"leaf-list", "x", []*S{{"type", "string", nil}, {"min-elements", arg, nil}}}, "min-elements"
	case "max-value":
		return &S{"leaf-list", "x", []*S{{"type", "string", nil}, {"max-elements", arg, nil}}}, "max-elements"
	case "status":
		return &S{"container", "x", []*S{{"status", arg, nil}}}, "status"
	case "ordered-by":
		return &S{"leaf-list", "x", []*S{{"type", "string", nil}, {"ordered-by", arg, nil}}}, "ordered-by"
	case "deviate":
		return &S{"deviation", "/x:y", []*S{{"deviate", arg, nil}}}, "deviate"
	case "fraction-digits":
		return &S{"leaf", "x", []*S{{"type", "decimal64", []*S{{"fraction-digits", arg, nil}}}}}, "fraction-digits"
	case "yang-version":
		return &S{"module", "m", []*S{{"yang-version", arg, nil}, {"namespace", "urn:m", nil}, {"prefix", "m", nil}}}, "yang-version"
	case "key":
		return &S{"list", "x", []*S{{"key", arg, nil}, leafS("k")}}, "key"
	case "absolute-schema":
		return &S{"deviation", arg, []*S{{"deviate", "not-supported", nil}}}, "deviation"
	case "descendant":
		return &S{"uses", "g", []*S{{"refine", arg, nil}}}, "refine"
	case "unique":
		return &S{"list", "x", []*S{{"key", "k", nil}, {"unique", arg, nil}, leafS("k")}}, "unique"
	case "range":
		return &S{"leaf", "x", []*S{{"type", "int32", []*S{{"range", arg, nil}}}}}, "range"
	case "length":
		return &S{"leaf", "x", []*S{{"type", "string", []*S{{"length", arg, nil}}}}}, "length"
	case "pattern":
		return &S{"leaf", "x", []*S{{"type", "string", []*S{{"pattern", arg, nil}}}}}, "pattern"
	}
	panic("no carrier for " + kind)
}

var validArgs = map[string][]string{
	"identifier":      {"a", "abc", "_a", "a1", "a-b", "a.b", "A", "x_y-z.9", "xm", "xxml", "mxl", "leaf", "a--", "a..", "Z9"},
	"identifier-ref":  {"a", "p:a", "abc:def", "_p:_a", "a.b:c-d", "string", "p:string"},
	"date":            {"2020-01-01", "1999-12-31", "0001-01-01", "2024-02-29"},
	"boolean":         {"true", "false"},
	"integer":         {"0", "1", "-1", "10", "-10", "2147483647", "-2147483648", "-0", "100", "7"},
	"non-negative":    {"0", "1", "10", "4294967295", "99"},
	"max-value":       {"unbounded", "1", "10", "4294967295"},
	"status":          {"current", "obsolete", "deprecated"},
	"ordered-by":      {"user", "system"},
	"deviate":         {"add", "delete", "replace", "not-supported"},
	"fraction-digits": {"1", "2", "9", "10", "17", "18"},
	"yang-version":    {"1"},
	"key":             {"k", "a b", "a  b", "a\tb", "a\nb", "p:a", "p:a q:b c", "a.b c-d"},
	"absolute-schema": {"/a", "/a/b", "/p:a", "/p:a/q:b/c", "/a.b/c-d"},
	"descendant":      {"a", "a/b", "p:a", "p:a/q:b/c", "a.b/c-d"},
	"unique":          {"a", "a b", "a/b", "a/b c/d", "p:a/q:b  c", "a\tb\nc"},
	"range":           {"1", "1..10", "min..max", "min..10", "1..max", "1|2", "1 | 2", "1..2|4..5", "1 .. 2 | 4 .. 5", "-5..5", "-10..-5", "0", "min", "max", "1.5..2.5", "-0.5..0.5", "1..2|3|4..max", "1\n..\n2", "0.01..99.99", "-1.05..1.05", "1.00..2.00", "min..0.001 | 0.5", "0.0", "10.010", "0.007"},
	"length":          {"1", "1..10", "min..max", "min..10", "1..max", "1|2", "1 | 2", "1..2|4..5", "1 .. 2 | 4 .. 5", "0", "min", "max", "0..0", "1..2|3|4..max"},
	"pattern": {"a", "abc", "a*", "a+b?", "(a|b)*", "[a-z]+", "[^0-9]", "a{2}", "a{2,}", "a{2,5}", "\\d+", "\\w*\\s\\S", "a|b|c", "(ab)+|c", "[a-zA-Z_][a-zA-Z0-9_.-]*",
		"\\p{L}+", "\\P{Nd}", "\\p{IsBasicLatin}*", ".*", "a.b", "\\.", "\\(a\\)", "[\\-a]", "[a\\]]", "((a))", "()", "a|", "|a", "", "[-a]", "[a-]", "é+", "[à-ü]", "x(y(z)?)*",
		"[0-9]{1,3}(\\.[0-9]{1,3}){3}", "\\[a\\]", "\\{", "a\\|b", "\\n\\r\\t", "[\\d.]+", "(a|b|)c", "a{0}", "a{0,0}", "\\^a", "[a^]", "[\\^a]"},
}

var nearMisses = map[string][]string{
	"identifier":      {"", "1a", "-a", ".a", "a b", "a:b", "xml", "XML", "Xml", "xmla", "xMLa", "é", "aé", "ê", "aê", "ña", "a/b", "a+", "a$", "a*", " a", "a ", "a\n", "a\tb", "a,b", "ªa", "aª", "µ", "º1", "ÀB"},
	"identifier-ref":  {"", ":a", "a:", "a:b:c", "p:1a", "1p:a", "p: a", "p :a", "xml:a", "p:xml", "p:XMLx", "a b", "p:é", "ê:a", "p::a", "p:a:", "p:-a"},
	"date":            {"", "2020-1-01", "2020-01-1", "20200101", "2020/01/01", "2020-01-01 ", " 2020-01-01", "+123-01-01", "-123-01-01", "2020-+1-01", "2020-01-+1", "2020-01--1", "2020-01-0a", "202a-01-01", "2020-01-011", "02020-01-01", "2020_01_01", "2020-01-01T", "٢٠٢٠-01-01", "2020-１1-01", "    -  -  ", "1e03-01-01", "0x20-01-01"},
	"boolean":         {"", "TRUE", "True", "FALSE", "False", "t", "f", "T", "F", "1", "0", "yes", "no", "true ", " true", "tru", "truee", "true\n"},
	"integer":         {"", "+1", "+0", "01", "00", "-01", "0x10", "0X10", "0o7", "0b1", "1_0", "1_000", "1.0", "1e3", " 1", "1 ", "--1", "-", "- 1", "1-", "a", "１", "٣", "1,000", "0x", "-0x1", "007", "0_1"},
	"non-negative":    {"", "-1", "-0", "+1", "01", "00", "0x10", "0o7", "0b1", "1_0", "1.0", "1e3", " 1", "1 ", "a", "１", "0x", "007"},
	"max-value":       {"", "0", "-1", "+1", "01", "00", "0x10", "0o7", "0b1", "1_0", "1.0", "UNBOUNDED", "Unbounded", "unbound", "unbounded ", " unbounded", "max", "infinity", "1 ", "１"},
	"status":          {"", "Current", "CURRENT", "current ", " current", "obsoleted", "deprecate", "active", "curren", "current\n"},
	"ordered-by":      {"", "User", "SYSTEM", "user ", " system", "users", "sys", "none"},
	"deviate":         {"", "Add", "ADD", "add ", "not_supported", "not-supported ", "notsupported", "remove", "not supported", "replace\n"},
	"fraction-digits": {"", "0", "19", "20", "01", "05", "+5", "+1", "-1", "1.0", "1 ", " 1", "a", "100", "0x1", "１", "1_", "018"},
	"yang-version":    {"", "1.0", "1.1", "2", "01", "+1", " 1", "1 ", "one", "１"},
	"key":             {"", " ", "a/b", "a,b", "1a", "a b/c", "p:", ":a", "a:b:c", "xml", "a xmlb", "a;b", "é", "a é", "a | b", "a=b", "a:1", "a\u00a0b", "a\vb", "a\fb", "\u00a0a", "a\u0085"},
	"absolute-schema": {"", "a", "a/b", "/", "//a", "/a/", "/a//b", "/1a", "/a b", "/p:", "/:a", "/a:b:c", "/xml", "/a/xmlb", "/é", "/a/ b", " /a", "/a ", "/p:a/", "/a/1"},
	"descendant":      {"", "/a", "a/", "a//b", "1a", "a b", "p:", ":a", "a:b:c", "xml", "a/xmlb", "é", "a/ b", " a", "a ", "a/1", "/", "a/b/"},
	"unique":          {"", " ", "/a", "a/ b", "a /b", "a//b", "1a", "a,b", "p:", "a:b:c", "xml", "a xmlb/c", "é", "a é", "a/", "a b/", "a\u00a0b", "a\fb/c", "a/b\vc"},
	"range":           {"", "abc", "1..", "..1", "1...2", "1..2..3", "1|", "|1", "1||2", "1 0..2 0", "1 0", "- 1", "0x10", "1_0", "+1", "01", "1e3", "1.", ".5", "1.5.2", "MIN", "Max", "min..min..max", "1;2", "1,2", "1-2", "1..2|", "minmax", "１", "1..2 3", "1.. 2..3", "a..b", "1..b", "--1", "1..+2"},
	"length":          {"", "abc", "1..", "..1", "1...2", "1..2..3", "1|", "|1", "1||2", "1 0..2 0", "1 0", "-1", "-1..5", "0x10", "1_0", "+1", "01", "1e3", "1.5", "1.0", "MIN", "Max", "1;2", "1,2", "1-2", "1..2|", "minmax", "１", "1..2 3", "a..b", "0o7", "0b1", "1..0x5"},
	"pattern": {"(", ")", "a(", "a)", "(a", "a)b", "((a)", "(a))", "a)(b", ")(", "a)|(b", "a)*(b", "x)(y)(z", ")|(", "a)?(", "[", "a[", "[a", "[a-", "[z-a]", "[9-0]", "[^", "*", "+", "?", "*a", "+a", "?a",
		"(*a)", "(+)", "a|*b", "a|+", "a**", "a+*", "a*+", "a{2}{3}", "a{2}*", "a{2,1}", "a{5,2}", "\\", "a\\", "\\q", "\\e", "\\y", "\\j", "\\k", "a\\qb", "\\p", "\\p{", "\\p{L", "\\p{Foo}",
		"\\P{Xx}", "\\pL}", "[a\\q]", "[\\", "(a|b", "a|b)", "(a|(b)", "[a-z", "[a-z]]", "a]", "]", "a)(b)(c", "(a)(b))((c)"},
}

func checkArg(c ArgCase) fw.Outcome {
	arg := string(c.Arg)
	out := fw.Outcome{Key: c.Kind + "|" + arg, Labels: []string{"kind:" + c.Kind}}
	if strings.ContainsAny(arg, "\x00") || !validUTF8(arg) {
		out.Skip = true
		return out
	}
	tree, kw := carrier(c.Kind, arg)
	st := toStmt(tree, 0)
	// an empty argument is written as "" (an absent argument is a different statement form)
	var fix func(s *yg.Stmt, src *S)
	fix = func(s *yg.Stmt, src *S) {
		if src.Kw == kw && src.Arg == "" && arg == "" {
			s.Pieces = []yg.Piece{{Q: "d", Raw: ""}}
		}
		for i := range s.Kids {
			fix(s.Kids[i], src.Kids[i])
		}
	}
	fix(st, tree)
	text, infos := yg.Render([]*yg.Stmt{st}, "\n")
	// the verdict is computed on the value the source form denotes (RFC 6020 6.1.3), not on the intended string
	for _, in := range infos {
		if in.Kw == kw {
			if in.Grey {
				out.Skip = true
				return out
			}
			arg = in.Value
			break
		}
	}
	want := argVerdict(c.Kind, arg)
	if c.Kind == "pattern" {
		want = patternVerdict(arg)
	}
	if want == 0 && (c.Kind == "key" || c.Kind == "unique" || c.Kind == "range" || c.Kind == "length") {
		// recorded known findings: accepted although not in the ABNF
		trimmed := strings.Trim(arg, " \t\r\n")
		if trimmed != arg && argVerdict(c.Kind, trimmed) == 1 && fw.Known("c09.edge-blanks") {
			want = -1
		}
		if c.Kind == "key" && strings.Contains(arg, "/") && argVerdict("unique", trimmed) == 1 && fw.Known("c09.key-nested-path") {
			want = -1
		}
	}
	if want < 0 {
		out.Skip = true
		return out
	}
	ok, etxt, locs, fatal := parseText(text)
	if fatal != "" {
		out.Violation = fatal + " on " + text
		return out
	}
	if want == 1 {
		out.Labels = append(out.Labels, "abnf:valid")
	} else {
		out.Labels = append(out.Labels, "abnf:invalid")
	}
	out.NonTrivial = true
	if ok != (want == 1) {
		out.Violation = fmt.Sprintf("%s argument %q: RFC 6020 ABNF says valid=%v, parser says accepted=%v (%s)", c.Kind, arg, want == 1, ok, etxt)
		return out
	}
	if !ok {
		var idxs []int
		for i, in := range infos {
			if in.Kw == kw {
				idxs = append(idxs, i)
				// the parent of the carrier is acceptable too
				for j := i - 1; j >= 0; j-- {
					if infos[j].Depth == in.Depth-1 {
						idxs = append(idxs, j)
						break
					}
				}
			}
		}
		if !locOK(locs, infos, idxs...) {
			out.Violation = fmt.Sprintf("rejection of %s argument %q does not give the location of the '%s' statement: %q\ntext: %s", c.Kind, arg, kw, etxt, text)
		}
	}
	return out
}

func validUTF8(s string) bool {
	for _, r := range s {
		if r == 0xFFFD {
			return false
		}
	}
	return true
}

var argKinds []string

func init() {
	for k := range validArgs {
		argKinds = append(argKinds, k)
	}
	sort.Strings(argKinds)
}

// editChars: inserted by the character-level edits; the last row are characters that Unicode counts as white space or
// digits but the YANG grammar does not (vertical tab, form feed, NEL, no-break space, em space, ideographic space,
// Arabic-Indic and fullwidth digits, fullwidth minus)
var editChars = []string{"", " ", "+", "-", "0", "1", "x", "_", ".", "/", ":", "|", "a", "é", "\t", "A", "9", "..", "0x", "e",
	"\v", "\f", "\u0085", "\u00a0", "\u2003", "\u3000", "\u0665", "\uff11", "\uff0d", "\r", "\n"}

// patEditChars: the metacharacters of the pattern language and a few ordinary characters
var patEditChars = []string{"(", ")", "[", "]", "*", "+", "?", "{", "}", "\\", "|", "-", "^", ".", ",", "a", "1", "é", " ", "\\d", "\\q", ")(", "(a", "b)", "{2}", "{3,1}"}

// genPattern draws a regular expression from the XML Schema grammar (branches, pieces with quantifiers, groups, classes
// with ranges and negation, single- and multi-character escapes, category escapes)
func genPattern(t *rapid.T, depth int) string {
	pick := func(n int, l string) int { return rapid.IntRange(0, n-1).Draw(t, l) }
	var b strings.Builder
	nb := 1 + pick(3, "branches")/2
	for i := 0; i < nb; i++ {
		if i > 0 {
			b.WriteByte('|')
		}
		for j := pick(4, "pieces"); j > 0; j-- {
			switch k := pick(10, "atom"); {
			case k < 3:
				b.WriteString([]string{"a", "b", "0", "é", "-", "_", ",", ":", " ", "z"}[pick(10, "char")])
			case k == 3:
				b.WriteByte('.')
			case k == 4 && depth > 0:
				b.WriteString("(" + genPattern(t, depth-1) + ")")
			case k == 5:
				b.WriteString([]string{"\\d", "\\w", "\\s", "\\D", "\\.", "\\\\", "\\-", "\\(", "\\)", "\\[", "\\]", "\\|", "\\*", "\\+", "\\?", "\\{", "\\}", "\\n", "\\t", "\\^"}[pick(20, "esc")])
			case k == 6:
				b.WriteString([]string{"\\p{L}", "\\p{Lu}", "\\P{Nd}", "\\p{IsBasicLatin}", "\\p{Zs}", "\\P{L}"}[pick(6, "cat")])
			case k == 7 || k == 8:
				b.WriteByte('[')
				if pick(3, "neg") == 0 {
					b.WriteByte('^')
				}
				for m := 1 + pick(3, "members"); m > 0; m-- {
					b.WriteString([]string{"a-z", "0-9", "A-F", "x", "_", "\\d", "\\-", "\\]", "à-ü", ".", "*", "(", ")", "+"}[pick(14, "member")])
				}
				b.WriteByte(']')
			default:
				b.WriteString([]string{"ab", "xyz", "10"}[pick(3, "word")])
			}
			if pick(3, "quant") == 0 {
				b.WriteString([]string{"*", "+", "?", "{2}", "{0,3}", "{1,}", "{3,3}"}[pick(7, "whichquant")])
			}
		}
	}
	return b.String()
}

func genArg(t *rapid.T) ArgCase {
	kind := argKinds[rapid.IntRange(0, len(argKinds)-1).Draw(t, "kind")]
	if kind == "pattern" && rapid.IntRange(0, 1).Draw(t, "grammar") == 1 {
		// a sentence of the grammar, as it is or with one or two characters of the language edited
		rs := []rune(genPattern(t, 2))
		for e := rapid.IntRange(0, 2).Draw(t, "patedits"); e > 0; e-- {
			pos := rapid.IntRange(0, len(rs)).Draw(t, "patpos")
			ins := []rune(patEditChars[rapid.IntRange(0, len(patEditChars)-1).Draw(t, "patins")])
			if rapid.Bool().Draw(t, "patreplace") && pos < len(rs) {
				rs = append(rs[:pos:pos], append(ins, rs[pos+1:]...)...)
			} else {
				rs = append(rs[:pos:pos], append(ins, rs[pos:]...)...)
			}
		}
		return ArgCase{Kind: kind, Arg: fw.BStr(string(rs))}
	}
	pool := validArgs[kind]
	if rapid.IntRange(0, 2).Draw(t, "pool") == 0 {
		pool = nearMisses[kind]
	}
	s := pool[rapid.IntRange(0, len(pool)-1).Draw(t, "base")]
	// zero to two character-level edits
	chars := editChars
	if kind == "pattern" {
		chars = patEditChars
	}
	for e := rapid.IntRange(0, 2).Draw(t, "edits"); e > 0; e-- {
		rs := []rune(s)
		pos := rapid.IntRange(0, len(rs)).Draw(t, "pos")
		switch rapid.IntRange(0, 3).Draw(t, "edit") {
		case 0: // insert
			ins := []rune(chars[rapid.IntRange(0, len(chars)-1).Draw(t, "ins")])
			rs = append(rs[:pos:pos], append(ins, rs[pos:]...)...)
		case 1: // delete
			if pos < len(rs) {
				rs = append(rs[:pos:pos], rs[pos+1:]...)
			}
		case 2: // case flip
			if pos < len(rs) {
				r := rs[pos]
				if r >= 'a' && r <= 'z' {
					rs[pos] = r - 32
				} else if r >= 'A' && r <= 'Z' {
					rs[pos] = r + 32
				}
			}
		default: // duplicate
			if pos < len(rs) {
				rs = append(rs[:pos:pos], append([]rune{rs[pos]}, rs[pos:]...)...)
			}
		}
		s = string(rs)
	}
	return ArgCase{Kind: kind, Arg: fw.BStr(s)}
}

var argProp = fw.Register(&fw.Prop[ArgCase]{
	ID: "C09", Name: "arg",
	Rule: "per argument kind (identifier, identifier-ref, date, boolean, integer, non-negative integer, max-value, status, ordered-by, deviate, fraction-digits, yang-version, key, unique, " +
		"absolute and descendant schema node id, range, length, pattern): strings of the RFC 6020 section 12 ABNF and near misses (case, sign, leading zeros, 0x/0o/0b/underscore forms, blanks, " +
		"empty, doubled separators, non-ASCII letters and digits) with 0-2 further character edits, carried by a minimal valid statement; oracle: regular expressions transcribed from the ABNF; " +
		"for pattern, strings over the metacharacters of the XML Schema regular expression language (groups, classes, ranges, quantifiers, escapes, category escapes) and near misses (unbalanced " +
		"or crossed parentheses, open classes, reversed ranges, quantifiers without atom or doubled, unknown escapes and categories); oracle: a recogniser of XML Schema Part 2 Appendix F " +
		"where the regexp library agrees with it on the bare pattern, the rest is grey; " +
		"a rejection must give the location of the carrying statement or its parent; grey (calendar validity, 32-bit range) skipped; distinct by (kind, string)",
	Gen: genArg, Check: checkArg,
	MinLabel: []string{"abnf:valid", "abnf:invalid"},
})

func TestMain(m *testing.M) { fw.Main(m) }

func TestArgCorpus(t *testing.T) {
	if fw.Shard() != 0 {
		return
	}
	for _, k := range argKinds {
		for _, s := range validArgs[k] {
			fw.Eval(argProp, "/corpus", ArgCase{k, fw.BStr(s)})
		}
		for _, s := range nearMisses[k] {
			fw.Eval(argProp, "/corpus", ArgCase{k, fw.BStr(s)})
		}
	}
}

func TestArgs(t *testing.T) { fw.Run(t, argProp) }
