// Package sgc parses and compiles abstract module sets (package sg) with the
// code under test, under a watchdog and with panic capture.
package sgc

import (
	"strings"
	"fmt"
	"os"
	"runtime/debug"
	"time"

	"verifharness/sg"

	"github.com/sdcio/yang-parser/compile"
	"github.com/sdcio/yang-parser/parse"
	"github.com/sdcio/yang-parser/schema"
)

type Result struct {
	MS       schema.ModelSet
	Err      error  // parse or compile error
	ParseErr bool   // the error came from parsing
	Panic    string // a panic escaped
	Hang     bool
}

func (r Result) OK() bool { return r.Err == nil && r.Panic == "" && !r.Hang && r.MS != nil }

func (r Result) Describe() string {
	switch {
	case r.Hang:
		return "did not return within the watchdog"
	case r.Panic != "":
		return "panic: " + r.Panic
	case r.Err != nil:
		return "error: " + r.Err.Error()
	}
	return "ok"
}

// Opts of one compilation.
type Opts struct {
	Order    []int // order in which the module texts are parsed (nil: as given)
	Features compile.FeaturesChecker
	Filter   compile.SchemaFilter
	Separate bool // parse every module with its own interners
	// SkipUnknown: the compiler option that tolerates references into modules that are not loaded (imports of absent
	// modules, their types and extensions).  It tolerates nothing else: a prefix no import binds is still an error.
	SkipUnknown bool
	// PriorFilters: the same parse trees are compiled with each of these filters first (a nil entry: without a filter),
	// the results thrown away: parse trees may be compiled again (compile.CompileDirKeepMods hands them back for that)
	PriorFilters []compile.SchemaFilter
	HasPrior     bool
	// CRLF: the texts rendered from the model are given CR LF line ends (Compile only)
	CRLF bool
}

// CompileTexts parses the named texts and compiles them.
func CompileTexts(names []string, texts []string, o Opts) (res Result) {
	done := make(chan Result, 1)
	go func() {
		var r Result
		defer func() {
			if p := recover(); p != nil {
				r.Panic = fmt.Sprint(p)
				if os.Getenv("VERIF_DEBUG") != "" {
					r.Panic += "\n" + string(debug.Stack())
				}
			}
			done <- r
		}()
		order := o.Order
		if order == nil {
			for i := range texts {
				order = append(order, i)
			}
		}
		trees := make(map[string]*parse.Tree)
		si, ai := parse.NewStringInterner(), parse.NewArgInterner()
		for _, i := range order {
			var t *parse.Tree
			var err error
			if o.Separate {
				t, err = parse.Parse(names[i]+".yang", texts[i], nil)
			} else {
				t, err = parse.ParseWithInterners(names[i]+".yang", texts[i], nil, si, ai)
			}
			if err != nil {
				r.Err = err
				r.ParseErr = true
				return
			}
			trees[names[i]] = t
		}
		feats := o.Features
		if feats == nil {
			feats = compile.FeaturesFromNames(true)
		}
		if o.HasPrior {
			for _, pf := range o.PriorFilters {
				compile.CompileParseTrees(nil, trees, feats, o.SkipUnknown, pf)
			}
		}
		ms, err := compile.CompileParseTrees(nil, trees, feats, o.SkipUnknown, o.Filter)
		r.MS, r.Err = ms, err
	}()
	select {
	case r := <-done:
		return r
	case <-time.After(60 * time.Second):
		return Result{Hang: true}
	}
}

// Compile renders and compiles a module set.
func Compile(mods []*sg.Mod, o Opts) Result {
	names := make([]string, len(mods))
	texts := make([]string, len(mods))
	for i, m := range mods {
		names[i] = m.Name
		texts[i] = m.Text()
		if o.CRLF {
			texts[i] = strings.ReplaceAll(texts[i], "\n", "\r\n")
		}
	}
	return CompileTexts(names, texts, o)
}

// AllFeatures enables every feature (the checker answers ENABLED for any name).
type AllFeatures struct{}

func (AllFeatures) Status(string) compile.FeatureStatus { return compile.ENABLED }

// FeatureSet enables exactly the listed "module:feature" names.
type FeatureSet map[string]bool

func (f FeatureSet) Status(n string) compile.FeatureStatus {
	if f[n] {
		return compile.ENABLED
	}
	return compile.DISABLED
}
