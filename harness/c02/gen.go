package c02

import (
	"verifharness/fw"
	"verifharness/tree"
	"verifharness/xp"

	"pgregory.net/rapid"
)

// Case: an expression containing location paths, the context node and whether a prefix map is supplied.
type Case struct {
	Expr   *xp.E   `json:"expr"`
	Ctx    tree.ID `json:"ctx"`
	MapFn  bool    `json:"mapfn"`
	Blanks bool    `json:"blanks,omitempty"`
	// StoredPaths: the data tree hands out one stored path object per node (GetSdcpbPath, used for the target of a
	// deref) and the machine is evaluated once more on the same tree: the second evaluation asks as the first did
	StoredPaths bool `json:"stored_paths,omitempty"`
}

var names = []string{"a", "b", "c", "d", "e", "if", "div", "and", "x-1", "lst"}
var keyNames = []string{"k", "name", "id", "mod", "z"}

type gen struct{ t *rapid.T }

func (g *gen) pick(n int, l string) int { return rapid.IntRange(0, n-1).Draw(g.t, l) }

func (g *gen) nameStep() xp.Step {
	s := xp.Step{Kind: "name", Name: names[g.pick(len(names), "name")]}
	if g.pick(4, "pfx") == 0 {
		s.Prefix = []string{"p", "q"}[g.pick(2, "pfxname")]
	}
	return s
}

// operandPath: predicate-free; absolute, current()-rooted or starting with '..'
func (g *gen) operandPath(allowDeref bool) *xp.Path {
	p := &xp.Path{}
	kind := g.pick(4, "opndroot")
	if kind == 3 && !allowDeref {
		kind = g.pick(3, "opndroot2")
	}
	switch kind {
	case 0:
		p.Root = "abs"
	case 1:
		p.Root = "cur"
	case 2:
		p.Root = "rel"
		p.Steps = append(p.Steps, xp.Step{Kind: "up"})
	default:
		p.Root = "deref"
		p.Deref = g.operandPath(false)
	}
	n := g.pick(4, "opndsteps")
	if p.Root == "abs" && n == 0 {
		n = 1
	}
	for i := 0; i < n; i++ {
		if g.pick(4, "opndup") == 0 {
			p.Steps = append(p.Steps, xp.Step{Kind: "up"})
		} else {
			p.Steps = append(p.Steps, g.nameStep())
		}
	}
	return p
}

func (g *gen) operand() *xp.E {
	switch g.pick(7, "operand") {
	case 0:
		return xp.Lit([]string{"v", "eth0", "", "a b", "10.0.0.1/24", "é"}[g.pick(6, "lit")])
	case 1:
		return xp.Num([]string{"1", "42", "0", "1.5", "007", "9223372036854775808", "18446744073709551615", "10000000000000000000", "4294967296", "99999999999999999999999", "9007199254740993", "0.000001"}[g.pick(12, "num")])
	case 2:
		// function result over literals / numbers / one operand path
		switch g.pick(8, "fn") {
		case 7:
			// a boolean function result (no comparison inside): the key's value is "true" or "false"
			switch g.pick(6, "boolfn") {
			case 0:
				return xp.Call("true")
			case 1:
				return xp.Call("false")
			case 2:
				return xp.Call("not", xp.Call("false"))
			case 3:
				return xp.Call("contains", xp.Lit("abc"), xp.Lit("b"))
			case 4:
				return xp.Call("starts-with", xp.Call("string", xp.PathE(g.operandPath(true))), xp.Lit("v"))
			default:
				return xp.Call("boolean", xp.Lit("x"))
			}
		case 6:
			// a function result whose argument holds a comparison of its own
			if fw.Known("c02.comparison-inside-predicate-operand") {
				return xp.Call("string", xp.PathE(g.operandPath(true)))
			}
			switch g.pick(3, "innercmp") {
			case 0:
				return xp.Call("boolean", xp.Bin("=", xp.Lit("a"), xp.Lit("a")))
			case 1:
				return xp.Call("not", xp.Bin("=", xp.PathE(g.operandPath(false)), xp.Lit("y")))
			default:
				return xp.Call("string", xp.Bin("=", xp.Num("1"), xp.Num("1")))
			}
		case 4:
			return xp.Call("concat", xp.PathE(g.operandPath(true)), xp.PathE(g.operandPath(true)))
		case 5:
			return xp.Call("concat", xp.Call("string", xp.PathE(g.operandPath(true))), xp.Call("substring", xp.PathE(g.operandPath(true)), xp.Num("1"), xp.Num("8")))
		case 0:
			return xp.Call("concat", xp.Lit("x"), xp.PathE(g.operandPath(true)))
		case 1:
			return xp.Call("string", xp.PathE(g.operandPath(true)))
		case 2:
			return xp.Bin("+", xp.Num("1"), xp.Num("2"))
		default:
			return xp.Call("substring", xp.Lit("abcdef"), xp.Num("2"), xp.Num("3"))
		}
	default:
		return xp.PathE(g.operandPath(true))
	}
}

func (g *gen) mainPath() *xp.Path {
	p := &xp.Path{Root: []string{"rel", "rel", "abs", "cur", "deref"}[g.pick(5, "root")]}
	if p.Root == "deref" {
		p.Deref = g.operandPath(false)
		if g.pick(2, "derefrel") == 0 {
			// deref of a plain relative path
			p.Deref = &xp.Path{Root: "rel", Steps: []xp.Step{g.nameStep()}}
		}
	}
	n := 1 + g.pick(6, "nsteps")
	if (p.Root == "cur" || p.Root == "deref") && g.pick(4, "nosteps") == 0 {
		n = 0
	}
	for i := 0; i < n; i++ {
		switch g.pick(8, "stepkind") {
		case 0:
			p.Steps = append(p.Steps, xp.Step{Kind: "up"})
		case 1:
			if g.pick(3, "self") == 0 {
				p.Steps = append(p.Steps, xp.Step{Kind: "self"})
			} else {
				p.Steps = append(p.Steps, g.nameStep())
			}
		default:
			s := g.nameStep()
			np := []int{0, 0, 1, 1, 2, 3}[g.pick(6, "npreds")]
			perm := rapid.Permutation(keyNames).Draw(g.t, "keys")
			for j := 0; j < np; j++ {
				s.Preds = append(s.Preds, xp.Pred{Key: perm[j], Val: g.operand()})
			}
			p.Steps = append(p.Steps, s)
		}
	}
	return p
}

func (g *gen) ctxID() tree.ID {
	d := g.pick(5, "ctxdepth")
	id := tree.ID{}
	for i := 0; i < d; i++ {
		e := tree.Elem{Name: names[g.pick(len(names), "ctxname")]}
		if g.pick(3, "ctxkey") == 0 {
			e.Keys = map[string]string{keyNames[g.pick(len(keyNames), "ck")]: []string{"1", "x", "a b"}[g.pick(3, "cv")]}
		}
		id = append(id, e)
	}
	return id
}

func genCase(t *rapid.T) Case {
	g := &gen{t}
	p1 := xp.PathE(g.mainPath())
	if g.pick(6, "emptyll") == 0 {
		// the path designates a leaf-list that holds nothing (a node named "le": the free tree answers with a value set
		// without members), whose string-value is empty and which equals nothing
		le := g.mainPath()
		le.Steps = append(le.Steps, xp.Step{Kind: "name", Name: "le"})
		p1 = xp.PathE(le)
	}
	var e *xp.E
	switch g.pick(10, "context") {
	case 0, 1:
		e = p1
	case 2:
		e = xp.Call("string", p1)
	case 3:
		e = xp.Bin("=", p1, xp.Lit("x"))
	case 4:
		e = xp.Bin("+", xp.Num("1"), p1)
	case 5:
		e = xp.Bin("=", p1, xp.PathE(g.mainPath()))
	case 6:
		e = xp.Call("concat", p1, xp.PathE(g.mainPath()))
	case 7:
		e = xp.Bin("or", xp.Bin("=", p1, xp.PathE(g.mainPath())), xp.Bin("!=", xp.PathE(g.mainPath()), xp.Lit("y")))
	default:
		// a comparison with a multi-valued leaf-list (a node named "ll": the free tree answers with two values) stands
		// before further paths with predicates: what the comparison of value sets leaves behind must not show in them
		ll := g.mainPath()
		ll.Steps = append(ll.Steps, xp.Step{Kind: "name", Name: "ll"})
		first := xp.Bin([]string{"=", "!=", "="}[g.pick(3, "llop")], xp.PathE(ll), xp.Lit([]string{"x", "val:/ll#1", ""}[g.pick(3, "lllit")]))
		e = xp.Bin([]string{"or", "and"}[g.pick(2, "llbool")], first, xp.Bin("=", p1, xp.PathE(g.mainPath())))
		if g.pick(2, "llthird") == 0 {
			e = xp.Bin("or", e, xp.Bin("!=", xp.PathE(g.mainPath()), xp.Lit("y")))
		}
	}
	return Case{Expr: e, Ctx: g.ctxID(), MapFn: rapid.Bool().Draw(t, "mapfn"), Blanks: rapid.Bool().Draw(t, "blanks"), StoredPaths: rapid.Bool().Draw(t, "storedpaths")}
}

// Gen is the exported generator (used by C05/C06).
func Gen(t *rapid.T) Case { return genCase(t) }

// Source renders the case's expression.
func Source(c Case) string { return xp.Join(xp.Tokens(c.Expr, xp.MinParens), nil) }
