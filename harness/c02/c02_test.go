package c02

import (
	"context"
	"encoding/json"
	"fmt"
	"sort"
	"strings"
	"testing"

	"verifharness/fw"
	"verifharness/tree"
	"verifharness/xp"

	"github.com/sdcio/yang-parser/xpath"
	"github.com/sdcio/yang-parser/xpath/grammars/expr"
)

func classify(c Case) (labels []string, nontrivial bool) {
	npaths, maxsteps := 0, 0
	feature := false
	seen := map[string]bool{}
	add := func(l string) {
		if !seen[l] {
			seen[l] = true
			labels = append(labels, l)
		}
	}
	var visitPath func(p *xp.Path, operand bool)
	visitPath = func(p *xp.Path, operand bool) {
		if operand {
			add("operand-root:" + p.Root)
		} else {
			add("root:" + p.Root)
		}
		if p.Root == "deref" {
			feature = true
			visitPath(p.Deref, true)
		}
		if len(p.Steps) > maxsteps {
			maxsteps = len(p.Steps)
		}
		for _, s := range p.Steps {
			if s.Kind == "up" {
				feature = true
				add("up-step")
			}
			if s.Prefix != "" {
				add("prefixed")
			}
			if len(s.Preds) > 0 {
				feature = true
				add(fmt.Sprintf("preds:%d", len(s.Preds)))
				for _, pr := range s.Preds {
					add("operand:" + pr.Val.K)
					xp.Walk(pr.Val, func(x *xp.E) {
						if x.K == "path" {
							visitPath(x.P, true)
						}
					})
				}
			}
		}
	}
	var top func(e *xp.E)
	top = func(e *xp.E) {
		if e.K == "path" {
			npaths++
			visitPath(e.P, false)
			return
		}
		for _, a := range e.A {
			top(a)
		}
	}
	top(c.Expr)
	if npaths >= 2 {
		feature = true
		add("multi-path")
	}
	add(fmt.Sprintf("ctxdepth:%d", len(c.Ctx)))
	return labels, maxsteps >= 2 && feature
}

// valueOf: the free tree's values; a node named "ll" is a leaf-list with two values, a node named "le" a leaf-list
// that holds nothing (as the model has it).
func valueOf(id tree.ID) (xpath.Datum, error) {
	if IsLeafList(id) {
		return xpath.NewDatumSliceDatum([]xpath.Datum{xpath.NewLiteralDatum(tree.DefaultValue(id) + "#1"), xpath.NewLiteralDatum(tree.DefaultValue(id) + "#2")}), nil
	}
	if IsEmptyLeafList(id) {
		if len(id)%2 == 0 {
			return xpath.NewDatumSliceDatum([]xpath.Datum{}), nil
		}
		return xpath.NewDatumSliceDatum(nil), nil
	}
	return xpath.NewLiteralDatum(tree.DefaultValue(id)), nil
}

func checkCase(c Case) fw.Outcome {
	labels, nt := classify(c)
	out := fw.Outcome{Labels: labels, NonTrivial: nt}
	toks := xp.Tokens(c.Expr, xp.MinParens)
	var ws []string
	if c.Blanks {
		ws = make([]string, len(toks)+1)
		for i := range ws {
			ws[i] = " "
		}
	}
	src := xp.Join(toks, ws)
	out.Key = src + "@" + c.Ctx.String()

	// the machine is evaluated twice: at the context of the case, then one level deeper in a tree in which the list
	// entries that only the first evaluation asked for do not exist - nothing of an earlier evaluation may show in a later one
	ctxs := []tree.ID{c.Ctx, append(append(tree.ID{}, c.Ctx...), tree.Elem{Name: "second-run"})}
	models := []*model{{ctx: ctxs[0]}, {ctx: ctxs[1]}}
	wants := make([]xp.Val, 2)
	werrs := make([]error, 2)
	for i := range models {
		wants[i], werrs[i] = xp.Eval(c.Expr, models[i])
	}
	onlyFirst := map[string]bool{}
	for _, r := range models[0].reqs {
		if r.Op == "GetValue" {
			onlyFirst["val:"+r.ID] = true
		}
	}
	for _, r := range models[1].reqs {
		delete(onlyFirst, "val:"+r.ID)
	}

	var mapFn xpath.PfxMapFn
	if c.MapFn {
		mapFn = func(p string) (string, error) { return "urn:" + p, nil }
	}
	mach, err := expr.NewExprMachine(src, mapFn)
	if err != nil {
		out.Violation = fmt.Sprintf("supported path expression %q does not compile: %v", src, err)
		return out
	}
	var firstTrace []tree.Call
	for pass := 0; pass < 2; pass++ {
		m, want, werr := models[pass], wants[pass], werrs[pass]
		tr := &tree.Tree{ValueOf: valueOf, SharedPaths: c.StoredPaths && pass == 0}
		if pass == 1 {
			tr.Absent = func(v string) bool { return onlyFirst[v] }
		}
		res := xpath.NewCtxFromCurrent(context.Background(), mach, tr.At(ctxs[pass])).SetDebug(len(src)%3 == pass).Run()
		if pass == 0 {
			firstTrace = tr.Trace
		}
		var got []Req
		for _, call := range tr.Trace {
			if call.Err != "" {
				continue
			}
			if call.Op == "GetValue" || call.Op == "FollowLeafRef" {
				got = append(got, Req{call.Op, call.Recv})
			}
		}
		describe := func() string {
			var b strings.Builder
			fmt.Fprintf(&b, "evaluation %d of the machine: expression %q at context %s\n expected requests: %v\n observed requests: %v\n trace:", pass+1, src, ctxs[pass], m.reqs, got)
			for _, call := range tr.Trace {
				fmt.Fprintf(&b, "\n   %s recv=%s arg=%s -> %s %s", call.Op, call.Recv, call.Arg, call.Result, call.Err)
			}
			return b.String()
		}
		if werr != nil {
			// the path climbs above the root: the tree's error must surface
			out.Labels = append(out.Labels, "above-root")
			if res.GetError() == nil {
				out.Violation = "path climbs above the root but the run reports no error\n" + describe()
				return out
			}
			continue
		}
		if res.GetError() != nil {
			out.Violation = fmt.Sprintf("run error %v\n%s", res.GetError(), describe())
			return out
		}
		if len(got) != len(m.reqs) {
			out.Violation = "number of value requests differs\n" + describe()
			return out
		}
		for i := range got {
			if got[i] != m.reqs[i] {
				out.Violation = fmt.Sprintf("value request %d differs\n%s", i+1, describe())
				return out
			}
		}
		// every list entry a path names is asked for, also when a later ".." leaves it again (it may not exist)
		for n := range m.named {
			if !tr.Named[n] {
				out.Violation = fmt.Sprintf("the paths name the list entry %s, no navigation of the run names it\n%s", n, describe())
				return out
			}
		}
		for n := range tr.Named {
			if !m.named[n] {
				out.Violation = fmt.Sprintf("a navigation of the run names the list entry %s, which no path names\n%s", n, describe())
				return out
			}
		}
		if c.StoredPaths && pass == 0 {
			// once more on the same tree, which keeps the path objects it handed out
			tr.Trace, tr.Named = nil, nil
			res2 := xpath.NewCtxFromCurrent(context.Background(), mach, tr.At(ctxs[pass])).Run()
			var again []Req
			for _, call := range tr.Trace {
				if call.Err == "" && (call.Op == "GetValue" || call.Op == "FollowLeafRef") {
					again = append(again, Req{call.Op, call.Recv})
				}
			}
			if res2.GetError() != nil || fmt.Sprint(again) != fmt.Sprint(got) {
				out.Violation = fmt.Sprintf("evaluated again on the same data tree (which hands out stored path objects) the machine asks differently: %v (error %v)\n%s", again, res2.GetError(), describe())
				return out
			}
			if msg, ok := tr.StoredPathsIntact(); !ok {
				out.Violation = fmt.Sprintf("the evaluation wrote into a path object of the data tree: %s\n%s", msg, describe())
				return out
			}
		}
		// value of the expression
		gs, gerr := res.GetLiteralResult()
		if gerr != nil {
			out.Violation = fmt.Sprintf("the run reports no error, reading its value does: %v\n%s", gerr, describe())
			return out
		}
		if ws := xp.ToStr(want); gs != ws {
			out.Violation = fmt.Sprintf("value differs: got %q want %q\n%s", gs, ws, describe())
			return out
		}
	}
	// "regardless of predicate order": the same expression with the predicates of every step written in the opposite
	// order puts exactly the same questions to the data tree (as a multiset: the order of evaluation follows the text)
	if werrs[0] == nil {
		rev := sg2Clone(c.Expr)
		multi := false
		xp.Walk(rev, func(e *xp.E) {
			for p := e.P; p != nil; p = p.Deref {
				for i := range p.Steps {
					if ps := p.Steps[i].Preds; len(ps) >= 2 {
						multi = true
						for a, b := 0, len(ps)-1; a < b; a, b = a+1, b-1 {
							ps[a], ps[b] = ps[b], ps[a]
						}
					}
				}
			}
		})
		if multi {
			out.Labels = append(out.Labels, "preds-reversed")
			rsrc := xp.Join(xp.Tokens(rev, xp.MinParens), nil)
			rm, err := expr.NewExprMachine(rsrc, mapFn)
			if err != nil {
				out.Violation = fmt.Sprintf("%q compiles, the same with the predicates in the opposite order (%q) does not: %v", src, rsrc, err)
				return out
			}
			tr := &tree.Tree{ValueOf: valueOf}
			xpath.NewCtxFromCurrent(context.Background(), rm, tr.At(ctxs[0])).Run()
			questions := func(calls []tree.Call) []string {
				var q []string
				for _, call := range calls {
					q = append(q, call.Op+" "+call.Recv+" "+call.Arg)
				}
				sort.Strings(q)
				return q
			}
			a, b := questions(firstTrace), questions(tr.Trace)
			if strings.Join(a, "\n") != strings.Join(b, "\n") {
				out.Violation = fmt.Sprintf("the questions put to the data tree depend on the order of the predicates\n%q:\n  %s\n%q:\n  %s", src, strings.Join(a, "\n  "), rsrc, strings.Join(b, "\n  "))
				return out
			}
		}
	}
	return out
}

// sg2Clone deep-copies an expression through JSON.
func sg2Clone(e *xp.E) *xp.E {
	b, _ := json.Marshal(e)
	var out xp.E
	_ = json.Unmarshal(b, &out)
	return &out
}

var paths = fw.Register(&fw.Prop[Case]{
	ID:   "C02",
	Name: "paths",
	Rule: "location paths (relative, absolute, current()- and deref()-rooted; 0-6 name/../. steps; 0-3 predicates per step with distinct keys in random order; " +
		"operands literal, number, function result, absolute / current()-rooted / '..'-starting / deref() operand paths), evaluated alone, inside scalar contexts and next to further paths, " +
		"from generated context nodes of depth 0-4; oracle = reference model of the value requests (op, canonical identity) and of the value; " +
		"non-trivial = at least 2 steps and a predicate, deref, up-step or a second path; distinct by rendered expression + context",
	Gen:   genCase,
	Check: checkCase,
	MinLabel: []string{"root:rel", "root:abs", "root:cur", "root:deref", "operand-root:cur", "operand-root:rel", "operand-root:deref",
		"preds:1", "preds:2", "preds:3", "up-step", "prefixed", "multi-path", "operand:lit", "operand:num", "operand:call", "operand:path"},
})

func TestMain(m *testing.M) { fw.Main(m) }

func TestPaths(t *testing.T) { fw.Run(t, paths) }
