// Package c02: location paths resolve to exactly the designated data node.
package c02

import (
	"fmt"

	"verifharness/tree"
	"verifharness/xp"
)

// Req is one value request the expression must make.
type Req struct {
	Op string // GetValue | FollowLeafRef
	ID string
}

// model computes, from the AST and the context identity, the ordered list of
// value requests and the value of the expression (reference semantics).
type model struct {
	ctx  tree.ID
	base []tree.ID // innermost predicate context (the step node being filtered)
	reqs []Req
	// named: the list entries the paths name (identity of every step that carries keys), whether or not a later step
	// climbs out of them again
	named map[string]bool
}

func cloneID(id tree.ID) tree.ID {
	out := make(tree.ID, len(id))
	for i, e := range id {
		ne := tree.Elem{Name: e.Name}
		if len(e.Keys) > 0 {
			ne.Keys = map[string]string{}
			for k, v := range e.Keys {
				ne.Keys[k] = v
			}
		}
		out[i] = ne
	}
	return out
}

func (m *model) start() tree.ID {
	if len(m.base) > 0 {
		return cloneID(m.base[len(m.base)-1])
	}
	return cloneID(m.ctx)
}

func (m *model) identity(p *xp.Path) (tree.ID, error) {
	var cur tree.ID
	switch p.Root {
	case "rel":
		cur = m.start()
	case "abs":
		cur = tree.ID{}
	case "cur":
		cur = cloneID(m.ctx)
	case "deref":
		inner, err := m.identity(p.Deref)
		if err != nil {
			return nil, err
		}
		m.reqs = append(m.reqs, Req{"FollowLeafRef", inner.String()})
		cur = tree.DefaultLeafRef(inner)
		// (the path of the target, as the tree reports it, names its list entries)
		for i, el := range cur {
			if len(el.Keys) > 0 {
				if m.named == nil {
					m.named = map[string]bool{}
				}
				m.named[cur[:i+1].String()] = true
			}
		}
	}
	for _, s := range p.Steps {
		switch s.Kind {
		case "up":
			if len(cur) == 0 {
				return nil, fmt.Errorf("above root")
			}
			cur = cur[:len(cur)-1]
		case "self":
		default:
			el := tree.Elem{Name: s.Name}
			if len(s.Preds) > 0 {
				el.Keys = map[string]string{}
				stepBase := append(cloneID(cur), tree.Elem{Name: s.Name})
				for _, pr := range s.Preds {
					m.base = append(m.base, stepBase)
					v, err := xp.Eval(pr.Val, m)
					m.base = m.base[:len(m.base)-1]
					if err != nil {
						return nil, err
					}
					el.Keys[pr.Key] = xp.ToStr(v)
				}
			}
			cur = append(cur, el)
			if len(el.Keys) > 0 {
				if m.named == nil {
					m.named = map[string]bool{}
				}
				m.named[cur.String()] = true
			}
		}
	}
	return cur, nil
}

// Resolve implements xp.Env: a path evaluates to the node-set holding the one
// node it designates, whose string-value is what the free tree reports.
func (m *model) Resolve(p *xp.Path) (xp.Val, error) {
	id, err := m.identity(p)
	if err != nil {
		return xp.Val{}, err
	}
	m.reqs = append(m.reqs, Req{"GetValue", id.String()})
	if IsLeafList(id) {
		return xp.VSet([]string{tree.DefaultValue(id) + "#1", tree.DefaultValue(id) + "#2"}), nil
	}
	if IsEmptyLeafList(id) {
		return xp.VSet(nil), nil
	}
	return xp.VSet([]string{tree.DefaultValue(id)}), nil
}

// IsLeafList: the nodes named "ll" are leaf-lists with two values.
func IsLeafList(id tree.ID) bool { return len(id) > 0 && id[len(id)-1].Name == "ll" }

// IsEmptyLeafList: the nodes named "le" are leaf-lists that hold nothing.
func IsEmptyLeafList(id tree.ID) bool { return len(id) > 0 && id[len(id)-1].Name == "le" }
