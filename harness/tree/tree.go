// Package tree is the harness's model data tree: a "free tree" in which every
// syntactically possible node exists.  A node's identity is its canonical
// absolute path.  Every callback the XPath machine makes is recorded, and a
// fault plan can make the k-th callback fail with a unique sentinel error.
package tree

import (
	gocontext "context"
	"fmt"
	"sort"
	"strings"
	"sync"

	sdcpb "github.com/sdcio/sdc-protos/sdcpb"
	"github.com/sdcio/yang-parser/xpath"
)

// Elem is one element of an identity.
type Elem struct {
	Name string            `json:"name"`
	Keys map[string]string `json:"keys,omitempty"`
}

// ID is a canonical absolute path.
type ID []Elem

func (id ID) String() string {
	if len(id) == 0 {
		return "/"
	}
	var b strings.Builder
	for _, e := range id {
		b.WriteString("/")
		b.WriteString(e.Name)
		ks := make([]string, 0, len(e.Keys))
		for k := range e.Keys {
			ks = append(ks, k)
		}
		sort.Strings(ks)
		for _, k := range ks {
			fmt.Fprintf(&b, "[%s=%q]", k, e.Keys[k])
		}
	}
	return b.String()
}

func (id ID) clone() ID {
	out := make(ID, len(id))
	for i, e := range id {
		ne := Elem{Name: e.Name}
		if len(e.Keys) > 0 {
			ne.Keys = make(map[string]string, len(e.Keys))
			for k, v := range e.Keys {
				ne.Keys[k] = v
			}
		}
		out[i] = ne
	}
	return out
}

// Call is one recorded callback.
type Call struct {
	Op     string `json:"op"`   // Navigate GetValue FollowLeafRef BreadthSearch
	Recv   string `json:"recv"` // identity of the receiver
	Arg    string `json:"arg,omitempty"`
	Result string `json:"result,omitempty"`
	Err    string `json:"err,omitempty"`
}

// Tree is the shared state of one data tree instance (one per run).
type Tree struct {
	// ValueOf gives the datum of a node; nil means a literal derived from the identity.
	ValueOf func(id ID) (xpath.Datum, error)
	// LeafRefOf gives the target identity of a leafref node.
	LeafRefOf func(id ID) ID
	// CountOf gives the number of entries BreadthSearch reports.
	CountOf func(start ID, arg string) int

	// Absent, when set, makes Navigate fail for a path that names a list entry by a key value for which it returns true.
	Absent func(keyValue string) bool

	Trace []Call
	// Named: every list entry a successfully resolved Navigate path named on its way (identity of each element with
	// keys), also when a later ".." left it again
	Named   map[string]bool
	FaultAt int // 1-based index of the callback that fails; 0 = none
	PanicAt int // 1-based index of the callback that panics with PanicWith instead of returning
	// PanicWith is the panic value (any type: a data tree is foreign code).
	PanicWith any
	NilAt     int // 1-based index of the callback which, if it is a GetValue, returns a nil datum without an error
	calls     int
	// Record can be switched off for concurrent use (C06).
	NoRecord bool
	// SharedPaths: GetSdcpbPath hands out one stored path object per node instead of a fresh one for every call (an
	// entry is free to do so); what an evaluation does with such a path must not show in the next one.  Not for
	// concurrent use.
	SharedPaths bool
	// Paths: like SharedPaths, with a store that may be shared by trees and goroutines (C06)
	Paths     *PathStore
	stored    map[string]*sdcpb.Path
	storedIDs map[string]ID
}

// FaultError is the sentinel returned by an injected fault.
type FaultError struct{ K int }

// (the text holds per-cent signs, as the message of a real data tree may: "cpu%d", "100% of ...")
func (f *FaultError) Error() string {
	return fmt.Sprintf("injected-data-tree-fault-#%d (100%%d of %%s, 5%%)", f.K)
}

// Entry implements xpath.Entry.
type Entry struct {
	T  *Tree
	Id ID
}

var _ xpath.Entry = (*Entry)(nil)

func (t *Tree) Root() *Entry    { return &Entry{T: t, Id: ID{}} }
func (t *Tree) At(id ID) *Entry { return &Entry{T: t, Id: id.clone()} }
func (t *Tree) Calls() int      { return t.calls }
func (t *Tree) rec(c Call) {
	if !t.NoRecord {
		t.Trace = append(t.Trace, c)
	}
}
func (t *Tree) fault() error {
	t.calls++
	if t.PanicAt != 0 && t.calls == t.PanicAt {
		panic(t.PanicWith)
	}
	if t.FaultAt != 0 && t.calls == t.FaultAt {
		return &FaultError{K: t.calls}
	}
	return nil
}

// PathString renders an sdcpb path as given (not normalised).
func PathString(p *sdcpb.Path) string {
	if p == nil {
		return "<nil>"
	}
	var b strings.Builder
	if p.GetIsRootBased() {
		b.WriteString("ROOT")
	} else {
		b.WriteString("REL")
	}
	for _, e := range p.GetElem() {
		b.WriteString("/")
		b.WriteString(e.GetName())
		ks := make([]string, 0, len(e.GetKey()))
		for k := range e.GetKey() {
			ks = append(ks, k)
		}
		sort.Strings(ks)
		for _, k := range ks {
			fmt.Fprintf(&b, "[%s=%q]", k, e.GetKey()[k])
		}
	}
	return b.String()
}

// Resolve applies a path to an identity (".." pops, "." stays).
func Resolve(start ID, p *sdcpb.Path) (ID, error) {
	var cur ID
	if p == nil {
		return start.clone(), nil
	}
	if !p.GetIsRootBased() {
		cur = start.clone()
	}
	for _, e := range p.GetElem() {
		switch e.GetName() {
		case "..":
			if len(cur) == 0 {
				return nil, fmt.Errorf("data tree: cannot navigate above the root")
			}
			cur = cur[:len(cur)-1]
		case ".":
		default:
			ne := Elem{Name: e.GetName()}
			if len(e.GetKey()) > 0 {
				ne.Keys = map[string]string{}
				for k, v := range e.GetKey() {
					ne.Keys[k] = v
				}
			}
			cur = append(cur, ne)
		}
	}
	return cur, nil
}

func (e *Entry) Navigate(p *sdcpb.Path) (xpath.Entry, error) {
	c := Call{Op: "Navigate", Recv: e.Id.String(), Arg: PathString(p)}
	if err := e.T.fault(); err != nil {
		c.Err = err.Error()
		e.T.rec(c)
		return nil, err
	}
	id, err := Resolve(e.Id, p)
	if err == nil && e.T.Absent != nil {
		for _, pe := range p.GetElem() {
			for _, v := range pe.GetKey() {
				if e.T.Absent(v) {
					err = fmt.Errorf("data tree: no entry %s[...=%s]", pe.GetName(), v)
				}
			}
		}
	}
	if err != nil {
		c.Err = err.Error()
		e.T.rec(c)
		return nil, err
	}
	c.Result = id.String()
	e.T.rec(c)
	if !e.T.NoRecord {
		var cur ID
		if !p.GetIsRootBased() {
			cur = e.Id.clone()
		}
		for _, pe := range p.GetElem() {
			switch pe.GetName() {
			case "..":
				if len(cur) > 0 {
					cur = cur[:len(cur)-1]
				}
			case ".":
			default:
				ne := Elem{Name: pe.GetName()}
				if len(pe.GetKey()) > 0 {
					ne.Keys = map[string]string{}
					for k, v := range pe.GetKey() {
						ne.Keys[k] = v
					}
				}
				cur = append(cur, ne)
				if len(ne.Keys) > 0 {
					if e.T.Named == nil {
						e.T.Named = map[string]bool{}
					}
					e.T.Named[cur.String()] = true
				}
			}
		}
	}
	return &Entry{T: e.T, Id: id}, nil
}

func (e *Entry) GetValue() (xpath.Datum, error) {
	c := Call{Op: "GetValue", Recv: e.Id.String()}
	if err := e.T.fault(); err != nil {
		c.Err = err.Error()
		e.T.rec(c)
		return nil, err
	}
	if e.T.NilAt != 0 && e.T.calls == e.T.NilAt {
		c.Result = "<nil datum, nil error>"
		e.T.rec(c)
		return nil, nil
	}
	var d xpath.Datum
	var err error
	if e.T.ValueOf != nil {
		d, err = e.T.ValueOf(e.Id)
	} else {
		d = xpath.NewLiteralDatum(DefaultValue(e.Id))
	}
	if err != nil {
		c.Err = err.Error()
	}
	e.T.rec(c)
	return d, err
}

// DefaultValue is the literal a node holds when no ValueOf is installed.
func DefaultValue(id ID) string { return "val:" + id.String() }

func (e *Entry) Copy() xpath.Entry { return &Entry{T: e.T, Id: e.Id.clone()} }

func (e *Entry) FollowLeafRef() (xpath.Entry, error) {
	c := Call{Op: "FollowLeafRef", Recv: e.Id.String()}
	if err := e.T.fault(); err != nil {
		c.Err = err.Error()
		e.T.rec(c)
		return nil, err
	}
	var target ID
	if e.T.LeafRefOf != nil {
		target = e.T.LeafRefOf(e.Id)
	} else {
		target = DefaultLeafRef(e.Id)
	}
	c.Result = target.String()
	e.T.rec(c)
	return &Entry{T: e.T, Id: target}, nil
}

// DefaultLeafRef is the leafref target when no LeafRefOf is installed: a
// node under /lr whose key records the source identity.
func DefaultLeafRef(id ID) ID {
	return ID{{Name: "lr"}, {Name: "target", Keys: map[string]string{"from": id.String()}}}
}

// PathStore keeps the path objects a tree hands out, one per node, for any number of trees and goroutines: a data tree
// that stores its paths answers every request for a node's path with the same object.  The element slice of a stored
// path has room behind its last element, as a slice that was built by appending has.
type PathStore struct {
	m sync.Map // id -> *storedPath
}

type storedPath struct {
	p    *sdcpb.Path
	want ID
}

// Damage tells what an evaluation has done to a stored path: its elements and the room behind them are the tree's.
func (s *PathStore) Damage() string {
	msg := ""
	s.m.Range(func(k, v any) bool {
		sp := v.(*storedPath)
		el := sp.p.GetElem()
		ok := len(el) == len(sp.want)
		for i := 0; ok && i < len(sp.want); i++ {
			ok = el[i].GetName() == sp.want[i].Name && len(el[i].GetKey()) == len(sp.want[i].Keys)
		}
		if !ok {
			msg = fmt.Sprintf("the path object the data tree keeps for node %s now reads %s", k, PathString(sp.p))
			return false
		}
		for i, x := range el[:cap(el)][len(el):] {
			if x != nil {
				msg = fmt.Sprintf("the room behind the path the data tree keeps for node %s has been written to (slot %d: %s)", k, len(el)+i, x.GetName())
				return false
			}
		}
		return true
	})
	return msg
}

func (e *Entry) GetSdcpbPath() *sdcpb.Path {
	if e.T.Paths != nil {
		key := e.Id.String()
		if v, ok := e.T.Paths.m.Load(key); ok {
			return v.(*storedPath).p
		}
		p := e.freshPath()
		el := make([]*sdcpb.PathElem, len(p.Elem), len(p.Elem)+8)
		copy(el, p.Elem)
		p.Elem = el
		v, _ := e.T.Paths.m.LoadOrStore(key, &storedPath{p: p, want: e.Id.clone()})
		return v.(*storedPath).p
	}
	if e.T.SharedPaths {
		if p, ok := e.T.stored[e.Id.String()]; ok {
			return p
		}
	}
	p := e.freshPath()
	if e.T.SharedPaths {
		if e.T.stored == nil {
			e.T.stored = map[string]*sdcpb.Path{}
		}
		e.T.stored[e.Id.String()] = p
		if e.T.storedIDs == nil {
			e.T.storedIDs = map[string]ID{}
		}
		e.T.storedIDs[e.Id.String()] = e.Id.clone()
	}
	return p
}

// StoredPathsIntact tells whether every path handed out under SharedPaths still is the path of its node.
func (t *Tree) StoredPathsIntact() (string, bool) {
	for id, p := range t.stored {
		want := t.storedIDs[id]
		ok := len(p.GetElem()) == len(want)
		for i := 0; ok && i < len(want); i++ {
			ok = p.GetElem()[i].GetName() == want[i].Name && len(p.GetElem()[i].GetKey()) == len(want[i].Keys)
		}
		if !ok {
			return fmt.Sprintf("the path object the data tree keeps for node %s now reads %s", id, PathString(p)), false
		}
	}
	return "", true
}

func (e *Entry) freshPath() *sdcpb.Path {
	p := &sdcpb.Path{IsRootBased: true}
	for _, el := range e.Id {
		var keys map[string]string
		if len(el.Keys) > 0 {
			keys = map[string]string{}
			for k, v := range el.Keys {
				keys[k] = v
			}
		}
		p.Elem = append(p.Elem, sdcpb.NewPathElem(el.Name, keys))
	}
	return p
}

func (e *Entry) BreadthSearch(ctx gocontext.Context, p *sdcpb.Path) ([]xpath.Entry, error) {
	c := Call{Op: "BreadthSearch", Recv: e.Id.String(), Arg: PathString(p)}
	if err := e.T.fault(); err != nil {
		c.Err = err.Error()
		e.T.rec(c)
		return nil, err
	}
	n := 2
	if e.T.CountOf != nil {
		n = e.T.CountOf(e.Id, c.Arg)
	}
	out := make([]xpath.Entry, n)
	for i := range out {
		out[i] = &Entry{T: e.T, Id: e.Id.clone()}
	}
	c.Result = fmt.Sprintf("%d entries", n)
	e.T.rec(c)
	return out, nil
}
