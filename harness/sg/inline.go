package sg

import (
	"encoding/json"
	"fmt"
	"strings"
)

// Clone deep-copies any of the model values through JSON.
func Clone[T any](v T) T {
	b, err := json.Marshal(v)
	if err != nil {
		panic(err)
	}
	var out T
	if err := json.Unmarshal(b, &out); err != nil {
		panic(err)
	}
	return out
}

// AugNote records a node that a cross-module augment introduced: the inlined
// rendering cannot give it the augmenting module's namespace, so the check
// masks module/namespace there and asserts them separately.
type AugNote struct {
	Path   string // canonical schema path of the introduced node, e.g. /top/c/leafname
	Module string // augmenting module (for an augment written in a submodule: the module it belongs to)
	File   string // the module or submodule whose text holds the augment
}

type inliner struct {
	mods  map[string]*Mod
	notes []AugNote
	err   error
}

func localName(ref string) (prefix, name string) {
	if i := strings.Index(ref, ":"); i >= 0 {
		return ref[:i], ref[i+1:]
	}
	return "", ref
}

// moduleByPrefix resolves a prefix in the context of module m.
func (in *inliner) moduleByPrefix(m *Mod, prefix string) *Mod {
	if prefix == "" || prefix == m.Prefix {
		if m.BelongsTo != "" {
			return in.mods[m.BelongsTo]
		}
		return m
	}
	for _, i := range m.Imports {
		if i.Prefix == prefix {
			return in.mods[i.Mod]
		}
	}
	return nil
}

func findGrouping(gs []*Grouping, name string) *Grouping {
	for _, g := range gs {
		if g.Name == name {
			return g
		}
	}
	return nil
}

// lookupGrouping: groupings of the module (and of its submodules) by name.
func (in *inliner) lookupGrouping(m *Mod, scopes [][]*Grouping, ref string) (*Grouping, *Mod) {
	pfx, name := localName(ref)
	gm := in.moduleByPrefix(m, pfx)
	if gm == nil {
		return nil, nil
	}
	if gm == m || (m.BelongsTo != "" && gm.Name == m.BelongsTo) {
		for i := len(scopes) - 1; i >= 0; i-- {
			if g := findGrouping(scopes[i], name); g != nil {
				return g, m
			}
		}
	}
	if g := findGrouping(gm.Groupings, name); g != nil {
		return g, gm
	}
	for _, inc := range gm.Includes {
		if sm := in.mods[inc]; sm != nil {
			if g := findGrouping(sm.Groupings, name); g != nil {
				return g, sm
			}
		}
	}
	return nil, nil
}

func findNode(kids []*Node, path string) *Node {
	parts := strings.Split(path, "/")
	cur := kids
	var n *Node
	for _, p := range parts {
		_, name := localName(p)
		n = nil
		for _, k := range cur {
			if k.Kind != "uses" && k.Name == name {
				n = k
				break
			}
			// shorthand: names inside choices/cases are reachable through their choice and case names only
		}
		if n == nil {
			return nil
		}
		cur = n.Kids
	}
	return n
}

func applyRefine(n *Node, stmts []string) {
	for _, s := range stmts {
		s = strings.TrimSpace(s)
		kw := s
		arg := ""
		if i := strings.IndexAny(s, " \t"); i >= 0 {
			kw, arg = s[:i], strings.TrimSpace(s[i+1:])
		}
		arg = strings.TrimSuffix(arg, ";")
		arg = strings.TrimSpace(arg)
		if len(arg) >= 2 && arg[0] == '"' && arg[len(arg)-1] == '"' {
			arg = arg[1 : len(arg)-1]
		}
		switch kw {
		case "description":
			n.Desc = arg
		case "reference":
			n.Ref = arg
		case "default":
			a := arg
			n.Default = &a
		case "mandatory":
			n.Mandatory = arg
		case "presence":
			n.Presence = arg
			if arg == "" {
				n.Presence = EmptyPresence
			}
		case "config":
			n.Config = arg
		case "min-elements":
			n.Min = arg
		case "max-elements":
			n.Max = arg
		case "must":
			n.Musts = append(n.Musts, Must{Expr: arg})
		}
	}
}

// expandKids returns the kids with every uses replaced by the (recursively
// expanded, refined, augmented) contents of its grouping.
func (in *inliner) expandKids(m *Mod, scopes [][]*Grouping, kids []*Node) []*Node {
	var out []*Node
	for _, k := range kids {
		if k.Kind != "uses" {
			c := *k
			sc := scopes
			if len(k.Groupings) > 0 {
				sc = append(append([][]*Grouping(nil), scopes...), k.Groupings)
			}
			c.Kids = in.expandKids(m, sc, k.Kids)
			c.Groupings = nil
			out = append(out, &c)
			continue
		}
		g, gm := in.lookupGrouping(m, scopes, k.Name)
		if g == nil {
			in.err = fmt.Errorf("inliner: grouping %s not found in %s", k.Name, m.Name)
			return out
		}
		// the grouping body is expanded in the scope of its defining module
		gscopes := [][]*Grouping{gm.Groupings, g.Groupings}
		body := in.expandKids(gm, gscopes, Clone(g.Kids))
		markDefMod(body, gm.Name)
		for _, r := range k.Refines {
			t := findNode(body, r.Target)
			if t == nil {
				in.err = fmt.Errorf("inliner: refine target %s not found", r.Target)
				return out
			}
			applyRefine(t, r.Stmts)
		}
		// (the order in which the augments of a uses are written means nothing: one whose target another one adds waits)
		pending := append([]*Augment(nil), k.Augments...)
		for len(pending) > 0 {
			var later []*Augment
			for _, a := range pending {
				t := findNode(body, a.Target)
				if t == nil {
					later = append(later, a)
					continue
				}
				added := in.expandKids(m, scopes, Clone(a.Kids))
				for _, ak := range added {
					inherit(ak, a.When, a.IfFeatures, a.Status)
				}
				t.Kids = append(t.Kids, added...)
			}
			if len(later) == len(pending) {
				in.err = fmt.Errorf("inliner: augment target %s not found", later[0].Target)
				return out
			}
			pending = later
		}
		for _, b := range body {
			inherit(b, k.When, k.IfFeatures, k.Status)
		}
		out = append(out, body...)
	}
	return out
}

// inherit copies when / if-feature / status of a uses or augment onto a node it introduces.
func inherit(n *Node, when string, iffs []string, status string) {
	if when != "" && n.When == "" {
		n.When = when
	}
	n.IfFeatures = append(n.IfFeatures, iffs...)
	if status != "" && n.Status == "" {
		n.Status = status
	}
}

func pathOf(target string) []string {
	var out []string
	for _, p := range strings.Split(strings.TrimPrefix(target, "/"), "/") {
		_, name := localName(p)
		out = append(out, name)
	}
	return out
}

// Inline returns a copy of the module set in which every uses is expanded,
// groupings are removed and every augment is written in place.
func Inline(mods []*Mod) ([]*Mod, []AugNote, error) {
	in := &inliner{mods: map[string]*Mod{}}
	out := Clone(mods)
	for _, m := range out {
		in.mods[m.Name] = m
	}
	// 1. expand uses everywhere
	for _, m := range out {
		sc := [][]*Grouping{m.Groupings}
		m.Nodes = in.expandKids(m, sc, m.Nodes)
		for _, r := range m.Rpcs {
			r.Input = in.expandKids(m, sc, r.Input)
			r.Output = in.expandKids(m, sc, r.Output)
		}
		for _, n := range m.Notifs {
			n.Kids = in.expandKids(m, sc, n.Kids)
		}
		for _, a := range m.Augments {
			a.Kids = in.expandKids(m, sc, a.Kids)
		}
	}
	// 2. apply module-level augments in place (in module order, as the compiler does after import sorting)
	for _, m := range out {
		for _, a := range m.Augments {
			parts := strings.Split(strings.TrimPrefix(a.Target, "/"), "/")
			pfx, _ := localName(parts[0])
			tm := in.moduleByPrefix(m, pfx)
			if tm == nil {
				in.err = fmt.Errorf("inliner: augment target module of %s not found", a.Target)
				continue
			}
			names := pathOf(a.Target)
			t := findNode(tm.Nodes, strings.Join(names, "/"))
			if t == nil {
				in.err = fmt.Errorf("inliner: augment target %s not found", a.Target)
				continue
			}
			for _, ak := range a.Kids {
				c := Clone(ak)
				inherit(c, a.When, a.IfFeatures, a.Status)
				markDefMod([]*Node{c}, m.Name)
				if m.BelongsTo != "" {
					markNsMod([]*Node{c}, m.BelongsTo)
				} else {
					markNsMod([]*Node{c}, m.Name)
				}
				t.Kids = append(t.Kids, c)
				if tm != m {
					owner := m.Name
					if m.BelongsTo != "" {
						owner = m.BelongsTo
					}
					in.notes = append(in.notes, AugNote{Path: "/" + strings.Join(names, "/") + "/" + c.Name, Module: owner, File: m.Name})
				}
			}
		}
		m.Augments = nil
	}
	for _, m := range out {
		m.Groupings = nil
	}
	return out, in.notes, in.err
}

func markDefMod(kids []*Node, mod string) {
	for _, k := range kids {
		if k.DefMod == "" {
			k.DefMod = mod
		}
		markDefMod(k.Kids, mod)
	}
}

func markNsMod(kids []*Node, mod string) {
	for _, k := range kids {
		if k.NsMod == "" {
			k.NsMod = mod
		}
		markNsMod(k.Kids, mod)
	}
}
