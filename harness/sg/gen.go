package sg

import (
	"fmt"
	"strings"

	"pgregory.net/rapid"
)

// GenCfg tunes the random module-set generator.
type GenCfg struct {
	MaxMods     int
	MaxDepth    int
	NoAugments  bool
	NoRpcs      bool
	NoSubmods   bool
	NoSubNodes  bool // submodules define no data nodes of their own
	NoTopMisc   bool // only containers at the top level of a module
	NoWhenMust  bool
	NoFeatures  bool
	ConfigFalse bool // allow config false subtrees
	OneKeyLists bool
	UniqueBias  bool // lists get extra string leaves and always some unique statements
}

type G struct {
	nested int // depth of choices nested in cases while generating
	T      *rapid.T
	Cfg    GenCfg
	n      int
}

func (g *G) Pick(n int, l string) int { return rapid.IntRange(0, n-1).Draw(g.T, l) }
func (g *G) Bool(l string) bool       { return rapid.Bool().Draw(g.T, l) }
func (g *G) Chance(k, n int, l string) bool {
	return rapid.IntRange(0, n-1).Draw(g.T, l) < k
}

func (g *G) id(prefix string) string {
	g.n++
	return fmt.Sprintf("%s%d", prefix, g.n)
}

func sp(s string) *string { return &s }

// scope is what a module can reference.
type scope struct {
	mod       *Mod
	typedefs  []string // reference strings valid inside mod
	groupings []string
	features  []string
	idents    []string
}

func (g *G) simpleType(sc *scope, allowEmpty bool) (*TypeSpec, *string) {
	switch g.Pick(12, "type") {
	case 0:
		return &TypeSpec{Name: "string"}, sp([]string{"abc", "", "x y"}[g.Pick(3, "sdef")])
	case 1:
		return &TypeSpec{Name: "string", Length: []string{"1..10", "0..5|8", "min..4", "3"}[g.Pick(4, "len")]}, nil
	case 2:
		return &TypeSpec{Name: "string", Patterns: []string{"[a-z]+"}, PatMsg: []string{"", "lower case only"}[g.Pick(2, "pmsg")]}, sp("abc")
	case 3:
		w := []string{"int8", "int16", "int32", "int64", "uint8", "uint16", "uint32", "uint64"}[g.Pick(8, "intw")]
		t := &TypeSpec{Name: w}
		if g.Bool("range") {
			k := g.Pick(5, "rng")
			t.Range = []string{"1..10", "0..5|7..9", "min..20", "5..max", "2|4|6"}[k]
			if g.Bool("rmsg") {
				t.RangeMsg = "out of range"
				t.RangeTag = "my-range-tag"
			}
			return t, sp([]string{"5", "4", "4", "6", "4"}[k])
		}
		return t, sp("7")
	case 4:
		return &TypeSpec{Name: "decimal64", FD: 1 + g.Pick(3, "fd"), Range: []string{"", "1..10", "-5.5..5.5"}[g.Pick(3, "drng")]}, nil
	case 5:
		return &TypeSpec{Name: "boolean"}, sp("true")
	case 6:
		if allowEmpty {
			return &TypeSpec{Name: "empty"}, nil
		}
		return &TypeSpec{Name: "boolean"}, nil
	case 7:
		return &TypeSpec{Name: "enumeration", Enums: []string{"one", "two", "three"}[:1+g.Pick(3, "nenum")]}, sp("one")
	case 8:
		if len(sc.idents) > 0 {
			return &TypeSpec{Name: "identityref", Base: sc.idents[g.Pick(len(sc.idents), "base")]}, nil
		}
		return &TypeSpec{Name: "string"}, nil
	case 9:
		return &TypeSpec{Name: "union", Members: []*TypeSpec{{Name: "int32", Range: "1..5"}, {Name: "enumeration", Enums: []string{"none"}}}}, nil
	case 10:
		if len(sc.typedefs) > 0 {
			return &TypeSpec{Name: sc.typedefs[g.Pick(len(sc.typedefs), "tdref")]}, nil
		}
		return &TypeSpec{Name: "uint16"}, nil
	default:
		return &TypeSpec{Name: "leafref", Path: "../" + []string{"k", "name", "id"}[g.Pick(3, "lrpath")]}, nil
	}
}

func (g *G) decorate(n *Node, sc *scope, configFalseAbove bool) {
	if g.Chance(1, 4, "desc") {
		n.Desc = "description of " + n.Name
	}
	if g.Chance(1, 8, "ref") {
		n.Ref = "RFC 0000"
	}
	if !g.Cfg.NoFeatures && len(sc.features) > 0 && g.Chance(1, 5, "iff") {
		n.IfFeatures = []string{sc.features[g.Pick(len(sc.features), "feat")]}
		if g.Chance(1, 4, "iff2") {
			n.IfFeatures = append(n.IfFeatures, sc.features[g.Pick(len(sc.features), "feat2")])
		}
	}
	if !g.Cfg.NoWhenMust && g.Chance(1, 7, "when") {
		n.When = []string{"../k = 'a'", "count(../x) > 0", "not(../y)", "current()/../z != 1"}[g.Pick(4, "whenx")]
	}
	if !g.Cfg.NoWhenMust && n.Kind != "choice" && n.Kind != "case" && n.Kind != "uses" && g.Chance(1, 7, "must") {
		n.Musts = []Must{{Expr: []string{". != 'bad'", "../k", "string-length(.) < 10"}[g.Pick(3, "mustx")]}}
		if g.Bool("mustmsg") {
			n.Musts[0].Msg = "must failed for " + n.Name
			n.Musts[0].Tag = "tag-" + n.Name
		}
	}
	if g.Cfg.ConfigFalse && !configFalseAbove && n.Kind != "case" && n.Kind != "uses" && g.Chance(1, 6, "cfgfalse") {
		n.Config = "false"
	}
}

func (g *G) leaf(sc *scope, cfgFalse bool, name string) *Node {
	t, def := g.simpleType(sc, true)
	n := &Node{Kind: "leaf", Name: name, Type: t}
	if def != nil && g.Chance(1, 3, "usedef") {
		n.Default = def
	} else if g.Chance(1, 6, "mand") {
		n.Mandatory = "true"
	}
	if g.Chance(1, 8, "units") {
		n.Units = "seconds"
	}
	g.decorate(n, sc, cfgFalse)
	return n
}

func (g *G) node(sc *scope, depth int, cfgFalse bool, inChoice bool) *Node {
	kinds := 8
	if depth <= 0 {
		kinds = 2
	}
	switch g.Pick(kinds, "kind") {
	case 0:
		return g.leaf(sc, cfgFalse, g.id("lf"))
	case 1:
		t, _ := g.simpleType(sc, false)
		n := &Node{Kind: "leaf-list", Name: g.id("ll"), Type: t}
		if g.Chance(1, 3, "llmin") {
			n.Min = "1"
		}
		if g.Chance(1, 3, "llmax") {
			n.Max = []string{"3", "unbounded", "10"}[g.Pick(3, "llmaxv")]
		}
		if g.Chance(1, 3, "llord") {
			n.OrdBy = "user"
		}
		g.decorate(n, sc, cfgFalse)
		return n
	case 2, 3:
		n := &Node{Kind: "container", Name: g.id("c")}
		if g.Chance(1, 3, "pres") {
			n.Presence = "enables " + n.Name
			if g.Chance(1, 5, "emptypresence") {
				n.Presence = EmptyPresence
			}
		}
		g.decorate(n, sc, cfgFalse)
		if g.Chance(1, 8, "childless") {
			// a container without any child (a placeholder): still a non-presence container unless it says otherwise
			return n
		}
		n.Kids = g.kids(sc, depth-1, cfgFalse || n.Config == "false")
		return n
	case 4:
		n := &Node{Kind: "list", Name: g.id("ls"), Key: "k"}
		key := &Node{Kind: "leaf", Name: "k", Type: &TypeSpec{Name: []string{"string", "uint32", "int8"}[g.Pick(3, "keyt")]}}
		g.decorate(n, sc, cfgFalse)
		keys := []*Node{key}
		if !g.Cfg.OneKeyLists && g.Chance(1, 4, "secondkey") {
			// a second key, written after the first although its name sorts before it, with another value space
			k2t := &TypeSpec{Name: "uint8", Range: "0..9"}
			if key.Type.Name != "string" {
				k2t = &TypeSpec{Name: "enumeration", Enums: []string{"red", "green"}}
			}
			keys = append(keys, &Node{Kind: "leaf", Name: "ak", Type: k2t})
			n.Key = "k ak"
		}
		if g.Chance(1, 5, "keyprefix") {
			// key names written with the module's own prefix
			n.Key = sc.mod.Prefix + ":k"
			if len(keys) > 1 {
				n.Key += []string{" ak", " " + sc.mod.Prefix + ":ak"}[g.Pick(2, "key2prefix")]
			}
		}
		n.Kids = append(keys, g.kids(sc, depth-1, cfgFalse || n.Config == "false")...)
		if g.Chance(1, 3, "lsmin") {
			n.Min = "1"
		}
		if g.Chance(1, 3, "lsmax") {
			n.Max = "5"
		}
		if g.Chance(1, 3, "lsord") {
			n.OrdBy = "user"
		}
		if g.Cfg.UniqueBias && g.Chance(1, 2, "uqleaves") {
			// two plain string leaves so that several unique sets of the same arity can exist
			n.Kids = append(n.Kids, &Node{Kind: "leaf", Name: g.id("uq"), Type: &TypeSpec{Name: "string"}}, &Node{Kind: "leaf", Name: g.id("uq"), Type: &TypeSpec{Name: "string"}})
		}
		// unique over direct leaves (not the key)
		var leaves []string
		for _, k := range n.Kids[1:] {
			if n.IsKey(k.Name) {
				continue
			}
			if k.Kind == "leaf" && len(k.IfFeatures) == 0 && k.When == "" && k.Type != nil && k.Type.Name != "empty" {
				leaves = append(leaves, k.Name)
			}
		}
		// ... and over leaves one container below
		for _, k := range n.Kids[1:] {
			if k.Kind == "container" && len(k.IfFeatures) == 0 && k.When == "" {
				for _, kk := range k.Kids {
					if kk.Kind == "leaf" && len(kk.IfFeatures) == 0 && kk.When == "" && kk.Type != nil && kk.Type.Name != "empty" {
						leaves = append(leaves, k.Name+"/"+kk.Name)
					}
				}
			}
		}
		if len(leaves) > 0 && (g.Chance(1, 2, "uniq") || g.Cfg.UniqueBias) {
			// 1-3 unique statements of 1-2 leaves each; the sets may overlap
			nu := 1 + g.Pick(3, "nuniq")
			for i := 0; i < nu; i++ {
				a := leaves[g.Pick(len(leaves), "uleaf")]
				u := a
				if len(leaves) > 1 && g.Bool("upair") {
					if b := leaves[g.Pick(len(leaves), "uleaf2")]; b != a {
						u += " " + b
					}
				}
				dup := false
				for _, x := range n.Uniques {
					if x == u {
						dup = true
					}
				}
				if !dup {
					n.Uniques = append(n.Uniques, u)
				}
			}
		}
		return n
	case 5:
		if inChoice && (g.nested > 0 || !g.Chance(1, 3, "nestedchoice")) {
			return g.leaf(sc, cfgFalse, g.id("lf"))
		}
		if inChoice {
			// a choice nested in a case (one level)
			g.nested++
			defer func() { g.nested-- }()
		}
		n := &Node{Kind: "choice", Name: g.id("ch")}
		nc := 1 + g.Pick(3, "ncases")
		for i := 0; i < nc; i++ {
			if g.Chance(1, 3, "shorthand") {
				n.Kids = append(n.Kids, g.leaf(sc, cfgFalse, g.id("sl")))
				continue
			}
			cs := &Node{Kind: "case", Name: g.id("cs")}
			nk := 1 + g.Pick(2, "ncasekids")
			for j := 0; j < nk; j++ {
				cs.Kids = append(cs.Kids, g.node(sc, depth-1, cfgFalse, true))
			}
			n.Kids = append(n.Kids, cs)
		}
		if g.Chance(1, 3, "chdef") {
			n.Default = sp(n.Kids[g.Pick(len(n.Kids), "defcase")].Name)
		} else if g.Chance(1, 5, "chmand") {
			n.Mandatory = "true"
		}
		g.decorate(n, sc, cfgFalse)
		if n.Default != nil {
			// a default case must not contain mandatory nodes; keep it simple: strip mandatory flags in the default case
			for _, k := range n.Kids {
				if k.Name == *n.Default {
					stripMandatory(k)
				}
			}
		}
		return n
	case 6:
		if len(sc.groupings) > 0 {
			n := &Node{Kind: "uses", Name: sc.groupings[g.Pick(len(sc.groupings), "gref")]}
			if !g.Cfg.NoFeatures && len(sc.features) > 0 && g.Chance(1, 3, "usesiff") {
				// an if-feature on the uses comes on top of the if-features the nodes of the grouping have themselves
				n.IfFeatures = []string{sc.features[g.Pick(len(sc.features), "usesfeat")]}
			}
			return n
		}
		return g.leaf(sc, cfgFalse, g.id("lf"))
	default:
		return g.leaf(sc, cfgFalse, g.id("lf"))
	}
}

func stripMandatory(n *Node) {
	n.Mandatory = ""
	if n.Min != "" {
		n.Min = ""
	}
	for _, k := range n.Kids {
		stripMandatory(k)
	}
}

func (g *G) kids(sc *scope, depth int, cfgFalse bool) []*Node {
	n := 1 + g.Pick(4, "nkids")
	var out []*Node
	usedGroupings := map[string]bool{}
	for i := 0; i < n; i++ {
		k := g.node(sc, depth, cfgFalse, false)
		if k.Kind == "uses" {
			// two uses under one parent may expand to clashing names (directly or through nested uses)
			if len(usedGroupings) > 0 {
				continue
			}
			usedGroupings[k.Name] = true
		}
		out = append(out, k)
	}
	return out
}

// GenSet draws a compilable module set.
func (g *G) GenSet() []*Mod {
	cfg := g.Cfg
	if cfg.MaxMods == 0 {
		cfg.MaxMods = 4
	}
	if cfg.MaxDepth == 0 {
		cfg.MaxDepth = 3
	}
	nm := 1 + g.Pick(cfg.MaxMods, "nmods")
	var mods []*Mod
	var scopes []*scope
	subs := map[int]*Mod{}
	for i := 0; i < nm; i++ {
		m := &Mod{Name: fmt.Sprintf("m%d", i), Prefix: fmt.Sprintf("m%d", i)}
		if g.Chance(1, 3, "rev") {
			m.Revision = "2020-01-0" + fmt.Sprint(1+i)
		}
		sc := &scope{mod: m}
		// a reference to a definition of the module itself may be written with the module's own prefix
		own := func(name string) string {
			if g.Chance(1, 4, "ownprefix") {
				return m.Prefix + ":" + name
			}
			return name
		}
		// imports of earlier modules (DAG); grouping names contain the module name, so nothing clashes
		for j := 0; j < i; j++ {
			if g.Chance(1, 2, "import") {
				pfx := fmt.Sprintf("p%d", j)
				m.Imports = append(m.Imports, Import{Mod: mods[j].Name, Prefix: pfx})
				g.see(sc, pfx+":", mods[j])
				if sub := subs[j]; sub != nil {
					g.see(sc, pfx+":", sub)
				}
			}
		}
		// a submodule with definitions of its own (and imports of its own, which the module need not repeat)
		if !cfg.NoSubmods && g.Chance(1, 3, "submodule") {
			sub := &Mod{Name: fmt.Sprintf("m%d-sub", i), Prefix: m.Prefix, BelongsTo: m.Name}
			ssc := &scope{mod: sub}
			for j := 0; j < i; j++ {
				if g.Chance(1, 2, "subimport") {
					pfx := fmt.Sprintf("q%d", j)
					sub.Imports = append(sub.Imports, Import{Mod: mods[j].Name, Prefix: pfx})
					g.see(ssc, pfx+":", mods[j])
					if s2 := subs[j]; s2 != nil {
						g.see(ssc, pfx+":", s2)
					}
				}
			}
			if !cfg.NoFeatures {
				for k, nf := 0, g.Pick(3, "snfeat"); k < nf; k++ {
					f := &Feature{Name: fmt.Sprintf("sf%d-%d", i, k)}
					if len(ssc.features) > 0 && g.Chance(1, 3, "sfeatdep") {
						f.IfFeatures = []string{ssc.features[g.Pick(len(ssc.features), "sfdep")]}
					}
					sub.Features = append(sub.Features, f)
					ssc.features = append(ssc.features, f.Name)
				}
			}
			for k, ni := 0, g.Pick(3, "snident"); k < ni; k++ {
				id := &Identity{Name: fmt.Sprintf("si%d-%d", i, k)}
				if len(ssc.idents) > 0 && g.Chance(2, 3, "sidbase") {
					id.Base = ssc.idents[g.Pick(len(ssc.idents), "sidb")]
				}
				sub.Identities = append(sub.Identities, id)
				ssc.idents = append(ssc.idents, id.Name)
			}
			for k, nt := 0, g.Pick(3, "sntypedef"); k < nt; k++ {
				t, def := g.simpleType(ssc, false)
				td := &Typedef{Name: fmt.Sprintf("st%d-%d", i, k), Type: t}
				if def != nil && g.Chance(1, 3, "stddef") {
					td.Default = def
				}
				sub.Typedefs = append(sub.Typedefs, td)
				ssc.typedefs = append(ssc.typedefs, td.Name)
			}
			for k, ng := 0, g.Pick(3, "sngroup"); k < ng; k++ {
				gr := &Grouping{Name: fmt.Sprintf("sg%d-%d", i, k)}
				gr.Kids = g.kids(ssc, 1, false)
				sub.Groupings = append(sub.Groupings, gr)
				ssc.groupings = append(ssc.groupings, gr.Name)
			}
			// a data tree of its own: it belongs to the module like any other top-level node
			if !cfg.NoSubNodes && g.Chance(1, 2, "subtop") {
				n := &Node{Kind: "container", Name: fmt.Sprintf("m%d-subtop", i)}
				g.decorate(n, ssc, false)
				n.Kids = g.kids(ssc, cfg.MaxDepth-1, n.Config == "false")
				sub.Nodes = append(sub.Nodes, n)
			}
			m.Includes = []string{sub.Name}
			subs[i] = sub
			// the module sees everything its submodule defines
			g.see(sc, "", sub)
		}
		if !cfg.NoFeatures {
			nf := g.Pick(6, "nfeat")
			for k := 0; k < nf; k++ {
				f := &Feature{Name: fmt.Sprintf("f%d-%d", i, k)}
				if len(sc.features) > 0 && g.Chance(1, 3, "featdep") {
					f.IfFeatures = []string{sc.features[g.Pick(len(sc.features), "fdep")]}
				}
				m.Features = append(m.Features, f)
				sc.features = append(sc.features, own(f.Name))
			}
		}
		ni := g.Pick(6, "nident")
		for k := 0; k < ni; k++ {
			id := &Identity{Name: fmt.Sprintf("i%d-%d", i, k)}
			if g.Chance(1, 3, "idshared") {
				// the same local name in several modules: identities are told apart by their module only
				id.Name = fmt.Sprintf("ishared-%d", k)
			}
			if len(sc.idents) > 0 && g.Chance(2, 3, "idbase") {
				id.Base = sc.idents[g.Pick(len(sc.idents), "idb")]
				// namesakes in different modules preferably derive from one and the same imported base: their order
				// below that base is then decided by the module names alone
				if strings.HasPrefix(id.Name, "ishared-") && g.Bool("samebase") {
					for _, cand := range sc.idents {
						if strings.Contains(cand, ":") && !strings.HasPrefix(cand, m.Prefix+":") {
							id.Base = cand
							break
						}
					}
				}
			}
			m.Identities = append(m.Identities, id)
			sc.idents = append(sc.idents, own(id.Name))
		}
		nt := g.Pick(4, "ntypedef")
		for k := 0; k < nt; k++ {
			t, def := g.simpleType(sc, false)
			td := &Typedef{Name: fmt.Sprintf("t%d-%d", i, k), Type: t}
			if def != nil && g.Chance(1, 3, "tddef") {
				td.Default = def
			}
			m.Typedefs = append(m.Typedefs, td)
			sc.typedefs = append(sc.typedefs, own(td.Name))
		}
		ng := g.Pick(4, "ngroup")
		for k := 0; k < ng; k++ {
			gr := &Grouping{Name: fmt.Sprintf("g%d-%d", i, k)}
			gr.Kids = g.kids(sc, 1, false)
			m.Groupings = append(m.Groupings, gr)
			sc.groupings = append(sc.groupings, own(gr.Name))
		}
		nn := 1 + g.Pick(3, "ntop")
		for k := 0; k < nn; k++ {
			n := &Node{Kind: "container", Name: fmt.Sprintf("m%d-top%d", i, k)}
			g.decorate(n, sc, false)
			n.Kids = g.kids(sc, cfg.MaxDepth-1, n.Config == "false")
			m.Nodes = append(m.Nodes, n)
		}
		// further top-level nodes of any kind (leaf, leaf-list, list, choice, uses ...) after the containers
		if !cfg.NoTopMisc && g.Chance(1, 3, "topmisc") {
			m.Nodes = append(m.Nodes, g.kids(sc, 2, false)...)
		}
		if !cfg.NoAugments && i > 0 && len(m.Imports) > 0 && g.Chance(1, 2, "augment") {
			imp := m.Imports[g.Pick(len(m.Imports), "augimp")]
			var target *Mod
			for _, mm := range mods {
				if mm.Name == imp.Mod {
					target = mm
				}
			}
			if target != nil && len(target.Nodes) > 0 {
				tn := target.Nodes[g.Pick(len(target.Nodes), "augtarget")]
				if tn.Kind == "container" && len(tn.IfFeatures) == 0 && tn.When == "" {
					a := &Augment{Target: "/" + imp.Prefix + ":" + tn.Name}
					a.Kids = []*Node{g.leaf(sc, tn.Config == "false", g.id("aug"))}
					a.Kids[0].Mandatory = ""
					if !cfg.NoFeatures && len(sc.features) > 0 && g.Chance(1, 3, "augiff") {
						a.IfFeatures = []string{sc.features[g.Pick(len(sc.features), "augfeat")]}
					}
					m.Augments = append(m.Augments, a)
				}
			}
		}
		// an augment written in the submodule: of the module's own tree (through the belongs-to prefix) or of a tree of
		// a module the submodule imports
		if sub := subs[i]; sub != nil && !cfg.NoAugments && g.Chance(1, 3, "subaugment") {
			ssc := &scope{mod: sub}
			for _, imp := range sub.Imports {
				for j, mm := range mods {
					if mm.Name == imp.Mod {
						g.see(ssc, imp.Prefix+":", mm)
						if s2 := subs[j]; s2 != nil {
							g.see(ssc, imp.Prefix+":", s2)
						}
					}
				}
			}
			g.see(ssc, "", sub)
			tpfx, target := m.Prefix, m
			if len(sub.Imports) > 0 && g.Bool("subaugforeign") {
				imp := sub.Imports[g.Pick(len(sub.Imports), "subaugimp")]
				for _, mm := range mods {
					if mm.Name == imp.Mod {
						tpfx, target = imp.Prefix, mm
					}
				}
			}
			if len(target.Nodes) > 0 {
				tn := target.Nodes[g.Pick(len(target.Nodes), "subaugtarget")]
				if tn.Kind == "container" && len(tn.IfFeatures) == 0 && tn.When == "" {
					a := &Augment{Target: "/" + tpfx + ":" + tn.Name}
					a.Kids = []*Node{g.leaf(ssc, tn.Config == "false", g.id("saug"))}
					a.Kids[0].Mandatory = ""
					sub.Augments = append(sub.Augments, a)
				}
			}
		}
		if !cfg.NoRpcs && g.Chance(1, 4, "rpc") {
			m.Rpcs = append(m.Rpcs, &Rpc{Name: g.id("rpc"), Input: []*Node{g.leaf(sc, true, g.id("in"))}, Output: []*Node{g.leaf(sc, true, g.id("out"))}})
			m.Rpcs[0].Input[0].Config = ""
			m.Rpcs[0].Output[0].Config = ""
			if g.Chance(1, 3, "rpcstatus") {
				m.Rpcs[0].Status = []string{"deprecated", "obsolete"}[g.Pick(2, "rpcstatusv")]
			}
			if !cfg.NoFeatures && len(m.Features) > 0 && g.Chance(1, 2, "rpcfeature") {
				m.Rpcs[0].IfFeatures = []string{m.Features[g.Pick(len(m.Features), "rpcfeat")].Name}
			}
		}
		if !cfg.NoRpcs && g.Chance(1, 5, "notif") {
			m.Notifs = append(m.Notifs, &Notif{Name: g.id("ntf"), Kids: []*Node{g.leaf(sc, true, g.id("ev"))}})
			m.Notifs[0].Kids[0].Config = ""
			if g.Chance(1, 3, "notifstatus") {
				m.Notifs[0].Status = []string{"deprecated", "obsolete"}[g.Pick(2, "notifstatusv")]
			}
			if !cfg.NoFeatures && len(m.Features) > 0 && g.Chance(1, 2, "notiffeature") {
				m.Notifs[0].IfFeatures = []string{m.Features[g.Pick(len(m.Features), "notiffeat")].Name}
			}
		}
		// (the order of a module's body statements means nothing: a third of the modules write their groupings last)
		m.DefsLast = g.Chance(1, 3, "defslast")
		mods = append(mods, m)
		scopes = append(scopes, sc)
	}
	_ = scopes
	// submodules follow their module in the returned set
	var out []*Mod
	for i, m := range mods {
		out = append(out, m)
		if sub := subs[i]; sub != nil {
			out = append(out, sub)
		}
	}
	return out
}

// see makes the definitions of module x referable in scope sc under the given prefix ("" or "pfx:").
func (g *G) see(sc *scope, pfx string, x *Mod) {
	for _, t := range x.Typedefs {
		sc.typedefs = append(sc.typedefs, pfx+t.Name)
	}
	for _, gr := range x.Groupings {
		sc.groupings = append(sc.groupings, pfx+gr.Name)
	}
	for _, f := range x.Features {
		sc.features = append(sc.features, pfx+f.Name)
	}
	for _, id := range x.Identities {
		sc.idents = append(sc.idents, pfx+id.Name)
	}
}
