package sg

import (
	"strings"

	"verifharness/vt"
)

// SpaceOf builds the reference value space of a type specification as used in module m
// (typedef chains and identity hierarchies are resolved over the whole set).
// ok is false for types the reference does not model (leafref, instance-identifier, bits, binary).
func SpaceOf(mods []*Mod, m *Mod, t *TypeSpec, leafMod *Mod) (*vt.Space, bool) {
	byName := map[string]*Mod{}
	for _, x := range mods {
		byName[x.Name] = x
	}
	return spaceOf(byName, mods, m, t, leafMod, 0)
}

func modByPrefix(byName map[string]*Mod, m *Mod, pfx string) *Mod {
	if pfx == "" || pfx == m.Prefix {
		if m.BelongsTo != "" {
			return byName[m.BelongsTo]
		}
		return m
	}
	for _, i := range m.Imports {
		if i.Prefix == pfx {
			return byName[i.Mod]
		}
	}
	return nil
}

// family: the module that owns m (m itself unless it is a submodule) followed by the submodules it includes.
func family(byName map[string]*Mod, m *Mod) []*Mod {
	owner := m
	if m.BelongsTo != "" && byName[m.BelongsTo] != nil {
		owner = byName[m.BelongsTo]
	}
	out := []*Mod{owner}
	for _, inc := range owner.Includes {
		if sm := byName[inc]; sm != nil {
			out = append(out, sm)
		}
	}
	return out
}

// ownerName: the name of the module whose namespace the definitions of m live in.
func ownerName(m *Mod) string {
	if m.BelongsTo != "" {
		return m.BelongsTo
	}
	return m.Name
}

// findTypedef looks a module-level typedef up in module tm and the submodules it includes; the returned Mod is the
// one that textually contains it (its imports resolve the prefixes inside the typedef).
func findTypedef(byName map[string]*Mod, tm *Mod, name string) (*Mod, *Typedef) {
	for _, x := range family(byName, tm) {
		for _, td := range x.Typedefs {
			if td.Name == name {
				return x, td
			}
		}
	}
	return nil, nil
}

func spaceOf(byName map[string]*Mod, mods []*Mod, m *Mod, t *TypeSpec, leafMod *Mod, depth int) (*vt.Space, bool) {
	if t == nil || depth > 20 {
		return nil, false
	}
	var sp *vt.Space
	switch t.Name {
	case "leafref", "instance-identifier", "bits", "binary":
		return nil, false
	case "enumeration":
		return &vt.Space{Kind: "enumeration", Names: t.Enums}, true
	case "identityref":
		return &vt.Space{Kind: "identityref", Names: derivedIdentities(byName, mods, m, t.Base, leafMod)}, true
	case "union":
		sp = &vt.Space{Kind: "union"}
		for _, mem := range t.Members {
			ms, ok := spaceOf(byName, mods, m, mem, leafMod, depth+1)
			if !ok {
				return nil, false
			}
			sp.Members = append(sp.Members, ms)
		}
		return sp, true
	}
	if b := vt.Builtin(t.Name, t.FD); b != nil {
		sp = b
	} else {
		pfx, name := localName(t.Name)
		tm := modByPrefix(byName, m, pfx)
		if tm == nil {
			return nil, false
		}
		dm, td := findTypedef(byName, tm, name)
		if td == nil {
			return nil, false
		}
		base, ok := spaceOf(byName, mods, dm, td.Type, leafMod, depth+1)
		if !ok {
			return nil, false
		}
		sp = base.Clone()
	}
	if t.Range != "" && (sp.Kind == "int" || sp.Kind == "uint" || sp.Kind == "decimal64") {
		r, err := vt.Restrict(t.Range, sp.Ranges, sp.FD, sp.Kind == "decimal64", sp.Kind != "decimal64")
		if err != nil {
			return nil, false
		}
		sp.Ranges = r
	}
	if t.Length != "" && sp.Kind == "string" {
		r, err := vt.Restrict(t.Length, sp.Lengths, 0, false, true)
		if err != nil {
			return nil, false
		}
		sp.Lengths = r
	}
	if sp.Kind == "string" {
		for _, p := range t.Patterns {
			sp.Patterns = append(sp.Patterns, vt.Anchored(p))
		}
	}
	return sp, true
}

// derivedIdentities: names of all identities transitively derived from base (as referenced in module m),
// in the lexical form the implementation documents: "name" for identities of the leaf's module, "module:name" otherwise.
func derivedIdentities(byName map[string]*Mod, mods []*Mod, m *Mod, base string, leafMod *Mod) []string {
	pfx, name := localName(base)
	bm := modByPrefix(byName, m, pfx)
	if bm == nil {
		return nil
	}
	type key struct{ mod, name string }
	derived := map[key][]key{}
	for _, x := range mods {
		for _, id := range x.Identities {
			if id.Base == "" {
				continue
			}
			p, n := localName(id.Base)
			pm := modByPrefix(byName, x, p)
			if pm != nil {
				derived[key{ownerName(pm), n}] = append(derived[key{ownerName(pm), n}], key{ownerName(x), id.Name})
			}
		}
	}
	var out []string
	seen := map[key]bool{}
	var walk func(k key)
	walk = func(k key) {
		for _, d := range derived[k] {
			if seen[d] {
				continue
			}
			seen[d] = true
			if leafMod != nil && d.mod == ownerName(leafMod) {
				out = append(out, d.name)
			} else {
				out = append(out, d.mod+":"+d.name)
			}
			walk(d)
		}
	}
	walk(key{ownerName(bm), name})
	return out
}

// MemberOf returns some value of the space (and true), trying a fixed candidate list.
func MemberOf(sp *vt.Space) (string, bool) {
	var cands []string
	switch sp.Kind {
	case "int", "uint", "decimal64":
		for _, iv := range sp.Ranges {
			cands = append(cands, scaled(iv.Lo.String(), sp.FD), scaled(iv.Hi.String(), sp.FD))
		}
	case "string":
		cands = []string{"abc", "a", "ab", "abcd", "xyz", "", "abcdefgh", "az", "a1"}
	case "boolean":
		cands = []string{"true"}
	case "empty":
		return "", false
	case "enumeration", "identityref":
		cands = sp.Names
	case "union":
		for _, m := range sp.Members {
			if v, ok := MemberOf(m); ok {
				return v, true
			}
		}
	}
	for _, c := range cands {
		if sp.Contains(c) {
			return c, true
		}
	}
	return "", false
}

// NonMemberOf returns a string that is not in the space.
func NonMemberOf(sp *vt.Space) (string, bool) {
	for _, c := range []string{"!!not a value!!", "99999999999999999999999", "", "x y z", "-1"} {
		if !sp.Contains(c) {
			return c, true
		}
	}
	return "", false
}

func scaled(s string, fd int) string {
	if fd == 0 {
		return s
	}
	neg := strings.HasPrefix(s, "-")
	s = strings.TrimPrefix(s, "-")
	for len(s) <= fd {
		s = "0" + s
	}
	out := s[:len(s)-fd] + "." + s[len(s)-fd:]
	if neg {
		out = "-" + out
	}
	return out
}

// DefaultOfType returns the default a type carries through its typedef chain (nearest typedef first).
func DefaultOfType(mods []*Mod, m *Mod, t *TypeSpec) *string {
	byName := map[string]*Mod{}
	for _, x := range mods {
		byName[x.Name] = x
	}
	for depth := 0; depth < 20 && t != nil; depth++ {
		if vt.Builtin(t.Name, t.FD) != nil || t.Name == "enumeration" || t.Name == "identityref" || t.Name == "union" || t.Name == "leafref" {
			return nil
		}
		pfx, name := localName(t.Name)
		tm := modByPrefix(byName, m, pfx)
		if tm == nil {
			return nil
		}
		dm, td := findTypedef(byName, tm, name)
		if td == nil {
			return nil
		}
		if td.Default != nil {
			return td.Default
		}
		m, t = dm, td.Type
	}
	return nil
}
