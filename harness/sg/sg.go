// Package sg is the harness's abstract model of a YANG module set and its
// renderer to YANG text.  Properties C11-C20 generate values of these types,
// derive alternative renderings (inlined groupings, edited sources, pruned
// features) and compare what the compiler makes of them.
package sg

import (
	"fmt"
	"strings"
)

type TypeSpec struct {
	Name     string      `json:"name"` // builtin, typedef name or prefix:typedef
	Range    string      `json:"range,omitempty"`
	RangeMsg string      `json:"range_msg,omitempty"`
	RangeTag string      `json:"range_tag,omitempty"`
	Length   string      `json:"length,omitempty"`
	LenMsg   string      `json:"len_msg,omitempty"`
	LenTag   string      `json:"len_tag,omitempty"`
	Patterns []string    `json:"patterns,omitempty"`
	PatMsg   string      `json:"pat_msg,omitempty"`
	PatTag   string      `json:"pat_tag,omitempty"`
	Enums    []string    `json:"enums,omitempty"`
	EnumStat []string    `json:"enum_status,omitempty"` // status of the enum at the same index ("" = none written)
	FD       int         `json:"fd,omitempty"`
	Base     string      `json:"base,omitempty"`
	Path     string      `json:"path,omitempty"`
	Members  []*TypeSpec `json:"members,omitempty"`
}

type Must struct {
	Expr string `json:"expr"`
	Msg  string `json:"msg,omitempty"`
	Tag  string `json:"tag,omitempty"`
}

type Refine struct {
	Target string   `json:"target"`
	Stmts  []string `json:"stmts"` // raw statements, e.g. `default "5";`
}

type Augment struct {
	Target     string   `json:"target"`
	When       string   `json:"when,omitempty"`
	IfFeatures []string `json:"if_features,omitempty"`
	Status     string   `json:"status,omitempty"`
	Kids       []*Node  `json:"kids,omitempty"`
}

type Node struct {
	Kind       string      `json:"kind"` // container leaf leaf-list list choice case uses
	Name       string      `json:"name"` // for uses: the grouping reference
	Desc       string      `json:"desc,omitempty"`
	Ref        string      `json:"ref,omitempty"`
	Units      string      `json:"units,omitempty"`
	Presence   string      `json:"presence,omitempty"`
	Config     string      `json:"config,omitempty"`
	Status     string      `json:"status,omitempty"`
	IfFeatures []string    `json:"if_features,omitempty"`
	When       string      `json:"when,omitempty"`
	Musts      []Must      `json:"musts,omitempty"`
	Mandatory  string      `json:"mandatory,omitempty"`
	Default    *string     `json:"default,omitempty"`
	Type       *TypeSpec   `json:"type,omitempty"`
	Key        string      `json:"key,omitempty"`
	Uniques    []string    `json:"uniques,omitempty"`
	Min        string      `json:"min,omitempty"`
	Max        string      `json:"max,omitempty"`
	OrdBy      string      `json:"ordby,omitempty"`
	Kids       []*Node     `json:"kids,omitempty"`
	Refines    []Refine    `json:"refines,omitempty"`
	Augments   []*Augment  `json:"augments,omitempty"`
	Typedefs   []*Typedef  `json:"typedefs,omitempty"`
	Groupings  []*Grouping `json:"groupings,omitempty"`
	Raw        []string    `json:"raw,omitempty"`    // extra raw statements
	DefMod     string      `json:"defmod,omitempty"` // set by Inline: module in whose scope the type / feature references resolve
	NsMod      string      `json:"nsmod,omitempty"`  // set by Inline on nodes a module-level augment introduces: the augmenting module, to which they belong
}

type Typedef struct {
	Name    string    `json:"name"`
	Type    *TypeSpec `json:"type"`
	Default *string   `json:"default,omitempty"`
	Status  string    `json:"status,omitempty"`
	Units   string    `json:"units,omitempty"`
}

type Grouping struct {
	Name      string      `json:"name"`
	Desc      string      `json:"desc,omitempty"`
	Ref       string      `json:"ref,omitempty"`
	Status    string      `json:"status,omitempty"`
	Kids      []*Node     `json:"kids,omitempty"`
	Typedefs  []*Typedef  `json:"typedefs,omitempty"`
	Groupings []*Grouping `json:"groupings,omitempty"`
	// Raw: statements written verbatim at the top of the body, before the nodes (uses of extensions: they are no nodes and
	// are not copied by the inliner)
	Raw []string `json:"raw,omitempty"`
}

type Feature struct {
	Name       string   `json:"name"`
	IfFeatures []string `json:"if_features,omitempty"`
	Status     string   `json:"status,omitempty"`
}

type Identity struct {
	Name   string `json:"name"`
	Base   string `json:"base,omitempty"`
	Status string `json:"status,omitempty"`
}

type Deviate struct {
	Kind  string   `json:"kind"`
	Stmts []string `json:"stmts,omitempty"`
}

type Deviation struct {
	Target   string    `json:"target"`
	Deviates []Deviate `json:"deviates"`
}

type Import struct {
	Mod    string `json:"mod"`
	Prefix string `json:"prefix"`
}

type Rpc struct {
	Name       string   `json:"name"`
	IfFeatures []string `json:"if_features,omitempty"`
	Status     string   `json:"status,omitempty"`
	Input      []*Node  `json:"input,omitempty"`
	Output     []*Node  `json:"output,omitempty"`
}

type Notif struct {
	Name       string   `json:"name"`
	IfFeatures []string `json:"if_features,omitempty"`
	Status     string   `json:"status,omitempty"`
	Kids       []*Node  `json:"kids,omitempty"`
}

type Mod struct {
	Name       string       `json:"name"`
	NS         string       `json:"ns,omitempty"`
	Prefix     string       `json:"prefix"`
	BelongsTo  string       `json:"belongs_to,omitempty"` // non-empty: this is a submodule
	Imports    []Import     `json:"imports,omitempty"`
	Includes   []string     `json:"includes,omitempty"`
	Revision   string       `json:"revision,omitempty"`
	Features   []*Feature   `json:"features,omitempty"`
	Identities []*Identity  `json:"identities,omitempty"`
	Typedefs   []*Typedef   `json:"typedefs,omitempty"`
	Groupings  []*Grouping  `json:"groupings,omitempty"`
	Nodes      []*Node      `json:"nodes,omitempty"`
	Augments   []*Augment   `json:"augments,omitempty"`
	Deviations []*Deviation `json:"deviations,omitempty"`
	Rpcs       []*Rpc       `json:"rpcs,omitempty"`
	Notifs     []*Notif     `json:"notifs,omitempty"`
	Raw        []string     `json:"raw,omitempty"` // further body statements written verbatim (operational command trees)
	// DefsLast: the groupings are written after the data nodes and augments (the order of the body statements of a
	// module means nothing): every uses in the data tree then refers forward
	DefsLast bool `json:"defs_last,omitempty"`
	// AugmentsReversed: the augments are written last-first (an augment whose target another augment of the module
	// adds then stands before that one)
	AugmentsReversed bool `json:"augments_reversed,omitempty"`
	// AugmentsOrder, when it is a permutation of the indices of Augments, is the order in which they are written
	AugmentsOrder []int `json:"augments_order,omitempty"`
}

// ---- rendering -----------------------------------------------------------------

type w struct {
	b strings.Builder
}

// Keys returns the key leaf names of a list in key-statement order.
// (a key may be written with the prefix of the module the list is written in; the name after it is the key leaf's)
func (n *Node) Keys() []string {
	ks := strings.Fields(n.Key)
	for i, k := range ks {
		if j := strings.Index(k, ":"); j >= 0 {
			ks[i] = k[j+1:]
		}
	}
	return ks
}

// FirstKey is the key leaf whose value names the entries of a list in paths and data trees.
func (n *Node) FirstKey() string {
	if ks := n.Keys(); len(ks) > 0 {
		return ks[0]
	}
	return ""
}

// IsKey reports whether name is one of the list's key leaves.
func (n *Node) IsKey(name string) bool {
	for _, k := range n.Keys() {
		if k == name {
			return true
		}
	}
	return false
}

// EmptyPresence is the Presence value that renders as `presence "";` (the field itself is non-empty: the node is a
// presence container for every model).
const EmptyPresence = "\x00empty-presence"

// Quote renders a string as a double-quoted YANG argument.
func Quote(s string) string { return q(s) }

func q(s string) string {
	s = strings.ReplaceAll(s, `\`, `\\`)
	s = strings.ReplaceAll(s, `"`, `\"`)
	return `"` + s + `"`
}

func (x *w) ln(d int, format string, args ...any) {
	x.b.WriteString(strings.Repeat("  ", d))
	fmt.Fprintf(&x.b, format, args...)
	x.b.WriteByte('\n')
}

func (x *w) typ(d int, t *TypeSpec) {
	if t == nil {
		return
	}
	simple := t.Range == "" && t.Length == "" && len(t.Patterns) == 0 && len(t.Enums) == 0 && t.FD == 0 && t.Base == "" && t.Path == "" && len(t.Members) == 0
	if simple {
		x.ln(d, "type %s;", t.Name)
		return
	}
	x.ln(d, "type %s {", t.Name)
	if t.FD != 0 {
		x.ln(d+1, "fraction-digits %d;", t.FD)
	}
	if t.Range != "" {
		if t.RangeMsg != "" || t.RangeTag != "" {
			x.ln(d+1, "range %s {", q(t.Range))
			if t.RangeMsg != "" {
				x.ln(d+2, "error-message %s;", q(t.RangeMsg))
			}
			if t.RangeTag != "" {
				x.ln(d+2, "error-app-tag %s;", q(t.RangeTag))
			}
			x.ln(d+1, "}")
		} else {
			x.ln(d+1, "range %s;", q(t.Range))
		}
	}
	sub := func(msg, tag string) string {
		out := ""
		if msg != "" {
			out += fmt.Sprintf(" error-message %s;", q(msg))
		}
		if tag != "" {
			out += fmt.Sprintf(" error-app-tag %s;", q(tag))
		}
		return out
	}
	if t.Length != "" {
		if b := sub(t.LenMsg, t.LenTag); b != "" {
			x.ln(d+1, "length %s {%s }", q(t.Length), b)
		} else {
			x.ln(d+1, "length %s;", q(t.Length))
		}
	}
	for _, p := range t.Patterns {
		if b := sub(t.PatMsg, t.PatTag); b != "" {
			x.ln(d+1, "pattern %s {%s }", q(p), b)
		} else {
			x.ln(d+1, "pattern %s;", q(p))
		}
	}
	for i, e := range t.Enums {
		if i < len(t.EnumStat) && t.EnumStat[i] != "" {
			x.ln(d+1, "enum %s { status %s; }", q(e), t.EnumStat[i])
		} else {
			x.ln(d+1, "enum %s;", q(e))
		}
	}
	if t.Base != "" {
		x.ln(d+1, "base %s;", t.Base)
	}
	if t.Path != "" {
		x.ln(d+1, "path %s;", q(t.Path))
	}
	for _, m := range t.Members {
		x.typ(d+1, m)
	}
	x.ln(d, "}")
}

func (x *w) typedef(d int, t *Typedef) {
	x.ln(d, "typedef %s {", t.Name)
	x.typ(d+1, t.Type)
	if t.Units != "" {
		x.ln(d+1, "units %s;", q(t.Units))
	}
	if t.Default != nil {
		x.ln(d+1, "default %s;", q(*t.Default))
	}
	if t.Status != "" {
		x.ln(d+1, "status %s;", t.Status)
	}
	x.ln(d, "}")
}

func (x *w) grouping(d int, g *Grouping) {
	x.ln(d, "grouping %s {", g.Name)
	if g.Status != "" {
		x.ln(d+1, "status %s;", g.Status)
	}
	if g.Desc != "" {
		x.ln(d+1, "description %s;", q(g.Desc))
	}
	if g.Ref != "" {
		x.ln(d+1, "reference %s;", q(g.Ref))
	}
	for _, t := range g.Typedefs {
		x.typedef(d+1, t)
	}
	for _, gg := range g.Groupings {
		x.grouping(d+1, gg)
	}
	for _, r := range g.Raw {
		x.ln(d+1, "%s", r)
	}
	for _, k := range g.Kids {
		x.node(d+1, k)
	}
	x.ln(d, "}")
}

func (x *w) augment(d int, a *Augment) {
	x.ln(d, "augment %s {", q(a.Target))
	if a.When != "" {
		x.ln(d+1, "when %s;", q(a.When))
	}
	for _, f := range a.IfFeatures {
		x.ln(d+1, "if-feature %s;", f)
	}
	if a.Status != "" {
		x.ln(d+1, "status %s;", a.Status)
	}
	for _, k := range a.Kids {
		x.node(d+1, k)
	}
	x.ln(d, "}")
}

func (x *w) node(d int, n *Node) {
	x.ln(d, "%s %s {", n.Kind, n.Name)
	d++
	if n.When != "" {
		x.ln(d, "when %s;", q(n.When))
	}
	for _, f := range n.IfFeatures {
		x.ln(d, "if-feature %s;", f)
	}
	if n.Kind != "uses" {
		for _, t := range n.Typedefs {
			x.typedef(d, t)
		}
		for _, g := range n.Groupings {
			x.grouping(d, g)
		}
	}
	x.typ(d, n.Type)
	if n.Units != "" {
		x.ln(d, "units %s;", q(n.Units))
	}
	for _, m := range n.Musts {
		if m.Msg == "" && m.Tag == "" {
			x.ln(d, "must %s;", q(m.Expr))
		} else {
			x.ln(d, "must %s {", q(m.Expr))
			if m.Msg != "" {
				x.ln(d+1, "error-message %s;", q(m.Msg))
			}
			if m.Tag != "" {
				x.ln(d+1, "error-app-tag %s;", q(m.Tag))
			}
			x.ln(d, "}")
		}
	}
	if n.Key != "" {
		x.ln(d, "key %s;", q(n.Key))
	}
	for _, u := range n.Uniques {
		x.ln(d, "unique %s;", q(u))
	}
	if n.Presence == EmptyPresence {
		// a presence statement whose argument is the empty string still makes the container a presence container
		x.ln(d, "presence \"\";")
	} else if n.Presence != "" {
		x.ln(d, "presence %s;", q(n.Presence))
	}
	if n.Default != nil {
		x.ln(d, "default %s;", q(*n.Default))
	}
	if n.Config != "" {
		x.ln(d, "config %s;", n.Config)
	}
	if n.Mandatory != "" {
		x.ln(d, "mandatory %s;", n.Mandatory)
	}
	if n.Min != "" {
		x.ln(d, "min-elements %s;", n.Min)
	}
	if n.Max != "" {
		x.ln(d, "max-elements %s;", n.Max)
	}
	if n.OrdBy != "" {
		x.ln(d, "ordered-by %s;", n.OrdBy)
	}
	if n.Status != "" {
		x.ln(d, "status %s;", n.Status)
	}
	if n.Desc != "" {
		x.ln(d, "description %s;", q(n.Desc))
	}
	if n.Ref != "" {
		x.ln(d, "reference %s;", q(n.Ref))
	}
	for _, r := range n.Raw {
		x.ln(d, "%s", r)
	}
	for _, r := range n.Refines {
		x.ln(d, "refine %s {", q(r.Target))
		for _, s := range r.Stmts {
			x.ln(d+1, "%s", s)
		}
		x.ln(d, "}")
	}
	for _, a := range n.Augments {
		x.augment(d, a)
	}
	for _, k := range n.Kids {
		x.node(d, k)
	}
	d--
	x.ln(d, "}")
}

// Text renders the module or submodule.
func (m *Mod) Text() string {
	x := &w{}
	if m.BelongsTo != "" {
		x.ln(0, "submodule %s {", m.Name)
		x.ln(1, "belongs-to %s { prefix %s; }", m.BelongsTo, m.Prefix)
	} else {
		x.ln(0, "module %s {", m.Name)
		ns := m.NS
		if ns == "" {
			ns = "urn:verif:" + m.Name
		}
		x.ln(1, "namespace %s;", q(ns))
		x.ln(1, "prefix %s;", m.Prefix)
	}
	for _, i := range m.Imports {
		x.ln(1, "import %s { prefix %s; }", i.Mod, i.Prefix)
	}
	for _, i := range m.Includes {
		x.ln(1, "include %s;", i)
	}
	if m.Revision != "" {
		x.ln(1, "revision %s;", m.Revision)
	}
	for _, f := range m.Features {
		if len(f.IfFeatures) == 0 && f.Status == "" {
			x.ln(1, "feature %s;", f.Name)
			continue
		}
		x.ln(1, "feature %s {", f.Name)
		for _, i := range f.IfFeatures {
			x.ln(2, "if-feature %s;", i)
		}
		if f.Status != "" {
			x.ln(2, "status %s;", f.Status)
		}
		x.ln(1, "}")
	}
	for _, i := range m.Identities {
		if i.Base == "" && i.Status == "" {
			x.ln(1, "identity %s;", i.Name)
			continue
		}
		x.ln(1, "identity %s {", i.Name)
		if i.Base != "" {
			x.ln(2, "base %s;", i.Base)
		}
		if i.Status != "" {
			x.ln(2, "status %s;", i.Status)
		}
		x.ln(1, "}")
	}
	for _, t := range m.Typedefs {
		x.typedef(1, t)
	}
	if !m.DefsLast {
		for _, g := range m.Groupings {
			x.grouping(1, g)
		}
	}
	for _, n := range m.Nodes {
		x.node(1, n)
	}
	for i := range m.Augments {
		if len(m.AugmentsOrder) == len(m.Augments) {
			x.augment(1, m.Augments[m.AugmentsOrder[i]])
		} else if m.AugmentsReversed {
			x.augment(1, m.Augments[len(m.Augments)-1-i])
		} else {
			x.augment(1, m.Augments[i])
		}
	}
	if m.DefsLast {
		for _, g := range m.Groupings {
			x.grouping(1, g)
		}
	}
	for _, r := range m.Raw {
		for _, l := range strings.Split(r, "\n") {
			x.ln(1, "%s", l)
		}
	}
	for _, r := range m.Rpcs {
		x.ln(1, "rpc %s {", r.Name)
		for _, f := range r.IfFeatures {
			x.ln(2, "if-feature %s;", f)
		}
		if r.Status != "" {
			x.ln(2, "status %s;", r.Status)
		}
		if len(r.Input) > 0 {
			x.ln(2, "input {")
			for _, k := range r.Input {
				x.node(3, k)
			}
			x.ln(2, "}")
		}
		if len(r.Output) > 0 {
			x.ln(2, "output {")
			for _, k := range r.Output {
				x.node(3, k)
			}
			x.ln(2, "}")
		}
		x.ln(1, "}")
	}
	for _, n := range m.Notifs {
		x.ln(1, "notification %s {", n.Name)
		for _, f := range n.IfFeatures {
			x.ln(2, "if-feature %s;", f)
		}
		if n.Status != "" {
			x.ln(2, "status %s;", n.Status)
		}
		for _, k := range n.Kids {
			x.node(2, k)
		}
		x.ln(1, "}")
	}
	for _, dv := range m.Deviations {
		x.ln(1, "deviation %s {", q(dv.Target))
		for _, dd := range dv.Deviates {
			if len(dd.Stmts) == 0 {
				x.ln(2, "deviate %s;", dd.Kind)
				continue
			}
			x.ln(2, "deviate %s {", dd.Kind)
			for _, s := range dd.Stmts {
				x.ln(3, "%s", s)
			}
			x.ln(2, "}")
		}
		x.ln(1, "}")
	}
	x.ln(0, "}")
	return x.b.String()
}
