package sg

import (
	"strings"
)

// FeatureEnabled computes, for a set S of switched-on "module:feature" names,
// which features are effectively enabled: a feature is enabled iff it is in S
// and every feature its if-feature statements name is enabled (transitively).
func FeatureEnabled(mods []*Mod, on map[string]bool) map[string]bool {
	byName := map[string]*Mod{}
	for _, m := range mods {
		byName[m.Name] = m
	}
	memo := map[string]bool{}
	var eval func(m *Mod, ref string, depth int) bool
	eval = func(m *Mod, ref string, depth int) bool {
		fm, dm, f := resolveFeatureDef(byName, m, ref)
		if f == nil || depth > 50 {
			return false
		}
		key := fm.Name + ":" + f.Name
		if v, ok := memo[key]; ok {
			return v
		}
		v := on[key]
		for _, dep := range f.IfFeatures {
			if !eval(dm, dep, depth+1) {
				v = false
			}
		}
		memo[key] = v
		return v
	}
	for _, m := range mods {
		for _, f := range m.Features {
			eval(m, f.Name, 0)
		}
	}
	return memo
}

func resolveFeature(byName map[string]*Mod, m *Mod, ref string) (*Mod, *Feature) {
	km, _, f := resolveFeatureDef(byName, m, ref)
	return km, f
}

// resolveFeatureDef resolves a feature reference written in m: the module the feature belongs to (whose name keys
// the feature), the (sub)module that textually contains it (whose imports resolve its own if-features), the feature.
func resolveFeatureDef(byName map[string]*Mod, m *Mod, ref string) (*Mod, *Mod, *Feature) {
	pfx, name := localName(ref)
	fm := modByPrefix(byName, m, pfx)
	if fm == nil {
		return nil, nil, nil
	}
	fam := family(byName, fm)
	for _, x := range fam {
		for _, f := range x.Features {
			if f.Name == name {
				return fam[0], x, f
			}
		}
	}
	return nil, nil, nil
}

// PruneFeatures returns a copy in which every node whose if-feature condition
// is false under 'on' is deleted from the source and every remaining
// if-feature statement is removed.
func PruneFeatures(mods []*Mod, on map[string]bool) []*Mod {
	out := Clone(mods)
	byName := map[string]*Mod{}
	for _, m := range out {
		byName[m.Name] = m
	}
	en := FeatureEnabled(out, on)
	ok := func(m *Mod, refs []string) bool {
		for _, r := range refs {
			fm, f := resolveFeature(byName, m, r)
			if f == nil || !en[fm.Name+":"+f.Name] {
				return false
			}
		}
		return true
	}
	var prune func(m *Mod, kids []*Node, parentKind string) []*Node
	prune = func(m *Mod, kids []*Node, parentKind string) []*Node {
		var keep []*Node
		for _, k := range kids {
			if !ok(m, k.IfFeatures) {
				if parentKind == "choice" && k.Kind != "case" {
					// shorthand case: the if-feature sits on the node, the implicit case itself stays (empty)
					keep = append(keep, &Node{Kind: "case", Name: k.Name})
				}
				continue
			}
			k.IfFeatures = nil
			k.Kids = prune(m, k.Kids, k.Kind)
			for _, a := range k.Augments {
				a.Kids = prune(m, a.Kids, "")
			}
			for _, g := range k.Groupings {
				g.Kids = prune(m, g.Kids, "")
			}
			keep = append(keep, k)
		}
		return keep
	}
	for _, m := range out {
		m.Nodes = prune(m, m.Nodes, "")
		for _, g := range m.Groupings {
			g.Kids = prune(m, g.Kids, "")
		}
		var augs []*Augment
		for _, a := range m.Augments {
			if !ok(m, a.IfFeatures) {
				continue
			}
			a.IfFeatures = nil
			a.Kids = prune(m, a.Kids, "")
			augs = append(augs, a)
		}
		m.Augments = augs
		var rpcs []*Rpc
		for _, r := range m.Rpcs {
			if !ok(m, r.IfFeatures) {
				continue
			}
			r.IfFeatures = nil
			r.Input = prune(m, r.Input, "")
			r.Output = prune(m, r.Output, "")
			rpcs = append(rpcs, r)
		}
		m.Rpcs = rpcs
		var notifs []*Notif
		for _, n := range m.Notifs {
			if !ok(m, n.IfFeatures) {
				continue
			}
			n.IfFeatures = nil
			n.Kids = prune(m, n.Kids, "")
			notifs = append(notifs, n)
		}
		m.Notifs = notifs
	}
	return out
}

// Explicit returns a copy in which the inherited config and status are written
// on every descendant data node (choices and cases carry status but a case has
// no config statement).
func Explicit(mods []*Mod) []*Mod {
	out := Clone(mods)
	var walk func(kids []*Node, cfg, status string, inGrouping bool)
	walk = func(kids []*Node, cfg, status string, inGrouping bool) {
		for _, k := range kids {
			if k.Kind == "uses" {
				continue
			}
			c, s := cfg, status
			if k.Config != "" {
				c = k.Config
			} else if c != "" && k.Kind != "case" {
				k.Config = c
			}
			if k.Status != "" {
				s = k.Status
			} else if s != "" {
				k.Status = s
			}
			walk(k.Kids, c, s, inGrouping)
		}
	}
	for _, m := range out {
		walk(m.Nodes, "", "", false)
		// (the nodes of a notification, and of the input and output of an rpc, inherit its status)
		for _, r := range m.Rpcs {
			walk(r.Input, "", r.Status, false)
			walk(r.Output, "", r.Status, false)
		}
		for _, n := range m.Notifs {
			walk(n.Kids, "", n.Status, false)
		}
	}
	return out
}

// NodeRef is a data node of a module with its absolute schema node identifier.
type NodeRef struct {
	Mod    *Mod
	Node   *Node
	Parent *Node
	Path   []string // names including choice and case names
}

// ListNodes lists the explicitly written data nodes (nothing below a uses, no uses nodes).
func ListNodes(m *Mod) []NodeRef {
	var out []NodeRef
	var walk func(kids []*Node, parent *Node, path []string)
	walk = func(kids []*Node, parent *Node, path []string) {
		for _, k := range kids {
			if k.Kind == "uses" {
				continue
			}
			var p []string
			if parent != nil && parent.Kind == "choice" && k.Kind != "case" {
				// shorthand case: the implicit case has the node's name
				p = append(append([]string(nil), path...), k.Name, k.Name)
			} else {
				p = append(append([]string(nil), path...), k.Name)
			}
			out = append(out, NodeRef{m, k, parent, p})
			walk(k.Kids, k, p)
		}
	}
	walk(m.Nodes, nil, nil)
	return out
}

// AbsPath renders the schema node identifier with the given prefix on every element.
func (r NodeRef) AbsPath(prefix string) string {
	var b strings.Builder
	for _, p := range r.Path {
		b.WriteString("/" + prefix + ":" + p)
	}
	return b.String()
}
