// Package c03: operator precedence, associativity and whitespace are honoured.
package c03

import (
	"context"
	"fmt"
	"os"
	"strings"
	"testing"

	"verifharness/fw"
	"verifharness/tree"
	"verifharness/xp"

	"github.com/sdcio/yang-parser/xpath"
	"github.com/sdcio/yang-parser/xpath/grammars/expr"
)

type runOut struct {
	compiled bool
	cerr     string
	listing  string
	result   string
}

func compileRun(src string) runOut {
	m, err := expr.NewExprMachine(src, func(p string) (string, error) { return "ns:" + p, nil })
	if err != nil {
		return runOut{cerr: err.Error()}
	}
	o := runOut{compiled: true, listing: m.PrintMachine()}
	tr := &tree.Tree{NoRecord: true}
	res := xpath.NewCtxFromCurrent(context.Background(), m, tr.At(tree.ID{{Name: "top"}, {Name: "ctx"}})).Run()
	if res.GetError() != nil {
		o.result = "error"
	} else {
		o.result = res.PrintResult()
	}
	return o
}

func adjacentMix(e *xp.E) bool {
	found := false
	xp.Walk(e, func(x *xp.E) {
		if x.K != "bin" && x.K != "neg" {
			return
		}
		for _, c := range x.A {
			if c.K == "bin" || c.K == "neg" {
				found = true
			}
		}
	})
	return found
}

func same(a, b runOut) string {
	if a.compiled != b.compiled {
		return fmt.Sprintf("one compiles, the other does not (%q / %q)", a.cerr, b.cerr)
	}
	if !a.compiled {
		return ""
	}
	if a.listing != b.listing {
		return fmt.Sprintf("programs differ:\n%s\nvs\n%s", a.listing, b.listing)
	}
	if a.result != b.result {
		return fmt.Sprintf("results differ: %q vs %q", a.result, b.result)
	}
	return ""
}

func checkCase(c Case) fw.Outcome {
	out := fw.Outcome{NonTrivial: adjacentMix(c.Expr)}
	minT := xp.Tokens(c.Expr, xp.MinParens)
	fullT := xp.Tokens(c.Expr, xp.FullParens)
	minS, fullS := xp.Join(minT, nil), xp.Join(fullT, nil)
	out.Key = minS
	a, b := compileRun(minS), compileRun(fullS)
	if !a.compiled && !b.compiled {
		out.Labels = append(out.Labels, "both-rejected")
		out.NonTrivial = false
		return out
	}
	seen := map[string]bool{}
	xp.Walk(c.Expr, func(x *xp.E) {
		l := ""
		switch x.K {
		case "bin":
			l = "op:" + x.V
		case "neg":
			l = "op:neg"
		case "path":
			l = "path"
			for _, s := range x.P.Steps {
				if len(s.Preds) > 0 {
					l = "path+pred"
				}
			}
		}
		if l != "" && !seen[l] {
			seen[l] = true
			out.Labels = append(out.Labels, l)
		}
	})
	if msg := same(a, b); msg != "" {
		out.Violation = fmt.Sprintf("bare %q vs parenthesised %q: %s", minS, fullS, msg)
		return out
	}
	for _, lay := range c.Layouts {
		ws := make([]string, len(lay))
		for i, k := range lay {
			ws[i] = blanks[k%len(blanks)]
		}
		if len(ws) > len(minT)+1 {
			ws = ws[:len(minT)+1]
		}
		s := xp.Join(minT, ws)
		if msg := same(a, compileRun(s)); msg != "" {
			out.Violation = fmt.Sprintf("%q vs re-spaced %q: %s", minS, s, msg)
			return out
		}
	}
	// the extreme layout: one of each blank at every boundary
	ext := make([]string, len(minT)+1)
	for i := range ext {
		ext[i] = " \t\r\n"
	}
	if msg := same(a, compileRun(xp.Join(minT, ext))); msg != "" {
		out.Violation = fmt.Sprintf("%q vs blanks-everywhere layout: %s", minS, msg)
	}
	return out
}

var mixes = fw.Register(&fw.Prop[Case]{
	ID:   "C03",
	Name: "mix",
	Rule: "operator trees over all 13 binary operators, unary minus, unions, redundant parentheses and all operand kinds (numbers, literals, calls, paths with predicates); " +
		"oracle (metamorphic): minimally parenthesised rendering (XPath precedence table in the harness) and fully parenthesised rendering give identical PrintMachine() listings and results, " +
		"and so does every whitespace layout of the token list; non-trivial = an operator whose operand is itself an operator expression; distinct by bare rendering",
	Gen:      genCase,
	Check:    checkCase,
	MinLabel: []string{"op:or", "op:and", "op:=", "op:!=", "op:<", "op:<=", "op:>", "op:>=", "op:+", "op:-", "op:*", "op:div", "op:mod", "op:neg", "op:|", "path", "path+pred"},
})

// exhaustive sub-domain: a (op1) b (op2) c [(op3) d] over all operators, with
// unary minus on each operand, for several operand assignments.
func TestExhaustive(t *testing.T) {
	if os.Getenv("VERIF_ONLY") != "" && os.Getenv("VERIF_ONLY") != "mix" {
		return
	}
	if fw.Shard() != 0 {
		return
	}
	operandSets := [][]*xp.E{
		{xp.Num("1"), xp.Num("2"), xp.Num("3"), xp.Num("4")},
		{xp.Lit("a"), xp.Num("2"), xp.Call("true"), xp.Lit("")},
		{xp.Leaf("a"), xp.Leaf("div"), xp.PathE(&xp.Path{Root: "abs", Steps: []xp.Step{{Kind: "name", Name: "mod"}}}), xp.Leaf("d")},
	}
	var count int64
	build := func(ops []string, negs int, opnds []*xp.E) *xp.E {
		// precedence climbing over the flat sequence, left associative
		xs := make([]*xp.E, len(ops)+1)
		for i := range xs {
			xs[i] = opnds[i]
			if negs&(1<<i) != 0 {
				xs[i] = xp.Neg(xs[i])
			}
		}
		var parse func(minPrec int, pos *int) *xp.E
		parse = func(minPrec int, pos *int) *xp.E {
			l := xs[*pos]
			for *pos < len(ops) && xp.Prec(ops[*pos]) >= minPrec {
				op := ops[*pos]
				*pos++
				r := parse(xp.Prec(op)+1, pos)
				l = xp.Bin(op, l, r)
			}
			return l
		}
		p := 0
		return parse(1, &p)
	}
	for _, opnds := range operandSets {
		for _, o1 := range binOps {
			for _, o2 := range binOps {
				for negs := 0; negs < 8; negs++ {
					e := build([]string{o1, o2}, negs, opnds)
					fw.Eval(mixes, "/pairs", Case{Expr: e})
					count++
				}
				limit := 2
				if fw.Thorough() {
					limit = 16
				}
				for _, o3 := range binOps {
					for negs := 0; negs < limit; negs += 1 {
						e := build([]string{o1, o2, o3}, negs*5%16, opnds)
						fw.Eval(mixes, "/triples", Case{Expr: e})
						count++
					}
				}
			}
		}
	}
	fw.NoteExhaustive("mix/pairs", "all ordered pairs of the 13 binary operators x unary minus on each of 3 operands x 3 operand assignments", int64(13*13*8*3))
	fw.NoteExhaustive("mix/triples", "all ordered triples of the 13 binary operators x sampled unary-minus masks x 3 operand assignments", count-int64(13*13*8*3))
	_ = strings.Join
}

func TestMain(m *testing.M) { fw.Main(m) }

func TestMix(t *testing.T) { fw.Run(t, mixes) }
