package c03

import (
	"verifharness/fw"
	"verifharness/xp"

	"pgregory.net/rapid"
)

// Case: an operator tree plus whitespace layouts (indices into blanks, one per token boundary).
type Case struct {
	Expr    *xp.E   `json:"expr"`
	Layouts [][]int `json:"layouts,omitempty"`
}

var blanks = []string{"", " ", "  ", "\t", "\n", "\r", "\r\n", " \t\n\r "}

var binOps = []string{"or", "and", "=", "!=", "<", "<=", ">", ">=", "+", "-", "*", "div", "mod"}

type gen struct{ t *rapid.T }

func (g *gen) pick(n int, l string) int { return rapid.IntRange(0, n-1).Draw(g.t, l) }

func (g *gen) path(d int, allowPred bool) *xp.Path {
	p := &xp.Path{Root: []string{"rel", "rel", "abs", "cur"}[g.pick(4, "root")]}
	n := 1 + g.pick(3, "nsteps")
	for i := 0; i < n; i++ {
		switch g.pick(7, "stepkind") {
		case 0:
			p.Steps = append(p.Steps, xp.Step{Kind: "up"})
		case 6:
			p.Steps = append(p.Steps, xp.Step{Kind: "self"})
		default:
			st := xp.Step{Kind: "name", Name: []string{"a", "b", "c", "div", "and", "mod", "or", "x-y", "n1", "*", "*"}[g.pick(11, "name")]}
			if g.pick(4, "pfx") == 0 {
				st.Prefix = "p"
			}
			if allowPred && d > 0 && g.pick(3, "pred") == 0 {
				if g.pick(3, "freepred") == 0 {
					// any expression as the predicate: the operators stand directly inside the brackets
					st.Preds = append(st.Preds, xp.Pred{Val: xp.Bin([]string{"and", "or", "and", "=", "<", "+"}[g.pick(6, "predop")], g.expr(d-1, false), g.expr(d-1, false))})
				} else {
					st.Preds = append(st.Preds, xp.Pred{Key: []string{"k", "name", "id"}[g.pick(3, "key")], Val: g.expr(d-1, false)})
				}
			}
			p.Steps = append(p.Steps, st)
		}
	}
	return p
}

func (g *gen) operand(d int, allowPred bool) *xp.E {
	switch g.pick(6, "operand") {
	case 0:
		// the exponent forms are an extension of this implementation (pinned by its tests); they matter here because
		// a '+' or '-' written tight against them must still be an operator
		return xp.Num([]string{"1", "2", "3", "0.5", "10", ".5", "7.", "1e3", "2E2", "1.5e1", "12E0", ".5e1"}[g.pick(12, "num")])
	case 1:
		return xp.Lit([]string{"a", "", "1", "x y", "and", "-"}[g.pick(6, "lit")])
	case 2:
		switch g.pick(7, "fn") {
		case 4:
			// every argument position of a call is a full expression: the operators of every level may stand in it bare
			return xp.Call("substring", g.expr(d-1, allowPred), g.expr(d-1, allowPred), g.expr(d-1, allowPred))
		case 5:
			return xp.Call("translate", g.expr(d-1, allowPred), g.expr(d-1, allowPred), g.expr(d-1, allowPred))
		case 6:
			return xp.Call([]string{"contains", "starts-with", "substring-before"}[g.pick(3, "fn2")], g.expr(d-1, allowPred), g.expr(d-1, allowPred))
		case 0:
			return xp.Call("true")
		case 1:
			return xp.Call("string-length", g.expr(d-1, allowPred))
		case 2:
			return xp.Call("concat", g.expr(d-1, allowPred), g.expr(d-1, allowPred))
		default:
			return xp.Call("not", g.expr(d-1, allowPred))
		}
	case 3:
		return xp.PathE(g.path(d, allowPred))
	case 4:
		if g.pick(3, "union") == 0 {
			n := 2 + g.pick(2, "nunion")
			e := xp.PathE(g.path(0, false))
			for i := 1; i < n; i++ {
				r := xp.PathE(g.path(0, false))
				if g.pick(4, "rightunion") == 0 {
					e = xp.Bin("|", r, e) // right-nested: needs parentheses
				} else {
					e = xp.Bin("|", e, r)
				}
			}
			return e
		}
		return xp.Paren(g.expr(d-1, allowPred))
	default:
		return xp.Num("4")
	}
}

func (g *gen) expr(d int, allowPred bool) *xp.E {
	if d <= 0 {
		return g.operand(0, allowPred)
	}
	switch g.pick(8, "form") {
	case 0:
		return g.operand(d, allowPred)
	case 1:
		return xp.Neg(g.expr(d-1, allowPred))
	default:
		return xp.Bin(binOps[g.pick(len(binOps), "op")], g.expr(d-1, allowPred), g.expr(d-1, allowPred))
	}
}

func genCase(t *rapid.T) Case {
	g := &gen{t}
	maxd := 4
	if fw.Thorough() {
		maxd = 6
	}
	e := g.expr(1+g.pick(maxd, "depth"), true)
	if g.pick(25, "longchain") == 0 {
		// a long chain: 34-60 operands joined by operators of one or several levels; fully parenthesised it nests as
		// deep as it is long (precedence and associativity hold at every depth)
		n := 34 + g.pick(27, "chainlen")
		ops := [][]string{{"+", "-"}, {"*", "div", "mod"}, {"and"}, {"or"}, {"+", "*", "-", "div"}, {"or", "and", "=", "<", "+", "*"}}[g.pick(6, "chainops")]
		e = g.operand(0, false)
		for i := 1; i < n; i++ {
			op := ops[g.pick(len(ops), "chainop")]
			if g.pick(6, "chainright") == 0 {
				e = xp.Bin(op, g.operand(0, false), e)
			} else {
				e = xp.Bin(op, e, g.operand(0, false))
			}
		}
	}
	ntok := len(xp.Tokens(e, xp.MinParens))
	nl := 1 + g.pick(3, "nlayouts")
	c := Case{Expr: e}
	for i := 0; i < nl; i++ {
		c.Layouts = append(c.Layouts, rapid.SliceOfN(rapid.IntRange(0, len(blanks)-1), ntok+1, ntok+1).Draw(t, "layout"))
	}
	return c
}

// Gen is the exported generator (used by C05/C06).
func Gen(t *rapid.T) Case { return genCase(t) }

// Source renders the case's expression with minimal parentheses.
func Source(c Case) string { return xp.Join(xp.Tokens(c.Expr, xp.MinParens), nil) }
