// Package c04: exactly the supported XPath and leafref path syntax is accepted.
package c04

import (
	"fmt"
	"strings"
	"testing"

	"verifharness/fw"
	"verifharness/xp"

	"github.com/sdcio/yang-parser/xpath/grammars/expr"
	"github.com/sdcio/yang-parser/xpath/grammars/leafref"
)

func knownPrefix(p string) bool { return p == "" || p == "p" || p == "q" }

func implMapFn(p string) (string, error) {
	if !knownPrefix(p) {
		return "", fmt.Errorf("unknown import %s", p)
	}
	return "urn:" + p, nil
}

var colliding = []string{"div", "and", "or", "mod", "text", "node", "comment", "processing-instruction", "child", "self", "parent", "ancestor",
	"current", "deref", "count", "true", "not", "concat", "nosuch", "xml"}

func checkCase(cc Case) fw.Outcome {
	c := struct {
		Grammar, Src string
		MapFn, Near  bool
	}{cc.Grammar, string(cc.Src), cc.MapFn, cc.Near}
	out := fw.Outcome{Labels: []string{"grammar:" + c.Grammar}, Key: c.Grammar + "|" + c.Src + fmt.Sprint(c.MapFn)}
	var want xp.Verdict
	var kp func(string) bool
	if c.MapFn {
		kp = knownPrefix
	}
	var err error
	if c.Grammar == "expr" {
		want = xp.ExprVerdict(c.Src, kp)
	} else {
		want = xp.LeafrefVerdict(c.Src, kp)
	}
	if want == xp.Grey {
		out.Labels = append(out.Labels, "grey")
		out.Skip = true
		return out
	}
	if c.Grammar == "expr" {
		if c.MapFn {
			_, err = expr.NewExprMachine(c.Src, implMapFn)
		} else {
			_, err = expr.NewExprMachine(c.Src, nil)
		}
	} else {
		if c.MapFn {
			_, err = leafref.NewLeafrefMachine(c.Src, implMapFn)
		} else {
			_, err = leafref.NewLeafrefMachine(c.Src, nil)
		}
	}
	got := xp.Reject
	if err == nil {
		got = xp.Accept
	}
	out.Labels = append(out.Labels, "ref:"+want.String())
	collide := false
	for _, n := range colliding {
		if strings.Contains(c.Src, n) {
			collide = true
			break
		}
	}
	if collide {
		out.Labels = append(out.Labels, "colliding-name")
	}
	if c.Near {
		out.Labels = append(out.Labels, "near-valid")
	}
	out.NonTrivial = (collide && len(strings.Fields(c.Src)) >= 1 && len(c.Src) > 3) || c.Near
	if got != want {
		out.Violation = fmt.Sprintf("%s grammar, input %q (prefix map: %v): reference says %s, implementation says %s (err=%v)", c.Grammar, c.Src, c.MapFn, want, got, err)
	}
	return out
}

var syntax = fw.Register(&fw.Prop[Case]{
	ID: "C04", Name: "syntax",
	Rule: "strings for the must/when compiler and the leafref path compiler: all token sequences up to a bounded length over the full token alphabet (exhaustive, in two spacings), " +
		"a corpus of lexical edge cases, valid sentences from the C02/C03 grammars and from the RFC 6020 path-arg ABNF with zero or one token edit, random token soups, " +
		"names at every XML name-character range boundary, invalid UTF-8 at random offsets; oracle (differential verdict): an independent tokenizer (XPath 1.0 section 3.7 rules) and " +
		"recursive-descent recogniser of the supported subset / of path-arg; grey-zone inputs are skipped and counted; only accept/reject is compared; " +
		"non-trivial = contains a name colliding with an operator, function, axis or node-type name, or is within one token edit of a valid sentence",
	Gen: genCase, Check: checkCase,
	MinLabel: []string{"grammar:expr", "grammar:leafref", "ref:accept", "ref:reject", "colliding-name", "near-valid"},
})

func TestMain(m *testing.M) {
	xp.KnownQNameBlanks = func() bool { return fw.Known("c04.qname-blanks") }
	fw.Main(m)
}

func TestSyntax(t *testing.T) { fw.Run(t, syntax) }

func TestCorpus(t *testing.T) {
	if fw.Shard() != 0 {
		return
	}
	for _, s := range lexical {
		for _, g := range []string{"expr", "leafref"} {
			for _, mf := range []bool{false, true} {
				fw.Eval(syntax, "/corpus", Case{Grammar: g, Src: fw.BStr(s), MapFn: mf})
			}
		}
	}
}

func enumerate(alphabet []string, maxLen int, grammar string, shards int) int64 {
	var n int64
	idx := make([]int, maxLen)
	toks := make([]string, 0, maxLen)
	for l := 1; l <= maxLen; l++ {
		for i := range idx[:l] {
			idx[i] = 0
		}
		for {
			if l < 3 || idx[0]%shards == fw.Shard()%shards {
				if l >= 3 || fw.Shard() == 0 {
					toks = toks[:0]
					for _, k := range idx[:l] {
						toks = append(toks, alphabet[k])
					}
					fw.Eval(syntax, "/tokens-"+grammar, Case{Grammar: grammar, Src: fw.BStr(strings.Join(toks, " ")), MapFn: true})
					fw.Eval(syntax, "/tokens-"+grammar, Case{Grammar: grammar, Src: fw.BStr(joinTight(toks)), MapFn: true})
					n += 2
				}
			}
			// increment
			j := l - 1
			for j >= 0 {
				idx[j]++
				if idx[j] < len(alphabet) {
					break
				}
				idx[j] = 0
				j--
			}
			if j < 0 {
				break
			}
		}
	}
	return n
}

func TestTokenSequences(t *testing.T) {
	shards := fw.NShards()
	el, ll := 3, 4
	if fw.Thorough() {
		el, ll = 4, 6
	}
	n1 := enumerate(exprAlphabet, el, "expr", shards)
	n2 := enumerate(lrAlphabet, ll, "leafref", shards)
	if fw.Shard() == 0 {
		fw.NoteExhaustive("syntax/tokens-expr", fmt.Sprintf("all sequences of length <= %d over the %d-symbol expr token alphabet, blank-separated and tightly joined (this shard's share: %d)", el, len(exprAlphabet), n1), pow(len(exprAlphabet), el)*2)
		fw.NoteExhaustive("syntax/tokens-leafref", fmt.Sprintf("all sequences of length <= %d over the %d-symbol leafref token alphabet, two spacings (this shard's share: %d)", ll, len(lrAlphabet), n2), pow(len(lrAlphabet), ll)*2)
	}
}

func pow(a, b int) int64 {
	r := int64(1)
	for i := 0; i < b; i++ {
		r *= int64(a)
	}
	return r
}

// FuzzSyntax: coverage-guided search with the differential verdict inside the target.
func FuzzSyntax(f *testing.F) {
	for i, s := range lexical {
		if len(s) < 60 {
			f.Add(byte(i%2), s, i%3 == 0)
		}
	}
	f.Fuzz(func(t *testing.T, g byte, src string, mf bool) {
		if len(src) > 120 {
			return
		}
		c := Case{Grammar: []string{"expr", "leafref"}[int(g)%2], Src: fw.BStr(src), MapFn: mf}
		if out := checkCase(c); out.Violation != "" {
			fw.FuzzReport(syntax, c, out)
			t.Fatal(out.Violation)
		}
	})
}
