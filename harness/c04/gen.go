// Package c04: exactly the supported XPath and leafref path syntax is accepted.
// (gen.go: the case type and the sentence generators, importable by C15.)
package c04

import (
	"strings"

	"verifharness/c02"
	"verifharness/c03"
	"verifharness/fw"
	"verifharness/xp"

	"pgregory.net/rapid"
)

type Case struct {
	Grammar string  `json:"grammar"` // expr | leafref
	Src     fw.BStr `json:"src"`
	MapFn   bool    `json:"mapfn"`
	Near    bool    `json:"near,omitempty"` // within one token edit of a valid sentence
}

// ---- generators ----------------------------------------------------------------

var exprAlphabet = []string{"(", ")", "[", "]", ".", "..", "@", ",", "::", "/", "//", "|", "+", "-", "=", "!=", "<", ">=", "*", "1", "'s'",
	"a", "p:b", "p:*", "u:b", "div", "and", "or", "mod", "text", "node", "child", "self", "current", "deref", "count", "true", "not", "concat", "nosuch", "$v", ":",
	// characters that many tables of "white space" hold and XPath's does not (S is space, tab, CR, LF): stray characters
	"\f", "\v", "\u00a0", "\u0085",
	// operator names are case sensitive: these are ordinary names
	"AND", "Or", "DIV", "Mod",
	// XPath literals have no escapes: a backslash is an ordinary character, also right before the closing quote
	"\"\\\"", "'a\\'", "\"x\\\\\"",
	// a literal may hold any character, also those whose code equals a token value of the lexer (0xF001...)
	"'\uf001'", "\"\uf000\uf002\"",
	// a quote that opens a literal which never ends (as the last token: nothing at all follows it)
	"'", "\""}

var lrAlphabet = []string{"/", "..", "[", "]", "=", "(", ")", "current", "a", "p:b", "xmlfoo", "u:b", ".", "*", "'s'", "1", "p:*", ":", "\f", "\v"}

func wordy(s string) bool {
	c := s[len(s)-1]
	return c == '.' || c == '-' || c == '_' || (c >= '0' && c <= '9') || (c|0x20 >= 'a' && c|0x20 <= 'z') || c >= 0x80
}
func wordyStart(s string) bool {
	c := s[0]
	return c == '.' || c == '-' || c == '_' || (c >= '0' && c <= '9') || (c|0x20 >= 'a' && c|0x20 <= 'z') || c >= 0x80
}

func joinTight(toks []string) string {
	var b strings.Builder
	for i, t := range toks {
		if i > 0 && wordy(toks[i-1]) && wordyStart(t) {
			b.WriteByte(' ')
		}
		b.WriteString(t)
	}
	return b.String()
}

func tokensOf(e *xp.E) []string {
	var out []string
	for _, t := range xp.Tokens(e, xp.MinParens) {
		out = append(out, t.T)
	}
	return out
}

func lrSentence(t *rapid.T) []string {
	pick := func(n int, l string) int { return rapid.IntRange(0, n-1).Draw(t, l) }
	id := func() string {
		// the last entries are not RFC 6020 identifiers (ASCII letters, digits, "_", "-", "." only) although XML would
		// take them as names
		return []string{"a", "b", "p:c", "q:d", "e-1", "f.g", "_h", "current", "x1", "a", "b", "p:c", "q:d", "e-1", "f.g", "_h", "current", "x1",
			"caf\u00e9", "b\u00b7c", "p:caf\u00e9", "na\u00efve:x", "a\u0301", "x\u203fy", "\u00e9a", "a\u65e5"}[pick(26, "id")]
	}
	pred := func() []string {
		out := []string{"[", id(), "=", "current", "(", ")", "/"}
		for i := 0; i <= pick(3, "ups"); i++ {
			out = append(out, "..", "/")
		}
		// one time in eight the key expression carries a predicate of its own on one of its steps, which the
		// rel-path-keyexpr of RFC 6020 does not allow (a multi-token departure from the language)
		nested := func() []string {
			if pick(8, "nestedpred") == 3 {
				return []string{"[", id(), "=", "current", "(", ")", "/", "..", "/", id(), "]"}
			}
			return nil
		}
		for i := 0; i < pick(3, "mid"); i++ {
			out = append(out, id())
			out = append(out, nested()...)
			out = append(out, "/")
		}
		out = append(out, id())
		out = append(out, nested()...)
		return append(out, "]")
	}
	abs := func() []string {
		var out []string
		for i := 0; i <= pick(3, "nabs"); i++ {
			out = append(out, "/", id())
			for j := 0; j < pick(3, "npred")-1+0; j++ {
				out = append(out, pred()...)
			}
		}
		return out
	}
	if pick(2, "absrel") == 0 {
		return abs()
	}
	var out []string
	for i := 0; i <= pick(3, "nups"); i++ {
		out = append(out, "..", "/")
	}
	out = append(out, id())
	if pick(2, "tail") == 0 {
		for j := 0; j < pick(3, "npred2"); j++ {
			out = append(out, pred()...)
		}
		out = append(out, abs()...)
	}
	return out
}

var lexical = []string{
	"a\x00", "a = 1 \x00 ]]]", "\x00", "'a\x00b'", "a\x00b", "0\x00", "a \x00", "a\x01", "'\x01'", "a\x7f",
	".0", ".05", ".007", ".00", "0.", "00", "007", "0.0", ".9", "1.50", "a > .05", "a[. < .01]", ". < .0", ".0.", "..0", ". 0", "a/.0",
	"1", "1.", ".1", "1.2.3", "1e5", "1e", "1e+5", "1E5", "1.e5", ".5e3", "1..2", "0x10", "1_0", "1a", "1 e5", "12e", strings.Repeat("9", 400), "1.5.", ". 5", "1 . 5", "5 .", "..5", "1..",
	"\"\\\"", "string-length(\"\\\")", "contains(a, \"\\\") and b", "\"a\\\" = 'a\\'", "\"\\\\\"", "'\\'", "\"\\\"\"", "concat(\"\\n\", '\\')",
	"'", "\"", "a = '", "../y != '", "concat('a', '", "a = \"", "'a' = '", "a['",
	"''", "\"\"", "'a", "\"a", "'a\"", "'a''", "'a' 'b'", "'it''s'", "\"it's\"", "'\xff'", "'a\xc3'", "\"\xe2\x82\"", "'\xed\xa0\x80'",
	"", " ", "\t\n", "a\xff", "\xffa", "a:\xff", "\xff:a", "a[\xff]", "a \xff", "$a", "$p:a", "a$", "#", "a#b", "a{b}", "a\\b", "a;b", "a?b", "a~b", "a%b", "a&b", "a^b", "a`b",
	"a:b", "a :b", "a: b", "a : b", "a:*", "a: *", "a :*", "a:b:c", "a::b", "a:", ":a", "a:1", "a:-b", "a:'b'", "p:b(", "p:concat('a','b')",
	"()", "( )", "(())", "(1)", "((1))", "(a)", "(a)/b", "(a)[1]", "(a)//b", "'x'/a", "1/a", "true()/a", "a/(b)", "a/'x'", "a/1", "a/true()",
	"/", "/ ", "//", "/a", "//a", "a//b", "a/", "a//", "/a/", "/..", "/.", "/*", "/ *", "/ * 2", "/ div 2", "/div", "/ and /", "/a and /b", "/ = /", "/=/",
	"*", "**", "***", "* * *", "a*b", "a * b", "a* b", "a *b", "*a", "a*", "2*3", "2 * * ", "2 * *", "* * 2", "*[1]", "*/*", "* div *", "* mod* ", "div div div", "div * mod", "and and and", "or or or", "mod mod mod", "div div", "and or", "- -1", "--1", "- - a", "-", "1-", "1--1", "1 - - 1", "a-b", "a - b", "a -b", "a- b",
	"@a", "a/@b", "@*", "child::a", "self::node()", "parent::*", "ancestor-or-self::a", "attribute::a", "foo::a", "child ::a", "child:: a", "child : : a", "a::", "::a",
	"text()", "node()", "comment()", "processing-instruction()", "processing-instruction('x')", "a/text()", "a/node()", "text", "node", "comment", "text ()", "node ( )",
	"current()", "current( )", "current ()", "current()/a", "current()/..", "current()/../a[k=current()/b]", "current", "current(1)", "current()()", "current()[1]", "current()/", "string(current())", "current()=1", "-current()",
	"deref(a)", "deref(a)/b", "deref(current())", "deref(current()/../a)/../b", "deref(deref(a)/b)", "deref()", "deref(a,b)", "deref(1)", "deref('a')", "deref(a|b)", "deref(a)[1]", "deref", "deref (a)", "deref(a=b)", "deref((a))",
	"true()", "true(1)", "true", "true ()", "false()", "not()", "not(1)", "not(1,2)", "concat('a')", "concat('a','b')", "concat('a','b','c')", "concat('a','b','c','d')", "substring('a',1)", "substring('a',1,2)", "substring('a',1,2,3)",
	"string()", "string(1)", "number()", "number(1)", "boolean(1)", "boolean()", "count(a)", "count()", "count(1)", "count(a,b)", "sum(a)", "local-name()", "local-name(a)", "last()", "last(1)", "position()", "floor(1)", "ceiling(1.5)", "round(1)", "round()", "string-length('a')", "string-length()", "normalize-space('a')", "normalize-space()", "translate('a','b','c')", "translate('a','b')", "starts-with('a','b')", "contains('a','b')", "substring-before('a','b')", "substring-after('a','b')", "re-match('a','b')", "re-match('a')",
	"lang('en')", "id('a')", "name()", "name(a)", "namespace-uri()", "nosuch()", "nosuch(1)", "p:f()", "f", "f(", "f)", "f()",
	"a[1]", "a[1][2]", "a[]", "a[", "a]", "a[[1]]", "a[1]]", "a[b[c]]", "a[b=c]/d", "a[1]/b[2]", ".[1]", "..[1]", "a/.[1]", "a[.]", "a[..]", "a[. = 1]", "1[1]", "'a'[1]", "(1)[1]",
	"a|-b", "1|-1", "a | b | - -c", "count(a | -b)", "x[y | -z]", "-a|b", "- a | b", "a|(-b)", "a|b-c", "a|-", "(a|-b)",
	"a|b", "a|", "|a", "a||b", "a|b|c", "a | (b | c)", "(a|b)/c", "1|2", "a|1", "'a'|b", "a|b[1]", "-a|b",
	"a AND b", "a Or b", "1 DIV 2", "a Mod b", "AND", "a/AND", "AND and Or", "DIV div Mod", "a and b OR c", "Div(1)", "a aNd b",
	"a and b", "a or b", "a and", "and a", "a andb", "aand b", "a and and", "a div b", "a mod b", "a div", "div", "1 div 2", "1div 2", "1 div2", "1div2", "(1)div(2)", "1 mod(2)", "a=b", "a!=b", "a!b", "a=!b", "a==b", "a<b", "a<=b", "a=<b", "a>b", "a>=b", "a=>b", "a<>b", "a<<b", "a< =b", "a! =b", "1<2<3", "1=2=3", "a+b", "a+", "+a", "a++b", "1+-1", "1-+1", "a,b", ",", "a,", "(a,b)",
	"é", "éa", "aé", "·a", "a·", "a\u0300", "\u0300a", "a\u203f", "\u203fa", "a\u00d7", "\u00d7", "a\u00f7b", "\u037e", "a\u037e", "\u2000a", "a\u2000", "\u3000", "a\u3000b", "\ufffe", "a\ufffe", "\U000effff", "\U000f0000", "a\U000f0000", "日本:語", "p:日本", "日本:*",
	"1234567890123456789012345678901234567890123456789012345678901234567890123456789012345678901234567890123456789012345678901234567890123456789012345678901234567890123456789012345678901234567890123456789012345678901234567890123456789012345678901234567890123456789012345678901234567890123456789012345678901234567890123456789012345678901234567890123456789012345678901234567890123456789012345678901234567890 > 1", "9999999999999999999999999999999999999999999999999999999999999999999999999999999999999999999999999999999999999999999999999999999999999999999999999999999999999999999999999999999999999999999999999999999999999999999999999999999999999999999999999999999999999999999999999999999999999999999999999999999999999999999999", "0.00000000000000000000000000000000000000000000000000000000000000000000000000000000000000000000000000000000000000000000000000000000000000000000000000000000000000000000000000000000000000000000000000000000000000000000000000000000000000000000000000000000000000000000000000000000000000000000000000000000000000000000000000000000000000000000000000000000000000000000000000000000000000000000000000000000000000001", "9999999999999999999999999999999999999999999999999999999999999999999999999999999999999999999999999999999999999999999999999999999999999999999999999999999999999999999999999999999999999999999999999999999999999999999999999999999999999999999999999999999999999999999999999999999999999999999999999999999999999999999999999999999999999999999999999999999999999999999999999999999999999999999999999999999999999999.5 = 1",
	"a = '\uf001'", "concat('\uf001', \"\uf00f\")", "\uf001", "a\uf001",
}

var boundaryRunes = []rune{0xB6, 0xB7, 0xB8, 0xBF, 0xC0, 0xD6, 0xD7, 0xD8, 0xF6, 0xF7, 0xF8, 0x2FF, 0x300, 0x36F, 0x370, 0x37D, 0x37E, 0x37F, 0x1FFF, 0x2000,
	0x200B, 0x200C, 0x200D, 0x200E, 0x203E, 0x203F, 0x2040, 0x2041, 0x206F, 0x2070, 0x218F, 0x2190, 0x2BFF, 0x2C00, 0x2FEF, 0x2FF0, 0x3000, 0x3001,
	0xD7FF, 0xE000, 0xF000, 0xF001, 0xF002, 0xF010, 0xF8FF, 0xF900, 0xFDCF, 0xFDD0, 0xFDEF, 0xFDF0, 0xFFFD, 0xFFFE, 0xFFFF, 0x10000, 0xEFFFF, 0xF0000, 0x10FFFF}

func genCase(t *rapid.T) Case {
	pick := func(n int, l string) int { return rapid.IntRange(0, n-1).Draw(t, l) }
	c := Case{Grammar: "expr", MapFn: rapid.Bool().Draw(t, "mapfn")}
	var toks []string
	alphabet := exprAlphabet
	switch pick(6, "family") {
	case 0:
		toks = tokensOf(c03.Gen(t).Expr)
	case 1:
		toks = tokensOf(c02.Gen(t).Expr)
	case 2, 3:
		c.Grammar = "leafref"
		alphabet = lrAlphabet
		toks = lrSentence(t)
	case 4:
		// random token soup
		n := 1 + pick(7, "len")
		for i := 0; i < n; i++ {
			toks = append(toks, exprAlphabet[pick(len(exprAlphabet), "tok")])
		}
		c.Src = fw.BStr(strings.Join(toks, " "))
		return c
	default:
		// names at XML name-character boundaries
		r := boundaryRunes[pick(len(boundaryRunes), "rune")]
		switch pick(4, "place") {
		case 0:
			c.Src = fw.BStr(string(r) + "a")
		case 1:
			c.Src = fw.BStr("a" + string(r))
		case 2:
			c.Src = fw.BStr("a/" + string(r) + " = 1")
		default:
			c.Src = fw.BStr("p:" + string(r) + "x")
		}
		return c
	}
	// numbers in every lexical form of the Number production (Digits ('.' Digits?)? | '.' Digits), leading zeros included
	if pick(3, "numforms") == 1 {
		forms := []string{".0", ".05", ".007", "0.", "00", "007", "1.", "1.0", "0.0", ".9", "10", "1.50", ".50", "0", "9.", ".1234567890"}
		for i, tk := range toks {
			if tk != "" && tk != "." && tk != ".." && strings.Trim(tk, "0123456789.") == "" {
				toks[i] = forms[pick(len(forms), "numform")]
			}
		}
	}
	// one token edit (or none)
	c.Near = true
	switch pick(6, "edit") {
	case 0:
		// unchanged valid sentence
	case 1:
		if len(toks) > 1 {
			i := pick(len(toks), "del")
			toks = append(toks[:i:i], toks[i+1:]...)
		}
	case 2:
		i := pick(len(toks)+1, "ins")
		toks = append(toks[:i:i], append([]string{alphabet[pick(len(alphabet), "instok")]}, toks[i:]...)...)
	case 3:
		i := pick(len(toks), "dup")
		toks = append(toks[:i:i], append([]string{toks[i]}, toks[i:]...)...)
	case 4:
		if len(toks) > 1 {
			i := pick(len(toks)-1, "swap")
			toks[i], toks[i+1] = toks[i+1], toks[i]
		}
	default:
		i := pick(len(toks), "rep")
		toks[i] = alphabet[pick(len(alphabet), "reptok")]
	}
	switch pick(4, "join") {
	case 0:
		c.Src = fw.BStr(strings.Join(toks, " "))
	case 1:
		c.Src = fw.BStr(joinTight(toks))
	case 2:
		c.Src = fw.BStr(" " + strings.Join(toks, " \t\n") + "\r")
	default:
		// every gap its own run of 1-3 whitespace characters in any order (XPath ExprWhitespace: #x20 #x9 #xD #xA)
		var b strings.Builder
		for i, t := range toks {
			if i > 0 {
				n := 1 + pick(3, "wslen")
				for j := 0; j < n; j++ {
					b.WriteByte(" \t\r\n"[pick(4, "wschar")])
				}
			}
			b.WriteString(t)
		}
		c.Src = fw.BStr(b.String())
	}
	if pick(12, "badutf") == 0 && len(c.Src) > 0 {
		i := pick(len(c.Src)+1, "utfpos")
		c.Src = c.Src[:i] + fw.BStr([]string{"\xff", "\xc3", "\xe2\x82", "\x80"}[pick(4, "utfbyte")]) + c.Src[i:]
		c.Near = false
	}
	return c
}

// Gen is the exported generator (used by C15 for expressions embedded in modules).
func Gen(t *rapid.T) Case { return genCase(t) }

// Corpus returns the hand-written lexical edge cases (expr grammar).
func Corpus() []string { return lexical }
