// Package c10: the parse tree mirrors the source and ignores trivia.
package c10

import (
	"fmt"
	"strconv"
	"strings"
	"testing"

	"verifharness/fw"
	"verifharness/yg"

	"github.com/sdcio/yang-parser/parse"
	"pgregory.net/rapid"
)

// A is an abstract statement: keyword, optional argument value, substatements.
type A struct {
	Kw   string  `json:"kw"`
	Val  *string `json:"val,omitempty"`
	Kids []*A    `json:"kids,omitempty"`
}

// L is the layout of one statement (parallel tree).
type L struct {
	T      [4]string `json:"t"`
	Quotes []string  `json:"quotes,omitempty"` // quoting of each piece: u s d
	Cuts   []int     `json:"cuts,omitempty"`   // rune offsets where the value is cut into pieces
	Plus   []string  `json:"plus,omitempty"`
	Block  bool      `json:"block,omitempty"`
	Kids   []*L      `json:"kids,omitempty"`
}

type Case struct {
	Root    *A   `json:"root"`
	Layouts []*L `json:"layouts"`
}

func sp(s string) *string { return &s }

var valueWords = []string{"A", "ABC", "Abc", "abc ", " abc", "a", "abc", "x1", "é", "日本", "10", "-1", "p:q", "urn:x", "a.b", ";", "{", "}", "+", "'", "\"", "\\", "/* c */", "// c", "=", "*", "+5", "\\d+", "\\n", "\\t", "C:\\dir", "\\\\", "\t", "\\\"",
	"\u00a0", "a\u3000b", "\f", "\v", "\u2028", "\u0085", "o'clock", "k='v'",
	// bytes of an 8-bit encoding (see rawBytes): kept as they are, like any other byte of an argument
	"caf\ue0e9", "\ue0b5m", "\ue0ff", "Z\ue0e9\ue0e9 x"}

func genValue(g *yg.G) string {
	if g.Pick(4, "shortval") == 0 {
		// short values from a tiny pool: near-duplicates (case, blanks) meet in one tree
		return []string{"abc", "ABC", "Abc", "abc ", " abc", "a b", "a  b", "A B", "", " "}[g.Pick(10, "short")]
	}
	n := g.Pick(5, "nwords")
	var parts []string
	for i := 0; i < n; i++ {
		parts = append(parts, valueWords[g.Pick(len(valueWords), "vword")])
	}
	sep := []string{"", " ", "  "}[g.Pick(3, "vsep")]
	return strings.Join(parts, sep)
}

func ident(g *yg.G, l string) string {
	return []string{"a", "b1", "c-d", "e.f", "_g", "leaf", "type", "module", "h2"}[g.Pick(9, l)]
}

func genExt(g *yg.G, depth int) *A {
	a := &A{Kw: []string{"x:ext", "y:note", "x:a-b", "ex:leaf", "p1:container", "my.ext:note", "_x.y-z:a.b_c"}[g.Pick(7, "extkw")]}
	if g.Pick(5, "noarg") != 0 {
		a.Val = sp(genValue(g))
	}
	if depth > 0 {
		nk := g.Pick(4, "nkids")
		for i := 0; i < nk; i++ {
			a.Kids = append(a.Kids, genExt(g, depth-1))
		}
	}
	return a
}

func genData(g *yg.G, depth int, idx *int) *A {
	*idx++
	name := fmt.Sprintf("%s%d", ident(g, "name"), *idx)
	mkstr := func(kw string) *A { return &A{Kw: kw, Val: sp(genValue(g))} }
	switch k := g.Pick(4, "datakind"); {
	case k == 0 || depth == 0:
		leaf := &A{Kw: "leaf", Val: sp(name), Kids: []*A{{Kw: "type", Val: sp("string")}}}
		// arguments the parser takes apart (ranges, lengths, patterns, expressions): the tree still shows them as written
		switch g.Pick(6, "typedarg") {
		case 0:
			rs := []string{"1..5", "1 .. 5", "1..5|7..9", "1 .. 5 | 7 .. max", " 1..5 ", "min..max", "1\t..\t5", "3"}
			leaf.Kids[0] = &A{Kw: "type", Val: sp("int32"), Kids: []*A{{Kw: "range", Val: sp(rs[g.Pick(len(rs), "rangearg")])}}}
		case 1:
			ls := []string{"1..4", " 1 .. 4 ", "0..2|5", "0 .. 2 | 5 .. max", "min..8"}
			ps := []string{"[a-z]+", "a b", "\\d+", " x ", "a|b", "[ \t]*"}
			leaf.Kids[0] = &A{Kw: "type", Val: sp("string"), Kids: []*A{{Kw: "length", Val: sp(ls[g.Pick(len(ls), "lengtharg")])}, {Kw: "pattern", Val: sp(ps[g.Pick(len(ps), "patternarg")])}}}
		case 2:
			es := []string{"../k = 'a'", "../k  =  'a'", " ../k='a' ", "count(../x)>1", "../a  and  ../b", "../k = 'a  b'"}
			leaf.Kids = append(leaf.Kids, &A{Kw: []string{"must", "when"}[g.Pick(2, "mustwhen")], Val: sp(es[g.Pick(len(es), "exprarg")])})
		}
		if g.Pick(2, "desc") == 0 {
			leaf.Kids = append(leaf.Kids, mkstr("description"))
		}
		if g.Pick(3, "ext") == 0 {
			leaf.Kids = append(leaf.Kids, genExt(g, 1))
		}
		if g.Pick(3, "def") == 0 {
			leaf.Kids = append(leaf.Kids, mkstr("default"))
		}
		return leaf
	case k == 1:
		c := &A{Kw: "container", Val: sp(name)}
		if g.Pick(2, "pres") == 0 {
			c.Kids = append(c.Kids, mkstr("presence"))
		}
		n := g.Pick(4, "nch")
		for i := 0; i < n; i++ {
			c.Kids = append(c.Kids, genData(g, depth-1, idx))
		}
		return c
	case k == 2:
		key := &A{Kw: "leaf", Val: sp("k"), Kids: []*A{{Kw: "type", Val: sp("string")}}}
		l := &A{Kw: "list", Val: sp(name), Kids: []*A{{Kw: "key", Val: sp("k")}, key}}
		if g.Pick(2, "twokeys") == 0 {
			// several keys, separated and surrounded by blanks and tabs (no line breaks: multi-line double-quoted strings
			// are C08's subject): the argument is reported as written
			ks := []string{"k k2", "k  k2", "k\tk2", " k k2", "k k2 ", "k \t k2", "k2 k"}
			l.Kids[0].Val = sp(ks[g.Pick(len(ks), "keyarg")])
			l.Kids = append(l.Kids, &A{Kw: "leaf", Val: sp("k2"), Kids: []*A{{Kw: "type", Val: sp("string")}}})
			if g.Pick(2, "uniq") == 0 {
				us := []string{"u1 u2", "u1  u2", " u1\tu2 ", "u1"}
				l.Kids = append(l.Kids, &A{Kw: "unique", Val: sp(us[g.Pick(len(us), "uniquearg")])},
					&A{Kw: "leaf", Val: sp("u1"), Kids: []*A{{Kw: "type", Val: sp("string")}}}, &A{Kw: "leaf", Val: sp("u2"), Kids: []*A{{Kw: "type", Val: sp("string")}}})
			}
		}
		if g.Pick(2, "lextra") == 0 {
			l.Kids = append(l.Kids, genData(g, depth-1, idx))
		}
		return l
	case k == 3 && g.Pick(2, "choice") == 0:
		// choice mixing shorthand cases, explicit cases and other substatements in any order
		ch := &A{Kw: "choice", Val: sp(name)}
		n := 1 + g.Pick(5, "nchoice")
		for i := 0; i < n; i++ {
			*idx++
			cn := fmt.Sprintf("%s%d", ident(g, "cname"), *idx)
			switch g.Pick(6, "choicekid") {
			case 0, 1:
				ch.Kids = append(ch.Kids, &A{Kw: "leaf", Val: sp(cn), Kids: []*A{{Kw: "type", Val: sp("string")}}})
			case 2:
				ch.Kids = append(ch.Kids, &A{Kw: "container", Val: sp(cn)})
			case 3, 4:
				cs := &A{Kw: "case", Val: sp(cn)}
				if g.Pick(2, "casebody") == 0 {
					*idx++
					cs.Kids = append(cs.Kids, &A{Kw: "leaf", Val: sp(fmt.Sprintf("%s%d", ident(g, "cleaf"), *idx)), Kids: []*A{{Kw: "type", Val: sp("string")}}})
				}
				ch.Kids = append(ch.Kids, cs)
			default:
				ch.Kids = append(ch.Kids, genExt(g, 1))
			}
		}
		if g.Pick(2, "chdesc") == 0 {
			pos := g.Pick(len(ch.Kids)+1, "chdescpos")
			d := mkstr("description")
			ch.Kids = append(ch.Kids[:pos], append([]*A{d}, ch.Kids[pos:]...)...)
		}
		return ch
	default:
		return genExt(g, 2)
	}
}

func genRoot(g *yg.G) *A {
	if g.Pick(4, "rootkind") == 0 {
		return genExt(g, 4)
	}
	// (the argument of namespace is reported as written, whatever a URI library would make of it: upper-case scheme,
	// empty fragment, characters that a canonical form would escape)
	ns := []string{"urn:m", "urn:m", "URN:M:x", "http://example.com/ns#", "HTTP://Example.COM/Ns", "http://example.com/\u00e4/b", "http://example.com/a b", "urn:x:y?=a#"}[g.Pick(8, "nsform")]
	m := &A{Kw: "module", Val: sp("m"), Kids: []*A{{Kw: "namespace", Val: sp(ns)}, {Kw: "prefix", Val: sp("m")}}}
	for _, kw := range []string{"organization", "contact", "description", "reference"} {
		if g.Pick(2, kw) == 0 {
			m.Kids = append(m.Kids, &A{Kw: kw, Val: sp(genValue(g))})
		}
	}
	idx := 0
	n := 1 + g.Pick(4, "nbody")
	for i := 0; i < n; i++ {
		if g.Pick(3, "otherstmt") == 0 {
			m.Kids = append(m.Kids, genOther(g, &idx))
			continue
		}
		m.Kids = append(m.Kids, genData(g, 3, &idx))
	}
	return m
}

// genOther: the other body statements of a module - rpc (with neither, one or both of input and output, or no body
// at all), notification, typedef, grouping, feature, identity, extension, anyxml: each kind has its own node type in
// the parser, and the tree holds what the text holds, nothing implied
func genOther(g *yg.G, idx *int) *A {
	*idx++
	name := fmt.Sprintf("o%d", *idx)
	leaf := func(n string) *A { return &A{Kw: "leaf", Val: sp(n), Kids: []*A{{Kw: "type", Val: sp("string")}}} }
	switch g.Pick(8, "otherkind") {
	case 0, 1:
		r := &A{Kw: "rpc", Val: sp(name)}
		switch g.Pick(5, "rpcform") {
		case 1:
			r.Kids = []*A{{Kw: "input", Kids: []*A{leaf("a")}}}
		case 2:
			r.Kids = []*A{{Kw: "output", Kids: []*A{leaf("b")}}}
		case 3:
			r.Kids = []*A{{Kw: "input", Kids: []*A{leaf("a")}}, {Kw: "output", Kids: []*A{leaf("b")}}}
		case 4:
			r.Kids = []*A{{Kw: "description", Val: sp(genValue(g))}}
		}
		return r
	case 2:
		return &A{Kw: "notification", Val: sp(name), Kids: []*A{leaf("a")}}
	case 3:
		return &A{Kw: "typedef", Val: sp(name), Kids: []*A{{Kw: "type", Val: sp("string")}}}
	case 4:
		return &A{Kw: "grouping", Val: sp(name), Kids: []*A{leaf("a")}}
	case 5:
		return &A{Kw: "feature", Val: sp(name)}
	case 6:
		return &A{Kw: "identity", Val: sp(name)}
	default:
		if g.Pick(2, "extoranyxml") == 0 {
			return &A{Kw: "extension", Val: sp(name), Kids: []*A{{Kw: "argument", Val: sp("v")}}}
		}
		return &A{Kw: "anyxml", Val: sp(name)}
	}
}

func canUnquoted(v string) bool {
	// (RFC 6020 6.1.3: only blanks, tabs, line breaks, ";", "{", "}" and comment openers force quoting; an apostrophe
	// may stand anywhere but first, where it would open a quoted string - nor right after a leading '+', which reads as a
	// concatenation sign before a quoted string; other Unicode blanks are ordinary characters)
	if v == "" || strings.ContainsAny(v, " \t\r\n;{}\"") || strings.HasPrefix(v, "'") || strings.HasPrefix(v, "+'") || strings.Contains(v, "//") || strings.Contains(v, "/*") || v == "+" {
		return false
	}
	return true
}

func genLayout(g *yg.G, a *A) *L {
	l := &L{}
	l.T[0] = g.Trivia(false, 3)
	l.T[1] = g.Sep()
	l.T[3] = g.Trivia(false, 2)
	lastUnq := true
	if a.Val != nil {
		v := *a.Val
		rs := []rune(v)
		np := []int{1, 1, 1, 2, 3}[g.Pick(5, "npieces")]
		if np > 1 && len(rs) >= 1 {
			for i := 1; i < np; i++ {
				l.Cuts = append(l.Cuts, g.Pick(len(rs)+1, "cut"))
			}
			// sort cuts
			for i := 1; i < len(l.Cuts); i++ {
				for j := i; j > 0 && l.Cuts[j] < l.Cuts[j-1]; j-- {
					l.Cuts[j], l.Cuts[j-1] = l.Cuts[j-1], l.Cuts[j]
				}
			}
		}
		pieces := split(v, l.Cuts)
		for _, p := range pieces {
			opts := []string{"d"}
			if !strings.Contains(p, "'") {
				opts = append(opts, "s")
			}
			if len(pieces) == 1 && canUnquoted(p) {
				opts = append(opts, "u", "u")
			}
			l.Quotes = append(l.Quotes, opts[g.Pick(len(opts), "quote")])
		}
		for i := 1; i < len(pieces); i++ {
			l.Plus = append(l.Plus, g.Trivia(false, 2), g.Trivia(false, 2))
		}
		lastUnq = l.Quotes[len(l.Quotes)-1] == "u"
	}
	l.T[2] = g.Trivia(lastUnq, 2)
	if len(a.Kids) == 0 && g.Pick(4, "emptyblock") == 0 {
		l.Block = true
	}
	for _, k := range a.Kids {
		l.Kids = append(l.Kids, genLayout(g, k))
	}
	return l
}

func split(v string, cuts []int) []string {
	rs := []rune(v)
	var out []string
	prev := 0
	for _, c := range cuts {
		if c > len(rs) {
			c = len(rs)
		}
		if c < prev {
			c = prev
		}
		out = append(out, string(rs[prev:c]))
		prev = c
	}
	return append(out, string(rs[prev:]))
}

func encodeDQ(p string) string {
	p = strings.ReplaceAll(p, "\\", "\\\\")
	return strings.ReplaceAll(p, "\"", "\\\"")
}

// build combines the abstract tree with a layout into a renderable statement.
// rawBytes turns the private-use runes U+E080..U+E0FF of a value into the single bytes 0x80..0xFF: text in an 8-bit
// encoding (Latin-1 files exist), which is no valid UTF-8.  The values are kept with the runes so that a case survives
// being written down as JSON.
func rawBytes(s string) string {
	if !strings.ContainsRune(s, '\ue0e9') && !strings.ContainsRune(s, '\ue0b5') && !strings.ContainsRune(s, '\ue0ff') {
		return s
	}
	var b []byte
	for _, r := range s {
		if r >= 0xe080 && r <= 0xe0ff {
			b = append(b, byte(r-0xe000))
		} else {
			b = append(b, string(r)...)
		}
	}
	return string(b)
}

func build(a *A, l *L) *yg.Stmt {
	s := &yg.Stmt{Kw: a.Kw, T0: l.T[0], T1: l.T[1], T2: l.T[2], T3: l.T[3], Block: l.Block, Plus: l.Plus}
	if a.Val != nil {
		pieces := split(*a.Val, l.Cuts)
		for i, p := range pieces {
			q := "d"
			if i < len(l.Quotes) {
				q = l.Quotes[i]
			}
			switch {
			case q == "u" && len(pieces) == 1 && canUnquoted(p):
				s.Pieces = append(s.Pieces, yg.Piece{Q: "u", Raw: rawBytes(p)})
			case q == "s" && !strings.Contains(p, "'"):
				s.Pieces = append(s.Pieces, yg.Piece{Q: "s", Raw: rawBytes(p)})
			default:
				s.Pieces = append(s.Pieces, yg.Piece{Q: "d", Raw: rawBytes(encodeDQ(p))})
			}
		}
	}
	for i, k := range a.Kids {
		var kl *L
		if i < len(l.Kids) {
			kl = l.Kids[i]
		} else {
			kl = &L{T: [4]string{" ", " ", "", " "}}
		}
		s.Kids = append(s.Kids, build(k, kl))
	}
	// a comment directly behind an unquoted argument ends it
	s.Abut = len(s.Pieces) > 0 && s.Pieces[len(s.Pieces)-1].Q == "u" && yg.Abuts(s.Pieces[len(s.Pieces)-1].Raw, s.T2)
	return s
}

func genCase(t *rapid.T) Case {
	g := &yg.G{T: t, Abut: true}
	root := genRoot(g)
	c := Case{Root: root}
	n := 2 + g.Pick(2, "nlayouts")
	for i := 0; i < n; i++ {
		c.Layouts = append(c.Layouts, genLayout(g, root))
	}
	return c
}

type flat struct {
	kw, val   string
	hasArg    bool
	depth, nk int
	line, col int
}

func walk(n parse.Node, depth int, out *[]flat) string {
	loc, _ := n.ErrorContext()
	f := flat{kw: n.Statement(), val: n.Argument().String(), depth: depth, nk: len(n.Children())}
	if !strings.HasPrefix(loc, "t.yang:") {
		return fmt.Sprintf("ErrorContext %q does not start with the input name", loc)
	}
	parts := strings.SplitN(loc[len("t.yang:"):], ":", 3)
	if len(parts) < 2 {
		return fmt.Sprintf("ErrorContext %q has no line:col", loc)
	}
	f.line, _ = strconv.Atoi(parts[0])
	f.col, _ = strconv.Atoi(strings.TrimSpace(parts[1]))
	*out = append(*out, f)
	for _, c := range n.Children() {
		// a data node written directly under a choice is reported inside an implicit case of the same name
		// at the same position: the wrapper is not a source statement, its content is
		if n.Statement() == "choice" && c.Statement() == "case" && len(c.Children()) == 1 {
			in := c.Children()[0]
			cl, _ := c.ErrorContext()
			il, _ := in.ErrorContext()
			if strings.SplitN(cl, ": ", 2)[0] == strings.SplitN(il, ": ", 2)[0] && in.Statement() != "case" && c.Argument().String() == in.Argument().String() {
				c = in
			}
		}
		if msg := walk(c, depth+1, out); msg != "" {
			return msg
		}
	}
	return ""
}

func checkCase(c Case) fw.Outcome {
	out := fw.Outcome{}
	var firstWalk []flat
	nstmts, maxDepth, comments, quoted := 0, 0, false, false
	for li, l := range c.Layouts {
		st := build(c.Root, l)
		var abuts func(s *yg.Stmt) bool
		abuts = func(s *yg.Stmt) bool {
			if s.Abut {
				return true
			}
			for _, k := range s.Kids {
				if abuts(k) {
					return true
				}
			}
			return false
		}
		if abuts(st) {
			out.Labels = append(out.Labels, "comment-abuts-unquoted")
		}
		// what follows the last token: a line break, nothing, or a comment - a line comment also as the very last thing
		// of the text, without a line break after it
		text, infos := yg.Render([]*yg.Stmt{st}, []string{"\n", "", " // end", "\n// last line", " /* c */", "\n//", "\r\n// x\r"}[(li+len(c.Layouts))%7])
		if li == 0 {
			out.Key = text
			nstmts = len(infos)
			for _, in := range infos {
				if in.Depth > maxDepth {
					maxDepth = in.Depth
				}
			}
		}
		if strings.Contains(text, "/*") || strings.Contains(text, "//") {
			comments = true
		}
		if strings.ContainsAny(text, "\"'") {
			quoted = true
		}
		for _, in := range infos {
			if in.Grey {
				out.Skip = true
				return out
			}
		}
		var tree *parse.Tree
		var err error
		if !fw.WithTimeout(20, func() { tree, err = parse.Parse("t.yang", text, nil) }) {
			out.Violation = fmt.Sprintf("parse did not return on %q", text)
			return out
		}
		if err != nil {
			out.Violation = fmt.Sprintf("layout %d of a valid tree rejected: %v\ntext: %q", li, err, text)
			return out
		}
		var got []flat
		if msg := walk(tree.Root, 0, &got); msg != "" {
			out.Violation = msg + fmt.Sprintf("\ntext: %q", text)
			return out
		}
		if len(got) != len(infos) {
			out.Violation = fmt.Sprintf("tree has %d statements, source has %d\ntext: %q", len(got), len(infos), text)
			return out
		}
		for i, in := range infos {
			g := got[i]
			if g.kw != in.Kw || g.val != in.Value || g.depth != in.Depth || g.nk != in.NKids {
				out.Violation = fmt.Sprintf("statement %d: tree has (%q %q depth %d kids %d), source has (%q %q depth %d kids %d)\ntext: %q",
					i, g.kw, g.val, g.depth, g.nk, in.Kw, in.Value, in.Depth, in.NKids, text)
				return out
			}
			if g.line != in.Line || g.col != in.Col {
				out.Violation = fmt.Sprintf("statement %d (%s): tree reports %d:%d, keyword is at %d:%d\ntext: %q", i, in.Kw, g.line, g.col, in.Line, in.Col, text)
				return out
			}
		}
		if li == 0 {
			firstWalk = got
		} else {
			for i := range got {
				a, b := got[i], firstWalk[i]
				if a.kw != b.kw || a.val != b.val || a.depth != b.depth || a.nk != b.nk {
					out.Violation = fmt.Sprintf("layouts 0 and %d of one tree differ at statement %d", li, i)
					return out
				}
			}
		}
	}
	out.NonTrivial = nstmts >= 5 && maxDepth >= 2 && comments && quoted
	if c.Root.Kw == "module" {
		out.Labels = append(out.Labels, "module")
	} else {
		out.Labels = append(out.Labels, "extension-tree")
	}
	if comments {
		out.Labels = append(out.Labels, "comments")
	}
	return out
}

var mirror = fw.Register(&fw.Prop[Case]{
	ID: "C10", Name: "mirror",
	Rule: "abstract statement trees (prefixed extension statements with arbitrary arguments; valid module skeletons with containers, lists, leaves, string-argument statements) rendered in 2-3 " +
		"independent layouts (trivia incl. block and line comments at every token boundary, LF/CRLF, each argument re-quoted: unquoted / single / double / split into '+'-joined pieces); " +
		"oracle: the walk of Tree.Root via Children()/Statement()/Argument()/ErrorContext() equals the abstract tree in order, nesting, keyword, decoded argument and the line:column the renderer " +
		"recorded for each keyword, and the walks of all layouts agree; non-trivial = at least 5 statements, depth >= 2, a comment and a quoted argument; distinct by first rendering",
	Gen: genCase, Check: checkCase,
	MinLabel: []string{"module", "extension-tree", "comments"},
})

func TestMain(m *testing.M) { fw.Main(m) }

func TestMirror(t *testing.T) { fw.Run(t, mirror) }
