// Package c11: schema compilation is total and deterministic.
package c11

import (
	"fmt"
	"github.com/sdcio/yang-parser/compile"
	"os"
	"strings"
	"testing"

	"verifharness/canon"
	"verifharness/fw"
	"verifharness/sg"
	"verifharness/sgc"

	"pgregory.net/rapid"
)

type Case struct {
	Mods   []*sg.Mod `json:"mods"`
	Defect string    `json:"defect,omitempty"`
	Reps   int       `json:"reps"`
	Feat   string    `json:"feat,omitempty"` // feature configuration of the compile: "" all enabled, "none", "some"
	// SkipUnknown: compiled with the option that tolerates references into modules that are not loaded.  What is refused
	// in this mode is not pinned down here; the compile has to end, the same way on every run.
	SkipUnknown bool `json:"skipunknown,omitempty"`
	// Mutations: kinds of the structural mutations that were applied to the (formerly valid) set
	Mutations []string `json:"mutations,omitempty"`
}

var defects = []string{"import-cycle", "import-self", "include-cycle", "typedef-cycle-used", "typedef-cycle-unused", "typedef-self",
	"grouping-cycle-direct", "grouping-cycle-nested", "grouping-cycle-unused", "grouping-cycle-via-choice", "identity-cycle", "identity-self", "feature-cycle", "feature-self",
	"dangling-import", "dangling-include", "dangling-type", "dangling-uses", "dangling-base", "dangling-if-feature", "dangling-prefix", "belongs-to-missing",
	"typedef-cycle-cross-scope", "grouping-cycle-long", "grouping-cycle-via-uses-augment", "grouping-cycle-via-uses-augment-nested",
	"feature-cycle-second", "dangling-if-feature-second", "dangling-include-foreign", "dangling-include-foreign-nested",
	"typedef-cycle-local-case", "typedef-cycle-local-augment", "typedef-cycle-local-uses-augment", "typedef-cycle-local-list", "typedef-cycle-beside-namesake",
	"dangling-uses-augment-absolute", "illegal-config-in-remote-grouping", "illegal-default-in-remote-grouping",
	"dangling-unique-last", "dangling-unique-inner", "dangling-unique-skips-choice", "dangling-unique-via-list", "dangling-unique-non-leaf",
	"odd-extension-prefix", "odd-extension-name", "illegal-grouping-uses-deprecated-grouping", "include-self", "dangling-import-include-chain", "illegal-xpath-prefix-twin",
	"odd-feature-chain-into-other-module", "odd-first-use-of-missing-module-when-built", "odd-deviations-that-do-not-commute", "odd-scoped-grouping-across-submodules", "odd-status-chain-across-submodules", "dangling-type-include-chain", "dangling-uses-include-chain"}

func str(s string) *sg.TypeSpec { return &sg.TypeSpec{Name: s} }

func inject(mods []*sg.Mod, d string, pick func(n int) int) {
	// modules that carry data nodes (or submodules of such): pure deviation modules are not injection sites
	var cands []*sg.Mod
	for _, x := range mods {
		if len(x.Nodes) > 0 || x.BelongsTo != "" {
			cands = append(cands, x)
		}
	}
	m := cands[pick(len(cands))]
	last := cands[len(cands)-1]
	// definitions may be injected into a submodule; the data nodes that use them go into the module it belongs to
	host := m
	if m.BelongsTo != "" {
		for _, x := range mods {
			if x.Name == m.BelongsTo {
				host = x
			}
		}
	}
	// the second definition of a two-member identity, feature or grouping cycle may live in another file of the same
	// module (its submodule, or the module a submodule belongs to).  Not so for typedefs: a submodule does not see the
	// typedefs of its module (YANG 1.0 scoping, which the compiler follows), so such a pair is no cycle.
	second := m
	for _, x := range mods {
		if (m.BelongsTo != "" && x == host || m.BelongsTo == "" && x.BelongsTo == m.Name) && pick(2) == 1 {
			second = x
			break
		}
	}
	// a link of a cycle inside one module may be written with the module's own prefix
	ownPfx := pick(3) == 1
	str := func(s string) *sg.TypeSpec {
		if ownPfx && strings.HasPrefix(s, "cyc-") {
			return &sg.TypeSpec{Name: m.Prefix + ":" + s}
		}
		return &sg.TypeSpec{Name: s}
	}
	ref := func(s string) string {
		if ownPfx {
			return m.Prefix + ":" + s
		}
		return s
	}
	switch d {
	case "import-cycle":
		if len(mods) >= 2 {
			mods[0].Imports = append(mods[0].Imports, sg.Import{Mod: last.Name, Prefix: "cyc1"})
			last.Imports = append(last.Imports, sg.Import{Mod: mods[0].Name, Prefix: "cyc2"})
		} else {
			m.Imports = append(m.Imports, sg.Import{Mod: m.Name, Prefix: "self"})
		}
	case "import-self":
		m.Imports = append(m.Imports, sg.Import{Mod: m.Name, Prefix: "self"})
	case "include-cycle":
		m.Includes = append(m.Includes, "sa")
		// submodules are appended by the caller through extra modules
	case "include-self", "dangling-import-include-chain":
		host.Includes = append(host.Includes, "sa")
	case "illegal-xpath-prefix-twin", "odd-feature-chain-into-other-module", "odd-deviations-that-do-not-commute", "odd-scoped-grouping-across-submodules", "odd-status-chain-across-submodules",
		"dangling-type-include-chain", "dangling-uses-include-chain":
		// handled by the caller (extra modules)
	case "typedef-cycle-used":
		m.Typedefs = append(m.Typedefs, &sg.Typedef{Name: "cyc-a", Type: str("cyc-b")}, &sg.Typedef{Name: "cyc-b", Type: str("cyc-a")})
		host.Nodes[0].Kids = append(host.Nodes[0].Kids, &sg.Node{Kind: "leaf", Name: "cyc-leaf", Type: str("cyc-a")})
	case "typedef-cycle-unused":
		m.Typedefs = append(m.Typedefs, &sg.Typedef{Name: "cyc-a", Type: str("cyc-b")}, &sg.Typedef{Name: "cyc-b", Type: str("cyc-a")})
	case "typedef-self":
		m.Typedefs = append(m.Typedefs, &sg.Typedef{Name: "cyc-a", Type: str("cyc-a")})
		host.Nodes[0].Kids = append(host.Nodes[0].Kids, &sg.Node{Kind: "leaf", Name: "cyc-leaf", Type: str("cyc-a")})
	case "typedef-cycle-local-case", "typedef-cycle-local-augment", "typedef-cycle-local-uses-augment", "typedef-cycle-local-list":
		// typedefs local to a container or list that is reached only through a choice and case (explicit or shorthand), a
		// module-level augment, the augment of a uses, or a list; used by a leaf there or by nobody
		holder := &sg.Node{Kind: "container", Name: "cyc-holder", Typedefs: []*sg.Typedef{{Name: "cyc-a", Type: str("cyc-b")}, {Name: "cyc-b", Type: str("cyc-c")}, {Name: "cyc-c", Type: str("cyc-a")}}}
		if pick(2) == 0 {
			holder.Kids = append(holder.Kids, &sg.Node{Kind: "leaf", Name: "cyc-leaf", Type: str("cyc-b")})
		}
		switch d {
		case "typedef-cycle-local-case":
			if pick(2) == 0 {
				host.Nodes[0].Kids = append(host.Nodes[0].Kids, &sg.Node{Kind: "choice", Name: "cyc-ch", Kids: []*sg.Node{{Kind: "case", Name: "cyc-cs", Kids: []*sg.Node{holder}}}})
			} else {
				host.Nodes[0].Kids = append(host.Nodes[0].Kids, &sg.Node{Kind: "choice", Name: "cyc-ch", Kids: []*sg.Node{holder}})
			}
		case "typedef-cycle-local-augment":
			host.Augments = append(host.Augments, &sg.Augment{Target: "/" + host.Prefix + ":" + host.Nodes[0].Name, Kids: []*sg.Node{holder}})
		case "typedef-cycle-local-uses-augment":
			host.Groupings = append(host.Groupings, &sg.Grouping{Name: "cyc-gh", Kids: []*sg.Node{{Kind: "container", Name: "cyc-x"}}})
			host.Nodes[0].Kids = append(host.Nodes[0].Kids, &sg.Node{Kind: "uses", Name: "cyc-gh", Augments: []*sg.Augment{{Target: "cyc-x", Kids: []*sg.Node{holder}}}})
		default:
			holder.Kind, holder.Key = "list", "cyc-k"
			holder.Kids = append([]*sg.Node{{Kind: "leaf", Name: "cyc-k", Type: &sg.TypeSpec{Name: "string"}}}, holder.Kids...)
			host.Nodes[0].Kids = append(host.Nodes[0].Kids, &sg.Node{Kind: "container", Name: "cyc-outer", Kids: []*sg.Node{holder}})
		}
	case "dangling-uses-augment-absolute":
		// the augment of a uses takes a descendant path: an absolute one (which parses, the argument syntax of augment
		// covers both) names nothing there
		host.Groupings = append(host.Groupings, &sg.Grouping{Name: "cyc-gh", Kids: []*sg.Node{{Kind: "container", Name: "cyc-x"}}})
		tgt := "/cyc-x"
		if ownPfx {
			tgt = "/" + host.Prefix + ":cyc-x"
		}
		host.Nodes[0].Kids = append(host.Nodes[0].Kids, &sg.Node{Kind: "uses", Name: "cyc-gh", Augments: []*sg.Augment{{Target: tgt, Kids: []*sg.Node{{Kind: "leaf", Name: "cyc-leaf", Type: &sg.TypeSpec{Name: "string"}}}}}})
	case "typedef-cycle-beside-namesake":
		// a typedef cycle in one scope, and in a sibling scope (before or behind it) harmless typedefs of the same names
		in := func(name string) *sg.TypeSpec { return str(name) }
		good := &sg.Node{Kind: "container", Name: "cyc-p1", Kids: []*sg.Node{{Kind: "container", Name: "cyc-in", Typedefs: []*sg.Typedef{{Name: "cyc-a", Type: in("string")}, {Name: "cyc-b", Type: in("cyc-a")}},
			Kids: []*sg.Node{{Kind: "leaf", Name: "cyc-l1", Type: in("cyc-b")}}}}}
		bad := &sg.Node{Kind: "container", Name: "cyc-p2", Kids: []*sg.Node{{Kind: "container", Name: "cyc-in", Typedefs: []*sg.Typedef{{Name: "cyc-a", Type: in("cyc-b")}, {Name: "cyc-b", Type: in("cyc-a")}}}}}
		if pick(2) == 0 {
			bad.Kids[0].Kids = append(bad.Kids[0].Kids, &sg.Node{Kind: "leaf", Name: "cyc-l2", Type: in("cyc-a")})
		}
		if pick(2) == 0 {
			host.Nodes[0].Kids = append(host.Nodes[0].Kids, good, bad)
		} else {
			host.Nodes[0].Kids = append(host.Nodes[0].Kids, bad, good)
		}
	case "typedef-cycle-cross-scope":
		// a typedef local to a container refers to a module-level typedef that refers back by union membership
		m.Typedefs = append(m.Typedefs, &sg.Typedef{Name: "cyc-a", Type: &sg.TypeSpec{Name: "union", Members: []*sg.TypeSpec{str("int8"), str("cyc-b")}}},
			&sg.Typedef{Name: "cyc-b", Type: str("cyc-a")})
		host.Nodes[0].Kids = append(host.Nodes[0].Kids, &sg.Node{Kind: "leaf", Name: "cyc-leaf", Type: str("cyc-b")})
	case "grouping-cycle-direct":
		m.Groupings = append(m.Groupings, &sg.Grouping{Name: "cyc-ga", Kids: []*sg.Node{{Kind: "uses", Name: ref("cyc-gb")}}})
		second.Groupings = append(second.Groupings, &sg.Grouping{Name: "cyc-gb", Kids: []*sg.Node{{Kind: "uses", Name: ref("cyc-ga")}}})
		host.Nodes[0].Kids = append(host.Nodes[0].Kids, &sg.Node{Kind: "uses", Name: ref("cyc-ga")})
	case "grouping-cycle-nested":
		m.Groupings = append(m.Groupings, &sg.Grouping{Name: "cyc-ga", Kids: []*sg.Node{{Kind: "container", Name: "cyc-c", Kids: []*sg.Node{{Kind: "uses", Name: ref("cyc-ga")}}}}})
		host.Nodes[0].Kids = append(host.Nodes[0].Kids, &sg.Node{Kind: "uses", Name: ref("cyc-ga")})
	case "grouping-cycle-unused":
		m.Groupings = append(m.Groupings, &sg.Grouping{Name: "cyc-ga", Kids: []*sg.Node{{Kind: "list", Name: "cyc-l", Key: "k", Kids: []*sg.Node{{Kind: "leaf", Name: "k", Type: str("string")}, {Kind: "uses", Name: ref("cyc-ga")}}}}})
	case "grouping-cycle-via-choice":
		m.Groupings = append(m.Groupings, &sg.Grouping{Name: "cyc-ga", Kids: []*sg.Node{{Kind: "choice", Name: "cyc-ch", Kids: []*sg.Node{{Kind: "case", Name: "cyc-cs", Kids: []*sg.Node{{Kind: "uses", Name: ref("cyc-gb")}}}}}}},
			&sg.Grouping{Name: "cyc-gb", Kids: []*sg.Node{{Kind: "container", Name: "cyc-c2", Kids: []*sg.Node{{Kind: "uses", Name: ref("cyc-ga")}}}}})
		host.Nodes[0].Kids = append(host.Nodes[0].Kids, &sg.Node{Kind: "uses", Name: ref("cyc-gb")})
	case "grouping-cycle-via-uses-augment":
		// the closing uses of the cycle sits inside the augment of another uses
		m.Groupings = append(m.Groupings, &sg.Grouping{Name: "cyc-gh", Kids: []*sg.Node{{Kind: "container", Name: "cyc-x"}}},
			&sg.Grouping{Name: "cyc-ga", Kids: []*sg.Node{{Kind: "container", Name: "cyc-c", Kids: []*sg.Node{{Kind: "uses", Name: ref("cyc-gh"),
				Augments: []*sg.Augment{{Target: "cyc-x", Kids: []*sg.Node{{Kind: "uses", Name: ref("cyc-ga")}}}}}}}}})
		host.Nodes[0].Kids = append(host.Nodes[0].Kids, &sg.Node{Kind: "uses", Name: ref("cyc-ga")})
	case "grouping-cycle-via-uses-augment-nested":
		// ... two groupings, the uses nested in a list inside the augment
		m.Groupings = append(m.Groupings, &sg.Grouping{Name: "cyc-gh", Kids: []*sg.Node{{Kind: "container", Name: "cyc-x"}}},
			&sg.Grouping{Name: "cyc-ga", Kids: []*sg.Node{{Kind: "uses", Name: ref("cyc-gh"),
				Augments: []*sg.Augment{{Target: "cyc-x", Kids: []*sg.Node{{Kind: "list", Name: "cyc-l", Key: "k", Kids: []*sg.Node{{Kind: "leaf", Name: "k", Type: str("string")}, {Kind: "uses", Name: ref("cyc-gb")}}}}}}}}},
			&sg.Grouping{Name: "cyc-gb", Kids: []*sg.Node{{Kind: "container", Name: "cyc-c2", Kids: []*sg.Node{{Kind: "uses", Name: ref("cyc-ga")}}}}})
		if pick(2) == 0 {
			host.Nodes[0].Kids = append(host.Nodes[0].Kids, &sg.Node{Kind: "uses", Name: ref("cyc-gb")})
		}
	case "grouping-cycle-long":
		names := []string{"cyc-g1", "cyc-g2", "cyc-g3", "cyc-g4"}
		for i, n := range names {
			m.Groupings = append(m.Groupings, &sg.Grouping{Name: n, Kids: []*sg.Node{{Kind: "leaf", Name: "cyc-l" + fmt.Sprint(i), Type: str("string")},
				{Kind: "container", Name: "cyc-c" + fmt.Sprint(i), Kids: []*sg.Node{{Kind: "uses", Name: ref(names[(i+1)%len(names)])}}}}})
		}
		host.Nodes[0].Kids = append(host.Nodes[0].Kids, &sg.Node{Kind: "uses", Name: ref("cyc-g3")})
	case "identity-cycle":
		m.Identities = append(m.Identities, &sg.Identity{Name: "cyc-ia", Base: ref("cyc-ib")})
		second.Identities = append(second.Identities, &sg.Identity{Name: "cyc-ib", Base: ref("cyc-ia")})
	case "identity-self":
		m.Identities = append(m.Identities, &sg.Identity{Name: "cyc-ia", Base: ref("cyc-ia")})
	case "feature-cycle":
		m.Features = append(m.Features, &sg.Feature{Name: "cyc-fa", IfFeatures: []string{ref("cyc-fb")}})
		second.Features = append(second.Features, &sg.Feature{Name: "cyc-fb", IfFeatures: []string{ref("cyc-fa")}})
	case "feature-cycle-second":
		// the cycle closes through the SECOND if-feature of a feature; the first one names an ordinary feature that
		// may be disabled in the configuration the set is compiled with
		m.Features = append(m.Features, &sg.Feature{Name: "cyc-f0"}, &sg.Feature{Name: "cyc-fa", IfFeatures: []string{ref("cyc-f0"), ref("cyc-fb")}},
			&sg.Feature{Name: "cyc-fb", IfFeatures: []string{ref("cyc-fa")}})
	case "dangling-if-feature-second":
		m.Features = append(m.Features, &sg.Feature{Name: "cyc-f0"}, &sg.Feature{Name: "cyc-fa", IfFeatures: []string{ref("cyc-f0"), "no-such-feature"}})
	case "feature-self":
		m.Features = append(m.Features, &sg.Feature{Name: "cyc-fa", IfFeatures: []string{ref("cyc-fa")}})
	case "dangling-import":
		m.Imports = append(m.Imports, sg.Import{Mod: "no-such-module", Prefix: "nsm"})
	case "odd-first-use-of-missing-module-when-built":
		// the prefix of a module that is not loaded is used only where the schema nodes are built (the type of a leaf,
		// an if-feature of a node, the base of an identityref), not by anything that is expanded before: refused, or
		// (tolerant mode) the same set of modules and nodes on every run
		host.Imports = append(host.Imports, sg.Import{Mod: "no-such-module", Prefix: "nsm"})
		lf := &sg.Node{Kind: "leaf", Name: "dang-leaf", Type: str("string")}
		switch pick(3) {
		case 0:
			lf.Type = str("nsm:some-type")
		case 1:
			lf.IfFeatures = []string{"nsm:some-feature"}
		default:
			lf.Type = &sg.TypeSpec{Name: "identityref", Base: "nsm:some-identity"}
		}
		host.Nodes[0].Kids = append(host.Nodes[0].Kids, lf)
	case "dangling-include":
		m.Includes = append(m.Includes, "no-such-submodule")
	case "dangling-type":
		host.Nodes[0].Kids = append(host.Nodes[0].Kids, &sg.Node{Kind: "leaf", Name: "dang-leaf", Type: str("no-such-type")})
	case "dangling-uses":
		host.Nodes[0].Kids = append(host.Nodes[0].Kids, &sg.Node{Kind: "uses", Name: "no-such-grouping"})
	case "dangling-base":
		m.Identities = append(m.Identities, &sg.Identity{Name: "dang-i", Base: "no-such-identity"})
	case "dangling-if-feature":
		host.Nodes[0].Kids = append(host.Nodes[0].Kids, &sg.Node{Kind: "leaf", Name: "dang-leaf", Type: str("string"), IfFeatures: []string{"no-such-feature"}})
	case "dangling-prefix":
		host.Nodes[0].Kids = append(host.Nodes[0].Kids, &sg.Node{Kind: "leaf", Name: "dang-leaf", Type: str("nopfx:sometype")})
	case "illegal-grouping-uses-deprecated-grouping":
		// a current grouping that uses a deprecated one of its module; another grouping, possibly in another file of the
		// module, uses the first from a deprecated container.  The verdict must not depend on which is expanded first.
		m.Groupings = append(m.Groupings, &sg.Grouping{Name: "cyc-gdep", Status: "deprecated", Kids: []*sg.Node{{Kind: "leaf", Name: "cyc-a", Type: str("string")}}},
			&sg.Grouping{Name: "cyc-g1", Kids: []*sg.Node{{Kind: "uses", Name: ref("cyc-gdep")}}})
		second.Groupings = append(second.Groupings, &sg.Grouping{Name: "cyc-g2", Kids: []*sg.Node{{Kind: "container", Name: "cyc-c2", Status: "deprecated", Kids: []*sg.Node{{Kind: "uses", Name: ref("cyc-g1")}}}}})
	case "odd-extension-prefix", "odd-extension-name":
		// the use of an extension (prefix:name argument;) whose prefix no import of the file binds, or whose name the
		// module the prefix stands for does not define: on a container, on a leaf, in a grouping, on a type
		st := "nopfx:cyc-ext \"v\";"
		if d == "odd-extension-name" {
			st = m.Prefix + ":cyc-no-such-ext \"v\";"
			if m.BelongsTo != "" {
				st = "own:cyc-no-such-ext \"v\";"
			}
		}
		lf := &sg.Node{Kind: "leaf", Name: "cyc-leaf", Type: str("string")}
		switch pick(4) {
		case 0:
			lf.Raw = []string{st}
			m.Nodes = append(m.Nodes, &sg.Node{Kind: "container", Name: "cyc-xc", Kids: []*sg.Node{lf}})
		case 1:
			m.Nodes = append(m.Nodes, &sg.Node{Kind: "container", Name: "cyc-xc", Raw: []string{st}, Kids: []*sg.Node{lf}})
		case 2:
			lf.Raw = []string{st}
			m.Groupings = append(m.Groupings, &sg.Grouping{Name: "cyc-gx", Kids: []*sg.Node{lf}})
			host.Nodes[0].Kids = append(host.Nodes[0].Kids, &sg.Node{Kind: "uses", Name: ref("cyc-gx")})
		default:
			lf.Raw = []string{st}
			m.Groupings = append(m.Groupings, &sg.Grouping{Name: "cyc-gx", Kids: []*sg.Node{lf}})
		}
	case "dangling-unique-last", "dangling-unique-inner", "dangling-unique-skips-choice", "dangling-unique-via-list", "dangling-unique-non-leaf":
		// a unique statement whose path does not end at a leaf of the entry: the last or an inner component names
		// nothing, the path leaves out the choice and case it goes through, crosses a nested list, or ends at a container
		leaf := func(n string) *sg.Node { return &sg.Node{Kind: "leaf", Name: n, Type: str("string")} }
		var u string
		switch d {
		case "dangling-unique-last":
			u = []string{"cyc-srv/nosuch", "nosuch", "cyc-srv/cyc-deep/nosuch", "cyc-p cyc-srv/nosuch"}[pick(4)]
		case "dangling-unique-inner":
			u = []string{"nosuch/cyc-port", "cyc-srv/nosuch/cyc-x", "nosuch/cyc-deep/cyc-x", "cyc-p nosuch/cyc-port", "nosuch/nosuch2/cyc-x"}[pick(5)]
		case "dangling-unique-skips-choice":
			u = []string{"cyc-cc/cyc-z", "cyc-ch/cyc-cc/cyc-z"}[pick(2)]
		case "dangling-unique-via-list":
			u = []string{"cyc-srv/cyc-inner/cyc-y", "cyc-srv/cyc-inner"}[pick(2)]
		default:
			u = []string{"cyc-srv", "cyc-srv/cyc-deep", "cyc-p cyc-srv/cyc-deep"}[pick(3)]
		}
		host.Nodes[0].Kids = append(host.Nodes[0].Kids, &sg.Node{Kind: "list", Name: "cyc-ul", Key: "k", Uniques: []string{u}, Kids: []*sg.Node{leaf("k"), leaf("cyc-p"),
			{Kind: "container", Name: "cyc-srv", Kids: []*sg.Node{leaf("cyc-port"), {Kind: "container", Name: "cyc-deep", Kids: []*sg.Node{leaf("cyc-x")}},
				{Kind: "list", Name: "cyc-inner", Key: "k", Kids: []*sg.Node{leaf("k"), leaf("cyc-y")}}}},
			{Kind: "choice", Name: "cyc-ch", Kids: []*sg.Node{{Kind: "case", Name: "cyc-cs", Kids: []*sg.Node{{Kind: "container", Name: "cyc-cc", Kids: []*sg.Node{leaf("cyc-z")}}}}}}}})
	case "illegal-config-in-remote-grouping", "illegal-default-in-remote-grouping":
		// a grouping that is fine where it is written, in a long module, and wrong where a short module uses it: the
		// error belongs to a statement copied from one file into another
		first := mods[0]
		first.Groupings = append(first.Groupings, &sg.Grouping{Name: "cyc-gerr", Kids: []*sg.Node{
			{Kind: "leaf", Name: "cyc-cfg", Type: &sg.TypeSpec{Name: "string"}, Config: "true"},
			{Kind: "leaf", Name: "cyc-num", Type: &sg.TypeSpec{Name: "uint8"}}}})
	case "belongs-to-missing", "dangling-include-foreign", "dangling-include-foreign-nested":
		// handled by the caller (extra submodules)
	}
}

func extraMods(c Case) []*sg.Mod {
	mods := c.Mods
	switch c.Defect {
	case "include-cycle":
		var owner string
		for _, m := range mods {
			for _, i := range m.Includes {
				if i == "sa" {
					owner = m.Name
				}
			}
		}
		return append(append([]*sg.Mod(nil), mods...),
			&sg.Mod{Name: "sa", Prefix: "own", BelongsTo: owner, Includes: []string{"sb"}},
			&sg.Mod{Name: "sb", Prefix: "own", BelongsTo: owner, Includes: []string{"sa"}})
	case "include-self", "dangling-import-include-chain":
		var owner string
		for _, m := range mods {
			for _, i := range m.Includes {
				if i == "sa" {
					owner = m.Name
				}
			}
		}
		if c.Defect == "include-self" {
			// the shortest circular chain of includes
			return append(append([]*sg.Mod(nil), mods...), &sg.Mod{Name: "sa", Prefix: "own", BelongsTo: owner, Includes: []string{"sa"}})
		}
		// a chain of includes that ends at a submodule which imports a module that is not there: found whatever the
		// order in which the submodules are looked at
		return append(append([]*sg.Mod(nil), mods...),
			&sg.Mod{Name: "sa", Prefix: "own", BelongsTo: owner, Includes: []string{"sb"}},
			&sg.Mod{Name: "sb", Prefix: "own", BelongsTo: owner, Includes: []string{"sc"}},
			&sg.Mod{Name: "sc", Prefix: "own", BelongsTo: owner, Imports: []sg.Import{{Mod: "no-such-module-deep", Prefix: "nsm"}}})
	case "illegal-xpath-prefix-twin":
		// the same expression text in two files, of which only one binds the prefix it uses - in places nothing uses, so
		// that only the check of all expressions sees them: what an expression means depends on the file it stands in
		expr := "px:x = 'ok' or /px:top/px:name"
		gr := func() []*sg.Grouping {
			return []*sg.Grouping{{Name: "zunused", Kids: []*sg.Node{{Kind: "leaf", Name: "zl", Type: str("string"), Musts: []sg.Must{{Expr: expr}}}}}}
		}
		good := &sg.Mod{Name: "zgood", Prefix: "zg", Imports: []sg.Import{{Mod: mods[0].Name, Prefix: "px"}}, Groupings: gr()}
		bad := &sg.Mod{Name: "zbad", Prefix: "zb", Groupings: gr()}
		return append(append([]*sg.Mod(nil), mods...), good, bad)
	case "odd-feature-chain-into-other-module":
		// a feature that depends on a feature which the module named by the prefix does not define, and data nodes that
		// depend on either: refused, or (compiled in the tolerant mode) the same tree whichever of the two modules
		// is looked at first
		fa := &sg.Mod{Name: "zfa", Prefix: "zfa", Imports: []sg.Import{{Mod: "zfb", Prefix: "zfb"}},
			Features: []*sg.Feature{{Name: "cyc-fa", IfFeatures: []string{"zfb:cyc-ghost"}}},
			Nodes: []*sg.Node{{Kind: "container", Name: "zfa-top", Kids: []*sg.Node{
				{Kind: "leaf", Name: "x", Type: str("string"), IfFeatures: []string{"zfb:cyc-ghost"}},
				{Kind: "leaf", Name: "y", Type: str("string"), IfFeatures: []string{"cyc-fa"}}}}}}
		fb := &sg.Mod{Name: "zfb", Prefix: "zfb", Features: []*sg.Feature{{Name: "cyc-real"}},
			Nodes: []*sg.Node{{Kind: "container", Name: "zfb-top", Kids: []*sg.Node{{Kind: "leaf", Name: "z", Type: str("string"), IfFeatures: []string{"cyc-real"}}}}}}
		return append(append([]*sg.Mod(nil), mods...), fa, fb)
	case "odd-deviations-that-do-not-commute":
		// two modules that know nothing of each other deviate the same leaf of a third, one adding a default, the other
		// replacing it (or: one adding units, the other deleting them), and a fourth module imports both: in one order the
		// set compiles, in the other it does not - it is the same order on every run, whatever it is
		tgt := &sg.Mod{Name: "zdt", Prefix: "zdt", Nodes: []*sg.Node{{Kind: "container", Name: "zdt-top", Kids: []*sg.Node{{Kind: "leaf", Name: "x", Type: str("string")}}}}}
		imp := []sg.Import{{Mod: "zdt", Prefix: "zdt"}}
		st := [][2]string{{`default "from-a";`, `default "from-b";`}, {`units "from-a";`, `units "from-b";`}}[len(mods)%2]
		da := &sg.Mod{Name: "zda", Prefix: "zda", Imports: imp, Deviations: []*sg.Deviation{{Target: "/zdt:zdt-top/zdt:x", Deviates: []sg.Deviate{{Kind: "add", Stmts: []string{st[0]}}}}}}
		db := &sg.Mod{Name: "zdb", Prefix: "zdb", Imports: imp, Deviations: []*sg.Deviation{{Target: "/zdt:zdt-top/zdt:x", Deviates: []sg.Deviate{{Kind: "replace", Stmts: []string{st[1]}}}}}}
		both := &sg.Mod{Name: "zaa", Prefix: "zaa", Imports: []sg.Import{{Mod: "zdb", Prefix: "zdb"}, {Mod: "zda", Prefix: "zda"}}}
		if len(mods)%3 == 0 {
			both.Imports[0], both.Imports[1] = both.Imports[1], both.Imports[0]
		}
		return append(append([]*sg.Mod(nil), mods...), tgt, da, db, both)
	case "odd-scoped-grouping-across-submodules", "odd-status-chain-across-submodules":
		// groupings of two submodules of one module, the first using the second's below its top level; the second holds a
		// grouping of its own scope (or: all of them deprecated).  Which submodule is looked at first must not matter.
		za := &sg.Mod{Name: "zsa", Prefix: "zsa", Includes: []string{"zs1", "zs2"}}
		var s1, s2 *sg.Mod
		if c.Defect == "odd-scoped-grouping-across-submodules" {
			s1 = &sg.Mod{Name: "zs1", Prefix: "zsa", BelongsTo: "zsa", Includes: []string{"zs2"}, Groupings: []*sg.Grouping{{Name: "zg", Kids: []*sg.Node{{Kind: "container", Name: "c", Kids: []*sg.Node{{Kind: "uses", Name: "zh"}}}}}}}
			s2 = &sg.Mod{Name: "zs2", Prefix: "zsa", BelongsTo: "zsa", Groupings: []*sg.Grouping{{Name: "zh", Kids: []*sg.Node{{Kind: "container", Name: "c2",
				Groupings: []*sg.Grouping{{Name: "zk", Kids: []*sg.Node{{Kind: "leaf", Name: "x", Type: str("string")}}}}, Kids: []*sg.Node{{Kind: "uses", Name: "zk"}}}}}}}
		} else {
			s1 = &sg.Mod{Name: "zs1", Prefix: "zsa", BelongsTo: "zsa", Includes: []string{"zs2"}, Groupings: []*sg.Grouping{{Name: "zg", Status: "deprecated", Kids: []*sg.Node{{Kind: "container", Name: "c", Kids: []*sg.Node{{Kind: "uses", Name: "zh"}}}}}}}
			s2 = &sg.Mod{Name: "zs2", Prefix: "zsa", BelongsTo: "zsa", Groupings: []*sg.Grouping{
				{Name: "zh", Status: "deprecated", Kids: []*sg.Node{{Kind: "container", Name: "c2", Kids: []*sg.Node{{Kind: "uses", Name: "zk"}}}}},
				{Name: "zk", Status: "deprecated", Kids: []*sg.Node{{Kind: "leaf", Name: "x", Type: str("string")}}}}}
		}
		if len(mods)%2 == 0 {
			za.Nodes = []*sg.Node{{Kind: "container", Name: "zsa-top", Status: s1.Groupings[0].Status, Kids: []*sg.Node{{Kind: "uses", Name: "zg"}}}}
		}
		return append(append([]*sg.Mod(nil), mods...), za, s1, s2)
	case "dangling-type-include-chain", "dangling-uses-include-chain":
		// a submodule sees the definitions of the submodules it includes itself, not of those they include in turn: the
		// first of a chain of three names a typedef (a grouping) of the third - refused, whichever submodule is read first
		zm := &sg.Mod{Name: "zic", Prefix: "zic", Includes: []string{"zic-a", "zic-b", "zic-c"}}
		sa := &sg.Mod{Name: "zic-a", Prefix: "zic", BelongsTo: "zic", Includes: []string{"zic-b"}}
		sb := &sg.Mod{Name: "zic-b", Prefix: "zic", BelongsTo: "zic", Includes: []string{"zic-c"}, Typedefs: []*sg.Typedef{{Name: "b-type", Type: str("c-type")}}}
		sc := &sg.Mod{Name: "zic-c", Prefix: "zic", BelongsTo: "zic", Typedefs: []*sg.Typedef{{Name: "c-type", Type: str("string")}},
			Groupings: []*sg.Grouping{{Name: "c-group", Kids: []*sg.Node{{Kind: "leaf", Name: "cg", Type: str("string")}}}}}
		top := &sg.Node{Kind: "container", Name: "zic-top"}
		if c.Defect == "dangling-type-include-chain" {
			top.Kids = []*sg.Node{{Kind: "leaf", Name: "x", Type: str("c-type")}, {Kind: "leaf", Name: "y", Type: str("b-type")}}
		} else {
			top.Kids = []*sg.Node{{Kind: "uses", Name: "c-group"}}
		}
		sa.Nodes = []*sg.Node{top}
		return append(append([]*sg.Mod(nil), mods...), zm, sa, sb, sc)
	case "belongs-to-missing":
		return append(append([]*sg.Mod(nil), mods...), &sg.Mod{Name: "orphan", Prefix: "own", BelongsTo: "no-such-module"})
	case "illegal-config-in-remote-grouping", "illegal-default-in-remote-grouping":
		short := &sg.Mod{Name: "zs", Prefix: "zs", Imports: []sg.Import{{Mod: mods[0].Name, Prefix: "z0"}}}
		if c.Defect == "illegal-config-in-remote-grouping" {
			short.Nodes = []*sg.Node{{Kind: "container", Name: "zs-top", Config: "false", Kids: []*sg.Node{{Kind: "uses", Name: "z0:cyc-gerr"}}}}
		} else {
			short.Nodes = []*sg.Node{{Kind: "container", Name: "zs-top", Kids: []*sg.Node{{Kind: "uses", Name: "z0:cyc-gerr",
				Refines: []sg.Refine{{Target: "cyc-num", Stmts: []string{`default "300";`}}}}}}}
		}
		return append(append([]*sg.Mod(nil), mods...), short)
	case "dangling-include-foreign", "dangling-include-foreign-nested":
		// an include that names a submodule which exists in the set but belongs to another module: written in the module
		// itself, or in one of its submodules
		out := sg.Clone(mods)
		var a *sg.Mod
		for _, m := range out {
			if m.BelongsTo == "" && a == nil {
				a = m
			}
		}
		other := &sg.Mod{Name: "zother", Prefix: "zo", Includes: []string{"zother-sub"}, Nodes: []*sg.Node{{Kind: "container", Name: "zother-top"}}}
		osub := &sg.Mod{Name: "zother-sub", Prefix: "zo", BelongsTo: "zother", Typedefs: []*sg.Typedef{{Name: "zt", Type: str("string")}}}
		if c.Defect == "dangling-include-foreign" {
			a.Includes = append(a.Includes, "zother-sub")
			return append(out, other, osub)
		}
		a.Includes = append(a.Includes, "sa")
		return append(out, other, osub, &sg.Mod{Name: "sa", Prefix: a.Prefix, BelongsTo: a.Name, Includes: []string{"zother-sub"}})
	}
	return mods
}

func genCase(t *rapid.T) Case {
	g := &sg.G{T: t, Cfg: sg.GenCfg{ConfigFalse: true}}
	c := Case{Mods: g.GenSet(), Reps: 4, Feat: []string{"", "", "none", "some"}[g.Pick(4, "featcfg")]}
	c.SkipUnknown = g.Chance(1, 5, "skipunknown")
	if fw.Thorough() {
		c.Reps = 8
	}
	if g.Chance(1, 4, "layereddev") {
		// two deviation modules, one importing the other, replace the same property of the same leaf: the outcome
		// depends on the order of application, which must be the same on every run (names chosen so that the
		// alphabetical order contradicts the dependency order)
		m0 := c.Mods[0]
		for _, top := range m0.Nodes {
			done := false
			for _, k := range top.Kids {
				if k.Kind == "leaf" && k.Type != nil && k.Type.Name == "string" && k.Default != nil && len(k.IfFeatures) == 0 && k.When == "" && len(top.IfFeatures) == 0 && top.When == "" {
					target := "/t0:" + top.Name + "/t0:" + k.Name
					c.Mods = append(c.Mods,
						&sg.Mod{Name: "zdev-a", Prefix: "zda", Imports: []sg.Import{{Mod: m0.Name, Prefix: "t0"}},
							Deviations: []*sg.Deviation{{Target: target, Deviates: []sg.Deviate{{Kind: "replace", Stmts: []string{`default "from-a";`}}}}}},
						&sg.Mod{Name: "adev-b", Prefix: "adb", Imports: []sg.Import{{Mod: m0.Name, Prefix: "t0"}, {Mod: "zdev-a", Prefix: "za"}},
							Deviations: []*sg.Deviation{{Target: target, Deviates: []sg.Deviate{{Kind: "replace", Stmts: []string{`default "from-b";`}}}}}})
					done = true
					break
				}
			}
			if done {
				break
			}
		}
	}
	if g.Chance(2, 5, "defect") {
		c.Defect = defects[g.Pick(len(defects), "which")]
		inject(c.Mods, c.Defect, func(n int) int { return g.Pick(n, "where") })
		if strings.HasPrefix(c.Defect, "odd-f") && g.Chance(3, 4, "tolerant") {
			c.SkipUnknown = true
		}
	} else if g.Chance(1, 2, "mutate") {
		c.Mutations = mutate(c.Mods, func(n int, l string) int { return g.Pick(n, l) })
	}
	return c
}

func checkCase(c Case) fw.Outcome {
	out := fw.Outcome{}
	mods := extraMods(c)
	cross := false
	for _, m := range mods {
		if len(m.Imports) > 0 || len(m.Includes) > 0 {
			cross = true
		}
	}
	out.NonTrivial = len(mods) >= 2 || cross
	if c.Defect != "" {
		out.Labels = append(out.Labels, "defect:"+c.Defect)
		out.NonTrivial = true
	}
	if len(c.Mutations) > 0 {
		out.Labels = append(out.Labels, c.Mutations...)
		out.NonTrivial = true
	}
	names := make([]string, len(mods))
	texts := make([]string, len(mods))
	for i, m := range mods {
		names[i] = m.Name
		texts[i] = m.Text()
	}
	out.Key = strings.Join(texts, "\n")
	reps := c.Reps
	if reps < 2 {
		reps = 2
	}
	var firstOK bool
	var firstDump, firstDesc string
	for r := 0; r < reps; r++ {
		// a different supply order each time: rotation, reversal; shared vs separate interners
		order := make([]int, len(mods))
		for i := range order {
			order[i] = (i + r) % len(mods)
		}
		if r%2 == 1 {
			for i, j := 0, len(order)-1; i < j; i, j = i+1, j-1 {
				order[i], order[j] = order[j], order[i]
			}
		}
		var feats compile.FeaturesChecker = sgc.AllFeatures{}
		switch c.Feat {
		case "none":
			feats = sgc.FeatureSet{}
		case "some":
			fs := sgc.FeatureSet{}
			for _, m := range mods {
				for i, f := range m.Features {
					if (i+len(f.Name))%2 == 0 {
						owner := m.Name
						if m.BelongsTo != "" {
							owner = m.BelongsTo
						}
						fs[owner+":"+f.Name] = true
					}
				}
			}
			feats = fs
		}
		res := sgc.CompileTexts(names, texts, sgc.Opts{Order: order, Features: feats, Separate: r%3 == 2, SkipUnknown: c.SkipUnknown})
		if res.Hang || res.Panic != "" {
			out.Violation = fmt.Sprintf("compilation is not total (%s)\nmodules:\n%s", res.Describe(), out.Key)
			return out
		}
		if res.ParseErr {
			if len(c.Mutations) > 0 {
				// the property is about parsed modules: a mutated set that does not parse is not in its domain
				out.Skip = true
				return out
			}
			out.Violation = fmt.Sprintf("harness: generated module does not parse: %v\n%s", res.Err, out.Key)
			return out
		}
		dump := ""
		if res.OK() {
			dump = canon.Dump(res.MS, canon.Opts{ListsAsReported: true})
		}
		if r == 0 {
			firstOK, firstDump, firstDesc = res.OK(), dump, res.Describe()
			continue
		}
		if res.OK() != firstOK {
			out.Violation = fmt.Sprintf("verdict depends on the run / module order: run 0 %s, run %d (order %v) %s\nmodules:\n%s", firstDesc, r, order, res.Describe(), out.Key)
			return out
		}
		if dump != firstDump {
			out.Violation = fmt.Sprintf("compiled schema differs between run 0 and run %d (order %v):\n%s\nmodules:\n%s", r, order, firstDiff(firstDump, dump), out.Key)
			return out
		}
	}
	if firstOK {
		out.Labels = append(out.Labels, "compiles")
	} else {
		out.Labels = append(out.Labels, "rejected")
	}
	// cycles are errors under every feature configuration; a dangling reference (an addition of this check, the property
	// names cycles only) sits on a node that a disabled feature may remove before anything resolves it
	// (the "odd-" kinds are ill-formed references the property does not list - uses of extensions - : whether they are
	// refused depends on where they stand; the compile has to end, the same way every time)
	mustReject := c.Defect != "" && !c.SkipUnknown && !strings.HasPrefix(c.Defect, "odd-") && (c.Feat == "" || strings.Contains(c.Defect, "cycle") || strings.Contains(c.Defect, "self") || strings.HasPrefix(c.Defect, "illegal-"))
	if mustReject && firstOK {
		out.Violation = fmt.Sprintf("a module set with an injected %s compiles without error\nmodules:\n%s", c.Defect, out.Key)
	}
	if c.Defect == "" && len(c.Mutations) == 0 && !firstOK {
		out.Labels = append(out.Labels, "generator-invalid")
		if os.Getenv("VERIF_DEBUG") != "" {
			d := firstDesc
			if i := strings.LastIndex(d, ": "); i >= 0 {
				d = d[i+2:]
			}
			out.Labels = append(out.Labels, "why:"+d)
		}
	}
	return out
}

func firstDiff(a, b string) string {
	la, lb := strings.Split(a, "\n"), strings.Split(b, "\n")
	for i := 0; i < len(la) && i < len(lb); i++ {
		if la[i] != lb[i] {
			return fmt.Sprintf("line %d:\n  %s\n  %s", i+1, la[i], lb[i])
		}
	}
	return fmt.Sprintf("lengths differ: %d vs %d lines", len(la), len(lb))
}

var det = fw.Register(&fw.Prop[Case]{
	ID: "C11", Name: "deterministic",
	Rule: "module sets (1-4 modules, imports as a DAG, features, identities, typedef chains, groupings, uses, augments, rpcs, notifications, config false subtrees) with, in 40% of the cases, one injected " +
		"reference cycle (imports, includes, typedefs used/unused/self/through a union, groupings direct/nested/through choice/long/unused, identities, features) or dangling reference; each set is " +
		"parsed afresh and compiled 4 (quick) / 8 (thorough) times with rotated and reversed supply orders and shared/separate interners (Go re-randomises every map iteration); " +
		"oracle: returns without panic or hang, an injected cycle or dangling reference gives an error, all runs agree on the verdict and on the canonical dump; " +
		"a third of the sets get 1-3 structural mutations instead (key / unique / type / restriction / default / min-max / config / status / if-feature / when / must of a node changed, a sibling duplicated, a node kind changed, an augment, refine, uses, deviation, import, typedef type or identity base added or redirected - every argument stays lexically valid, so the set still parses): whatever the set then is, the compile must end with a schema or an error, the same on every run; non-trivial = at least 2 modules, a cross-module reference, an injected defect or a mutation",
	Gen: genCase, Check: checkCase,
	MinLabel: []string{"compiles", "rejected"},
})

func TestMain(m *testing.M) { fw.Main(m) }

func TestDeterministic(t *testing.T) { fw.Run(t, det) }
