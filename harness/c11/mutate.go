package c11

import (
	"fmt"

	"verifharness/sg"
)

// Structural mutation of a valid module set: the result still parses (every argument keeps a lexically valid form) but
// is usually not a valid set any more.  Whatever it is, compiling it must end with a schema or an error.

type picker func(n int, label string) int

// allNodes lists every node of a module, wherever it is written (data tree, groupings, augments, rpcs, notifications).
func allNodes(m *sg.Mod) []*sg.Node {
	var out []*sg.Node
	var walk func(kids []*sg.Node)
	walk = func(kids []*sg.Node) {
		for _, k := range kids {
			out = append(out, k)
			walk(k.Kids)
			for _, a := range k.Augments {
				walk(a.Kids)
			}
			for _, g := range k.Groupings {
				walk(g.Kids)
			}
		}
	}
	walk(m.Nodes)
	for _, g := range m.Groupings {
		walk(g.Kids)
	}
	for _, a := range m.Augments {
		walk(a.Kids)
	}
	for _, r := range m.Rpcs {
		walk(r.Input)
		walk(r.Output)
	}
	for _, n := range m.Notifs {
		walk(n.Kids)
	}
	return out
}

func absPaths(mods []*sg.Mod, from *sg.Mod) []string {
	var out []string
	for _, m := range mods {
		pfx := m.Prefix
		for _, i := range from.Imports {
			if i.Mod == m.Name {
				pfx = i.Prefix
			}
		}
		for _, r := range sg.ListNodes(m) {
			out = append(out, r.AbsPath(pfx))
		}
	}
	out = append(out, "/"+from.Prefix+":no-such-node", "/nopfx:x", "/"+from.Prefix+":"+from.Prefix)
	return out
}

var typeNames = []string{"string", "int8", "uint64", "decimal64", "boolean", "empty", "enumeration", "union", "identityref", "leafref", "bits", "binary", "instance-identifier", "no-such-type", "nopfx:t"}
var restrPool = []string{"1..5", "min..max", "0", "5..1", "1..5|3..9", "-1..1", "1.5..2.5", "18446744073709551616", "max..min", "1..2|4"}
var exprPool = []string{"../k", "1 = 1", "count(../*) > 0", "current()/..", "/", "nopfx:a", "a[b=1]", "deref(.)/../x", "string-length(.) > 0"}
var relPaths = []string{"c", "c/d", "no-such", "k", "c/k/x", "a/b/c/d"}

func mutateOnce(mods []*sg.Mod, pick picker) string {
	m := mods[pick(len(mods), "mmod")]
	nodes := allNodes(m)
	names := func() []string {
		var out []string
		for _, n := range nodes {
			if n.Kind != "uses" {
				out = append(out, n.Name)
			}
		}
		return append(out, "no-such-name")
	}
	var n *sg.Node
	if len(nodes) > 0 {
		n = nodes[pick(len(nodes), "mnode")]
	}
	pickS := func(ss []string, l string) string { return ss[pick(len(ss), l)] }
	switch k := pick(24, "mkind"); {
	case n == nil:
		return "none"
	case k == 0 && n.Kind == "list":
		n.Key = pickS(names(), "mkey")
		if pick(2, "mkey2") == 0 {
			n.Key += " " + pickS(names(), "mkey3")
		}
		return "key"
	case k == 1 && n.Kind == "list":
		n.Uniques = append(n.Uniques, pickS(append(names(), relPaths...), "muniq"))
		return "unique"
	case k == 2 && (n.Kind == "leaf" || n.Kind == "leaf-list"):
		n.Type = &sg.TypeSpec{Name: pickS(typeNames, "mtype")}
		switch n.Type.Name {
		case "decimal64":
			n.Type.FD = 1 + pick(18, "mfd")
		case "enumeration":
			n.Type.Enums = []string{"a", "b", "a"}[:1+pick(3, "menum")]
		case "union":
			n.Type.Members = []*sg.TypeSpec{{Name: pickS(typeNames, "mmember")}}
		case "identityref":
			n.Type.Base = pickS([]string{"no-such-identity", m.Prefix + ":x", "nopfx:i"}, "mbase")
		case "leafref":
			n.Type.Path = pickS([]string{"../k", "/" + m.Prefix + ":no/such", "../../../../..", "../" + n.Name}, "mpath")
		}
		return "type"
	case k == 3 && n.Type != nil:
		n.Type.Range = pickS(restrPool, "mrange")
		return "range"
	case k == 4 && n.Type != nil:
		n.Type.Length = pickS(restrPool, "mlength")
		return "length"
	case k == 5 && n.Type != nil:
		n.Type.Patterns = append(n.Type.Patterns, pickS([]string{"[a-z]+", "(", "\\p{IsBasicLatin}*", "[", "a{2,1}", ".*"}, "mpattern"))
		return "pattern"
	case k == 6 && n.Kind == "leaf":
		d := pickS([]string{"", "x", "1", "-1", "true", "one", " ", "99999999999999999999"}, "mdefault")
		n.Default = &d
		if pick(2, "mdefmand") == 0 {
			n.Mandatory = "true"
		}
		return "default"
	case k == 7 && (n.Kind == "list" || n.Kind == "leaf-list"):
		n.Min, n.Max = pickS([]string{"0", "1", "5", "4294967296"}, "mmin"), pickS([]string{"1", "0", "3", "unbounded"}, "mmax")
		return "min-max"
	case k == 8 && n.Kind != "case" && n.Kind != "uses":
		n.Config = pickS([]string{"true", "false"}, "mconfig")
		return "config"
	case k == 9:
		n.Status = pickS([]string{"current", "deprecated", "obsolete"}, "mstatus")
		return "status"
	case k == 10:
		n.IfFeatures = append(n.IfFeatures, pickS([]string{"no-such-feature", m.Prefix + ":nf", "nopfx:f"}, "miff"))
		return "if-feature"
	case k == 11:
		n.When = pickS(exprPool, "mwhen")
		return "when"
	case k == 12 && n.Kind != "choice" && n.Kind != "case" && n.Kind != "uses":
		n.Musts = append(n.Musts, sg.Must{Expr: pickS(exprPool, "mmust")})
		return "must"
	case k == 13:
		// a sibling with the same name
		for _, p := range nodes {
			for i, c := range p.Kids {
				if c == n {
					cp := sg.Clone(n)
					p.Kids = append(p.Kids[:i+1], append([]*sg.Node{cp}, p.Kids[i+1:]...)...)
					return "duplicate-sibling"
				}
			}
		}
		return "none"
	case k == 14 && n.Kind == "choice":
		d := pickS(names(), "mchoicedef")
		n.Default = &d
		return "choice-default"
	case k == 15:
		n.Kind = pickS([]string{"container", "leaf", "leaf-list", "list", "choice", "case"}, "mnodekind")
		if (n.Kind == "leaf" || n.Kind == "leaf-list") && n.Type == nil {
			n.Type = &sg.TypeSpec{Name: "string"}
		}
		if n.Kind != "leaf" && n.Kind != "leaf-list" {
			n.Type = nil
		}
		return "kind"
	case k == 16:
		paths := absPaths(mods, m)
		m.Augments = append(m.Augments, &sg.Augment{Target: pickS(paths, "maug"), Kids: []*sg.Node{{Kind: pickS([]string{"leaf", "container", "case", "uses"}, "maugkind"), Name: pickS(names(), "maugname"), Type: &sg.TypeSpec{Name: "string"}}}})
		if last := m.Augments[len(m.Augments)-1].Kids[0]; last.Kind != "leaf" {
			last.Type = nil
		}
		return "augment"
	case k == 17 && n.Kind == "uses":
		n.Refines = append(n.Refines, sg.Refine{Target: pickS(relPaths, "mrefine"), Stmts: []string{pickS([]string{`default "x";`, `mandatory true;`, `min-elements 2;`, `presence "p";`, `config false;`, `must "1";`}, "mrefstmt")}})
		return "refine"
	case k == 18 && n.Kind == "uses":
		n.Augments = append(n.Augments, &sg.Augment{Target: pickS(append(relPaths, "/abs"), "musesaug"), Kids: []*sg.Node{{Kind: "leaf", Name: "ma", Type: &sg.TypeSpec{Name: "string"}}}})
		return "uses-augment"
	case k == 19:
		var gn []string
		for _, x := range mods {
			for _, g := range x.Groupings {
				gn = append(gn, g.Name, x.Prefix+":"+g.Name)
			}
		}
		gn = append(gn, "no-such-grouping")
		n.Kids = append(n.Kids, &sg.Node{Kind: "uses", Name: pickS(gn, "muses")})
		return "uses"
	case k == 20:
		paths := absPaths(mods, m)
		m.Deviations = append(m.Deviations, &sg.Deviation{Target: pickS(paths, "mdev"), Deviates: []sg.Deviate{{Kind: pickS([]string{"not-supported", "add", "replace", "delete"}, "mdevkind"),
			Stmts: []string{pickS([]string{`units "u";`, `default "d";`, `config false;`, `mandatory true;`, `type string;`, `must "1";`, `unique "a";`, `min-elements 1;`, `status obsolete;`}, "mdevstmt")}}}})
		if d := &m.Deviations[len(m.Deviations)-1].Deviates[0]; d.Kind == "not-supported" {
			d.Stmts = nil
		}
		return "deviation"
	case k == 21:
		other := mods[pick(len(mods), "mimp")]
		m.Imports = append(m.Imports, sg.Import{Mod: other.Name, Prefix: pickS([]string{"mx", m.Prefix, other.Prefix}, "mimppfx")})
		return "import"
	case k == 22 && len(m.Typedefs) > 0:
		t := m.Typedefs[pick(len(m.Typedefs), "mtd")]
		t.Type = &sg.TypeSpec{Name: pickS(append([]string{m.Typedefs[pick(len(m.Typedefs), "mtd2")].Name}, typeNames...), "mtdtype")}
		return "typedef"
	case k == 23 && len(m.Identities) > 0:
		i := m.Identities[pick(len(m.Identities), "mid")]
		i.Base = pickS([]string{m.Identities[pick(len(m.Identities), "mid2")].Name, "no-such-identity", "nopfx:i"}, "midbase")
		return "identity"
	}
	return "none"
}

// mutate applies 1-3 mutations and returns their kinds.
func mutate(mods []*sg.Mod, pick picker) []string {
	var kinds []string
	for i, n := 0, 1+pick(3, "nmut"); i < n; i++ {
		k := "none"
		for try := 0; try < 4 && k == "none"; try++ {
			k = mutateOnce(mods, pick) // (a mutation that does not fit the node drawn is drawn again)
		}
		kinds = append(kinds, fmt.Sprintf("mutated:%s", k))
	}
	return kinds
}
