// Package c16: type validation accepts exactly the YANG value space.
package c16

import (
	"fmt"
	"math/big"
	"net/url"
	"strings"
	"testing"

	"verifharness/fw"
	"verifharness/merr"
	"verifharness/sg"
	"verifharness/sgc"
	"verifharness/vt"

	"pgregory.net/rapid"
)

type Case struct {
	Type   *sg.TypeSpec `json:"type"`
	Values []string     `json:"values"`
	Path   []string     `json:"path"`
	Hops   int          `json:"hops,omitempty"` // the leaf reaches the type through this many typedefs (0 = written on the leaf)
}

type gen struct{ t *rapid.T }

func (g *gen) pick(n int, l string) int { return rapid.IntRange(0, n-1).Draw(g.t, l) }

func fmtScaled(v *big.Int, fd int) string {
	if fd == 0 {
		return v.String()
	}
	neg := v.Sign() < 0
	s := new(big.Int).Abs(v).String()
	for len(s) <= fd {
		s = "0" + s
	}
	out := s[:len(s)-fd] + "." + s[len(s)-fd:]
	if neg {
		out = "-" + out
	}
	return out
}

// identity hierarchy: m0 { b0; d1 <- b0; d2 <- d1 (obsolete); other; e1 <- b0 }  m1 { e1 <- m0:d1; e2 <- e1 (deprecated); u1; d2 <- m0:b0; d2x <- d2 }
// (m0:e1 and m1:e1, m0:d2 and m1:d2 are different identities that share a name)
func modules(t *sg.TypeSpec, hops int) []*sg.Mod {
	m0 := &sg.Mod{Name: "m0", Prefix: "m0", Identities: []*sg.Identity{{Name: "b0"}, {Name: "d1", Base: "b0"}, {Name: "d2", Base: "d1", Status: "obsolete"}, {Name: "other"}, {Name: "e1", Base: "b0"}},
		Nodes: []*sg.Node{{Kind: "container", Name: "m0-top", Kids: []*sg.Node{{Kind: "leaf", Name: "x", Type: &sg.TypeSpec{Name: "string"}}}}}}
	m1 := &sg.Mod{Name: "m1", Prefix: "m1", Imports: []sg.Import{{Mod: "m0", Prefix: "m0"}},
		Identities: []*sg.Identity{{Name: "e1", Base: "m0:d1"}, {Name: "e2", Base: "e1", Status: "deprecated"}, {Name: "u1"}, {Name: "lb"}, {Name: "l1", Base: "lb"}, {Name: "d2", Base: "m0:b0"}, {Name: "d2x", Base: "d2"}},
		Nodes:      []*sg.Node{{Kind: "container", Name: "m1-top", Kids: []*sg.Node{{Kind: "leaf", Name: "v", Type: t}}}}}
	// the same type reached by reference: value space, messages and app-tags must be those of the definition
	// with hops, the last pattern of a string type may move from the innermost typedef to the leaf's own refinement of
	// the outermost one: the value space is the same
	var own []string
	if hops > 0 && t.Name == "string" && len(t.Patterns) > 0 && t.PatMsg == "" && t.PatTag == "" && len(t.Patterns)%2 == 1 {
		cp := *t
		own = []string{t.Patterns[len(t.Patterns)-1]}
		cp.Patterns = append([]string(nil), t.Patterns[:len(t.Patterns)-1]...)
		t = &cp
	}
	for h := 0; h < hops; h++ {
		name := fmt.Sprintf("td%d", h)
		inner := t
		if h > 0 {
			inner = &sg.TypeSpec{Name: fmt.Sprintf("td%d", h-1)}
			if t.Name == "string" {
				// every level adds a pattern of its own that excludes nothing (the candidates hold no line break)
				inner.Patterns = []string{".*"}
			}
		}
		m1.Typedefs = append(m1.Typedefs, &sg.Typedef{Name: name, Type: inner})
		m1.Nodes[0].Kids[0].Type = &sg.TypeSpec{Name: name, Patterns: own}
	}
	if t.Name != "empty" {
		// the same type on a leaf-list: an entry is validated, and its rejection located, like the value of the leaf
		m1.Nodes[0].Kids = append(m1.Nodes[0].Kids, &sg.Node{Kind: "leaf-list", Name: "vl", Type: m1.Nodes[0].Kids[0].Type})
		// ... and as the key of a list: the token after the list name is a value of the key's type wherever the path goes on to
		m1.Nodes[0].Kids = append(m1.Nodes[0].Kids, &sg.Node{Kind: "list", Name: "kl", Key: "k", Kids: []*sg.Node{
			{Kind: "leaf", Name: "k", Type: m1.Nodes[0].Kids[0].Type}, {Kind: "leaf", Name: "other", Type: &sg.TypeSpec{Name: "string"}}}})
	}
	if hops > 0 && t.Name == "string" {
		// a sibling compiled later refines the same typedef with a pattern of its own: that is its business alone
		last := fmt.Sprintf("td%d", hops-1)
		m1.Nodes[0].Kids = append(m1.Nodes[0].Kids, &sg.Node{Kind: "leaf", Name: "w1", Type: &sg.TypeSpec{Name: last, Patterns: []string{"zz+"}}},
			&sg.Node{Kind: "leaf-list", Name: "w2", Type: &sg.TypeSpec{Name: last}})
	}
	return []*sg.Mod{m0, m1}
}

type vctx struct{}

func (vctx) ErrorHelpText() []string    { return nil }
func (vctx) AllowIncompletePaths() bool { return false }

func identNames(base string) []string {
	switch base {
	case "m0:b0":
		return []string{"m0:d1", "m0:d2", "m0:e1", "e1", "e2", "d2", "d2x"}
	case "m0:d1":
		return []string{"m0:d2", "e1", "e2"}
	case "e1":
		return []string{"e2"}
	case "lb":
		return []string{"l1"}
	}
	return nil
}

var patternPool = []string{"(ab+)|(cd+)", "([0-9]+)|(none)", "[a-z]+", "a", "a|b", "ab|cd", "(ab)*", "[0-9]{2,3}", ".*x", "x.*", "[^ ]*", "a.c", "é+",
	// the block escape of XML Schema, alone and as a member of a bracket expression
	"\\p{IsBasicLatin}+", "[\\p{IsBasicLatin}é]+", "[^\\p{IsBasicLatin}]+", "x[\\p{IsBasicLatin}]*", "[é\\p{IsBasicLatin}]{1,3}"}

func (g *gen) rangeOver(lo, hi *big.Int, fd int) string {
	// 1-3 ascending parts with small gaps, anchored near the type bounds or near zero
	anchor := []*big.Int{lo, hi, big.NewInt(0), big.NewInt(100), big.NewInt(-100)}[g.pick(5, "anchor")]
	np := 1 + g.pick(3, "nparts")
	cur := new(big.Int).Set(anchor)
	if anchor.Cmp(hi) == 0 {
		cur = new(big.Int).Sub(hi, big.NewInt(int64(20*np)))
	}
	if cur.Cmp(lo) < 0 {
		cur = new(big.Int).Set(lo)
	}
	var parts []string
	for i := 0; i < np; i++ {
		a := new(big.Int).Add(cur, big.NewInt(int64(g.pick(4, "gap"))))
		b := new(big.Int).Add(a, big.NewInt(int64(g.pick(8, "width"))))
		if b.Cmp(hi) > 0 {
			b = new(big.Int).Set(hi)
		}
		if a.Cmp(b) > 0 {
			break
		}
		if a.Cmp(b) == 0 {
			parts = append(parts, fmtScaled(a, fd))
		} else {
			parts = append(parts, fmtScaled(a, fd)+".."+fmtScaled(b, fd))
		}
		cur = new(big.Int).Add(b, big.NewInt(2))
		if cur.Cmp(hi) >= 0 {
			break
		}
	}
	if len(parts) == 0 {
		return fmtScaled(lo, fd) + ".." + fmtScaled(hi, fd)
	}
	return strings.Join(parts, "|")
}

func (g *gen) typ(depth int) *sg.TypeSpec {
	switch g.pick(9, "kind") {
	case 0, 1:
		name := []string{"int8", "int16", "int32", "int64", "uint8", "uint16", "uint32", "uint64"}[g.pick(8, "w")]
		t := &sg.TypeSpec{Name: name}
		b := vt.Builtin(name, 0)
		if g.pick(3, "ranged") != 1 {
			t.Range = g.rangeOver(b.Ranges[0].Lo, b.Ranges[0].Hi, 0)
			// message and app-tag of a restriction are independent of each other
			if g.pick(3, "msg") == 1 {
				t.RangeMsg = "custom range message"
			}
			if g.pick(3, "tag") == 1 {
				t.RangeTag = "custom-range-tag"
			}
		}
		return t
	case 2, 3:
		fd := []int{1, 2, 3, 9, 18}[g.pick(5, "fd")]
		t := &sg.TypeSpec{Name: "decimal64", FD: fd}
		b := vt.Builtin("decimal64", fd)
		if g.pick(3, "ranged") != 1 {
			t.Range = g.rangeOver(b.Ranges[0].Lo, b.Ranges[0].Hi, fd)
			if g.pick(3, "msg") == 1 {
				t.RangeMsg = "custom decimal message"
			}
			if g.pick(3, "tag") == 1 {
				t.RangeTag = "custom-decimal-tag"
			}
		}
		return t
	case 4, 5:
		t := &sg.TypeSpec{Name: "string"}
		if g.pick(2, "len") == 1 {
			t.Length = []string{"0..3", "2", "1..2|4|6..8", "3..max", "min..1|5", "0 | 3..max", "min..1 | 4..max", "0..1|3|5..max", "min | max"}[g.pick(9, "lenx")]
			if g.pick(3, "lmsg") == 1 {
				t.LenMsg = "custom length message"
			}
			if g.pick(3, "ltag") == 1 {
				t.LenTag = "custom-length-tag"
			}
		}
		np := g.pick(3, "npat")
		for i := 0; i < np; i++ {
			if g.pick(2, "patgrammar") == 0 {
				t.Patterns = append(t.Patterns, vt.GenPattern(g.pick, 2))
			} else {
				t.Patterns = append(t.Patterns, patternPool[g.pick(len(patternPool), "pat")])
			}
		}
		if np > 0 && g.pick(3, "pmsg") == 1 {
			t.PatMsg = "custom pattern message"
		}
		if np > 0 && g.pick(3, "ptag") == 1 {
			t.PatTag = "custom-pattern-tag"
		}
		return t
	case 6:
		switch g.pick(3, "simple") {
		case 0:
			return &sg.TypeSpec{Name: "boolean"}
		case 1:
			return &sg.TypeSpec{Name: "empty"}
		default:
			// a deprecated or obsolete enum is still a name of the declared set
			t := &sg.TypeSpec{Name: "enumeration", Enums: []string{"one", "two words", "Three", "x-1"}[:1+g.pick(4, "nenum")]}
			for range t.Enums {
				t.EnumStat = append(t.EnumStat, []string{"", "", "current", "deprecated", "obsolete"}[g.pick(5, "enumstatus")])
			}
			return t
		}
	case 7:
		return &sg.TypeSpec{Name: "identityref", Base: []string{"m0:b0", "m0:d1", "e1", "lb"}[g.pick(4, "base")]}
	default:
		if depth <= 0 {
			return &sg.TypeSpec{Name: "boolean"}
		}
		n := 2 + g.pick(2, "nmembers")
		t := &sg.TypeSpec{Name: "union"}
		for i := 0; i < n; i++ {
			m := g.typ(depth - 1)
			if m.Name == "empty" {
				m = &sg.TypeSpec{Name: "boolean"}
			}
			t.Members = append(t.Members, m)
		}
		return t
	}
}

// space builds the reference value space of a type specification.
func space(t *sg.TypeSpec) *vt.Space {
	switch t.Name {
	case "enumeration":
		return &vt.Space{Kind: "enumeration", Names: t.Enums}
	case "identityref":
		return &vt.Space{Kind: "identityref", Names: identNames(t.Base)}
	case "union":
		s := &vt.Space{Kind: "union"}
		for _, m := range t.Members {
			s.Members = append(s.Members, space(m))
		}
		return s
	}
	sp := vt.Builtin(t.Name, t.FD)
	if t.Range != "" {
		r, err := vt.Restrict(t.Range, sp.Ranges, t.FD, t.Name == "decimal64", t.Name != "decimal64")
		if err != nil {
			panic(fmt.Sprintf("generator produced an invalid range %q: %v", t.Range, err))
		}
		sp.Ranges = r
	}
	if t.Length != "" {
		r, err := vt.Restrict(t.Length, sp.Lengths, 0, false, true)
		if err != nil {
			panic(err)
		}
		sp.Lengths = r
	}
	for _, p := range t.Patterns {
		sp.Patterns = append(sp.Patterns, vt.Anchored(p))
	}
	return sp
}

var lexical = []string{"", " ", "0", "-0", "+0", "5", "+5", "-5", "05", "005", " 5", "5 ", "5.", ".5", "5.0", "5.00", "1e2", "0x1", "0o7", "1_0", "−5", "５", "--5", "+-5", "5-", "NaN", "Inf",
	"true", "false", "True", "TRUE", "1", "yes", "a", "b", "ab", "abc", "xa", "ax", "cd", "abab", "a c", "abc ", "é", "éé", "日本", "12", "123", "1234", "x", "xx", "axc",
	"one", "One", "one ", " one", "two words", "two  words", "Three", "three", "x-1",
	"e1", "e2", "m1:e1", "m0:d1", "m0:d2", "d1", "d2", "m0:b0", "b0", "u1", "m1:u1", "m0:other", "other", "l1", "lb", "m0:e1", "M0:d1", "m0:D1", "m0:d1 "}

func candidates(g *gen, t *sg.TypeSpec) []string {
	out := append([]string(nil), lexical[g.pick(len(lexical)-6, "lexstart"):]...)
	if len(out) > 14 {
		out = out[:14]
	}
	var walk func(t *sg.TypeSpec)
	walk = func(t *sg.TypeSpec) {
		for _, m := range t.Members {
			walk(m)
		}
		sp := space(t)
		one := big.NewInt(1)
		switch sp.Kind {
		case "int", "uint", "decimal64":
			b := vt.Builtin(t.Name, t.FD)
			ivs := append(append([]vt.Iv(nil), sp.Ranges...), b.Ranges...)
			for _, iv := range ivs {
				for _, n := range []*big.Int{new(big.Int).Sub(iv.Lo, one), iv.Lo, new(big.Int).Add(iv.Lo, one), new(big.Int).Sub(iv.Hi, one), iv.Hi, new(big.Int).Add(iv.Hi, one)} {
					s := fmtScaled(n, t.FD)
					out = append(out, s)
					switch g.pick(6, "variant") {
					case 0:
						if n.Sign() >= 0 {
							out = append(out, "+"+s)
						}
					case 1:
						if t.FD > 0 {
							out = append(out, s+"0", strings.TrimRight(strings.TrimRight(s, "0"), "."))
						} else {
							out = append(out, s+".0")
						}
					case 2:
						out = append(out, "0"+strings.TrimPrefix(s, "-"))
					}
				}
			}
			if t.FD > 0 {
				// written without a decimal point: the whole numbers next to every bound
				scale := new(big.Int).Exp(big.NewInt(10), big.NewInt(int64(t.FD)), nil)
				for _, iv := range ivs {
					for _, b := range []*big.Int{iv.Lo, iv.Hi} {
						ip := new(big.Int).Quo(b, scale)
						for d := int64(-1); d <= 1; d++ {
							out = append(out, new(big.Int).Add(ip, big.NewInt(d)).String())
						}
					}
				}
			}
			if t.FD > 0 {
				// not decimal64 lexical forms although they read as numbers: exponents, hex floats, digit separators, missing parts
				out = append(out, "1.5e1", "+7.e1", "9.9e-1", "1.0E2", "-3.0e+00", "1.e0", "0.5e0", "0x1.8p1", "1_0.5", "1.5f", ".5", "5.", "+.5", "1..5", "1.5.", "1,5", "١.٥")
				out = append(out, "1."+strings.Repeat("1", t.FD), "1."+strings.Repeat("1", t.FD+1), "1."+strings.Repeat("1", max(1, t.FD-1)), "1", "-1", "0."+strings.Repeat("0", t.FD-1)+"1")
			}
			out = append(out, "9223372036854775807", "9223372036854775808", "-9223372036854775808", "-9223372036854775809", "18446744073709551615", "18446744073709551616", "99999999999999999999")
		case "string":
			if len(sp.Patterns) > 0 {
				// small-scope exhaustive: every string up to length 3 over the alphabet of the pattern grammar
				out = append(out, vt.SmallStrings("abcx", 3)...)
			}
			for _, iv := range sp.Lengths {
				for _, n := range []*big.Int{new(big.Int).Sub(iv.Lo, one), iv.Lo, iv.Hi, new(big.Int).Add(iv.Hi, one)} {
					if n.Sign() >= 0 && n.Cmp(big.NewInt(12)) < 0 {
						k := int(n.Int64())
						out = append(out, strings.Repeat("a", k), strings.Repeat("é", k), strings.Repeat("\U0001F600", k), strings.Repeat("日", k), strings.Repeat("ab", k/2)+strings.Repeat("x", k%2))
					}
				}
			}
		}
	}
	walk(t)
	return out
}

func genCase(t *rapid.T) Case {
	g := &gen{t}
	ty := g.typ(2)
	c := Case{Type: ty, Values: candidates(g, ty)}
	c.Path = []string{"m1-top", []string{"v", "v w", "v/w", "v%", "é"}[g.pick(5, "pathelem")]}
	c.Hops = []int{0, 0, 1, 2, 3, 3}[g.pick(6, "hops")]
	return c
}

func hasUint(t *sg.TypeSpec) bool {
	if strings.HasPrefix(t.Name, "uint") {
		return true
	}
	for _, m := range t.Members {
		if hasUint(m) {
			return true
		}
	}
	return false
}

func hasDecimal(t *sg.TypeSpec) bool {
	if t.Name == "decimal64" {
		return true
	}
	for _, m := range t.Members {
		if hasDecimal(m) {
			return true
		}
	}
	return false
}

// hasBigDecimal: a decimal64 range bound with more than 15 significant digits
func hasBigDecimal(t *sg.TypeSpec) bool {
	if t.Name == "decimal64" {
		for _, f := range strings.FieldsFunc(t.Range, func(r rune) bool { return r == '|' || r == '.' && false }) {
			for _, b := range strings.Split(f, "..") {
				if len(strings.Trim(strings.ReplaceAll(b, ".", ""), "+-0 ")) > 15 {
					return true
				}
			}
		}
	}
	for _, m := range t.Members {
		if hasBigDecimal(m) {
			return true
		}
	}
	return false
}

func isNumeric(s string) bool {
	_, ok := vt.ParseScaled(s, 30)
	return ok
}

// beyond64: the type is a plain decimal64 and the value, written with or without a decimal point, lies outside the
// 64-bit bounds of its fraction digits.  Such a value is refused by the exact bound check, before any range is compared
// in floating point, so the known finding about float comparison does not reach it.
func beyond64(t *sg.TypeSpec, v string) bool {
	if t.Name != "decimal64" || t.FD == 0 {
		return false
	}
	x, ok := vt.ParseScaled(v, t.FD)
	if !ok {
		return false
	}
	lo := new(big.Int).Lsh(big.NewInt(-1), 63)
	hi := new(big.Int).Sub(new(big.Int).Lsh(big.NewInt(1), 63), big.NewInt(1))
	return x.Cmp(lo) < 0 || x.Cmp(hi) > 0
}

func checkCase(c Case) fw.Outcome {
	out := fw.Outcome{Labels: []string{"type:" + c.Type.Name}}
	mods := modules(c.Type, c.Hops)
	res := sgc.Compile(mods, sgc.Opts{Features: sgc.AllFeatures{}})
	src := mods[1].Text()
	out.Key = src + strings.Join(c.Values, "\x00")
	if !res.OK() {
		if hasBigDecimal(c.Type) && fw.Known("c16.decimal64-float-compare") {
			// range parts that differ only beyond float64 precision collapse at compile time: same known finding
			out.Skip = true
			return out
		}
		out.Violation = fmt.Sprintf("a valid type does not compile: %s\n%s", res.Describe(), src)
		return out
	}
	typ := res.MS.Child("m1-top").Child("v").Type()
	sp := space(c.Type)
	nearBound := 0
	for _, v := range c.Values {
		want := sp.Contains(v)
		if fw.KnownQuiet("c16.decimal64-float-compare") && hasDecimal(c.Type) && strings.Count(strings.Trim(strings.ReplaceAll(v, ".", ""), "+-0"), "")-1 > 15 && isNumeric(v) && !beyond64(c.Type, v) {
			fw.Known("c16.decimal64-float-compare")
			continue
		}
		if hasUint(c.Type) && strings.HasPrefix(v, "-") && strings.Trim(v, "-0.") == "" {
			continue // "-0" for an unsigned type: grey
		}
		err := typ.Validate(nil, c.Path, v)
		if (err == nil) != want {
			out.Violation = fmt.Sprintf("value %q: member of the value space = %v, Validate says %v\n%s", v, want, err, src)
			return out
		}
		nearBound++
		// the same value reached by walking the schema: the value of the leaf, an entry of the leaf-list
		for _, name := range []string{"v", "vl", "kl", "kl+"} {
			if c.Type.Name == "empty" {
				break
			}
			toks := []string{"m1-top", name, v}
			if name == "kl+" {
				name = "kl"
				toks = []string{"m1-top", name, v, "other", "x"}
			}
			werr := res.MS.Validate(vctx{}, nil, toks)
			if (werr == nil) != want {
				out.Violation = fmt.Sprintf("value %q of %s reached through the schema: member of the value space = %v, Validate says %v\n%s", v, name, want, werr, src)
				return out
			}
			if werr != nil {
				wp, _, _, ok := merr.Fields(werr)
				wantPath := "/m1-top/" + name + "/" + strings.ReplaceAll(url.QueryEscape(v), "+", "%20")
				if !ok || wp != wantPath {
					out.Violation = fmt.Sprintf("rejection of %q for %s reached through the schema carries path %q, want %q (%v)\n%s", v, name, wp, wantPath, werr, src)
					return out
				}
			}
		}
		if err != nil {
			p, msg, tag, ok := merr.Fields(err)
			if !ok {
				out.Violation = fmt.Sprintf("rejection of %q is not a management error with path/message/app-tag: %T %v", v, err, err)
				return out
			}
			var wantPath string
			for _, e := range c.Path {
				wantPath += "/" + strings.ReplaceAll(url.QueryEscape(e), "+", "%20")
			}
			if c.Type.Name == "empty" {
				continue // the value of an empty leaf is reported against the leaf itself
			}
			if p != wantPath {
				out.Violation = fmt.Sprintf("rejection of %q carries path %q, want %q\n%s", v, p, wantPath, src)
				return out
			}
			// custom message / app-tag of the violated restriction (plain types: for a union the member that speaks is
			// not determined)
			if len(c.Type.Members) == 0 {
				wantMsg, wantTag, what := "", "", ""
				isInt := c.Type.Name == "int8" || strings.HasPrefix(c.Type.Name, "int") || strings.HasPrefix(c.Type.Name, "uint")
				switch {
				case (isInt || c.Type.Name == "decimal64") && isNumeric(v):
					wantMsg, wantTag, what = c.Type.RangeMsg, c.Type.RangeTag, "out-of-range"
					if isInt && wantTag == "" {
						wantTag = "range-violation" // the documented default
					}
				case c.Type.Name == "string":
					lenOK := false
					for _, iv := range sp.Lengths {
						n := big.NewInt(int64(len([]rune(v))))
						if n.Cmp(iv.Lo) >= 0 && n.Cmp(iv.Hi) <= 0 {
							lenOK = true
						}
					}
					if !lenOK {
						wantMsg, wantTag, what = c.Type.LenMsg, c.Type.LenTag, "wrong-length"
					} else {
						wantMsg, wantTag, what = c.Type.PatMsg, c.Type.PatTag, "pattern-violating"
					}
				}
				if wantMsg != "" && msg != wantMsg {
					out.Violation = fmt.Sprintf("%s value %q: message %q, custom error-message is %q\n%s", what, v, msg, wantMsg, src)
					return out
				}
				if wantTag != "" && tag != wantTag {
					out.Violation = fmt.Sprintf("%s value %q: app-tag %q, the error-app-tag to report is %q\n%s", what, v, tag, wantTag, src)
					return out
				}
			}
		}
	}
	out.NonTrivial = nearBound > 10
	return out
}

var values = fw.Register(&fw.Prop[Case]{
	ID: "C16", Name: "values",
	Rule: "types compiled from generated YANG (all integer widths with multi-part ranges anchored at the type bounds and near zero, decimal64 with fraction-digits 1/2/3/9/18, strings with length parts and pattern " +
		"lists with alternation/anchoring traps, enumerations, identityref over a three-level identity hierarchy across two modules, boolean, empty, nested unions) and candidate strings: every bound of every " +
		"range part and of the type itself -1/0/+1 unit rendered exactly, sign / leading-zero / trailing-zero variants, 18-20 digit values, fraction lengths fd-1/fd/fd+1, strings of 1-4-byte runes around each " +
		"length bound, a lexical corpus (blanks, exponent, hex, U+2212, full-width digits, case variants of names); oracle: exact membership in the reference value space (harness/vt); rejections must carry the " +
		"escaped path and the custom error-message / app-tag of the violated restriction; non-trivial = more than 10 candidates decided; distinct by type + candidates",
	Gen: genCase, Check: checkCase,
})

func TestMain(m *testing.M) { fw.Main(m) }

func TestValues(t *testing.T) { fw.Run(t, values) }
