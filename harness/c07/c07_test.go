// Package c07: YANG parsing is total and leaves nothing running.
package c07

import (
	"fmt"
	"os"
	"path/filepath"
	"regexp"
	"runtime"
	"strconv"
	"strings"
	"sync/atomic"
	"testing"
	"time"

	"verifharness/fw"
	"verifharness/yg"

	"github.com/sdcio/yang-parser/parse"
	"pgregory.net/rapid"
)

// Case: a text; in "prefixes" mode every prefix of it is parsed.
type Case struct {
	Text     fw.BStr `json:"text"`
	Prefixes bool    `json:"prefixes,omitempty"`
	// Reuse: the texts (the text and After, or all the prefixes) are parsed one after the other with ONE Tree object
	// (parse.New(name, nil) and then its Parse method each time): each parse is a parse like any other, whatever the
	// one before it ran into
	Reuse bool    `json:"reuse,omitempty"`
	After fw.BStr `json:"after,omitempty"`
}

// reparse parses text with the tree tr, which has parsed other texts before, and with a new tree; the outcomes must be
// the same.
func reparse(tr *parse.Tree, name, text string) string {
	type res struct {
		err  string
		root bool
		pan  any
	}
	run := func(t *parse.Tree) (r res, done bool) {
		done = fw.WithTimeout(20, func() {
			defer func() { r.pan = recover() }()
			got, err := t.Parse(text)
			if err != nil {
				r.err = err.Error()
			} else {
				r.root = got != nil && got.Root != nil
			}
		})
		return
	}
	a, ok := run(tr)
	if !ok {
		return fmt.Sprintf("Parse on a Tree that has parsed before did not return within the watchdog on %q", text)
	}
	if a.pan != nil {
		return fmt.Sprintf("Parse on a Tree that has parsed before panicked on %q: %v", text, a.pan)
	}
	b, ok := run(parse.New(name, nil))
	if !ok || b.pan != nil {
		return "" // the fresh parse is judged by parseOne
	}
	// (which of two missing statements an error names first is a matter of map order inside one parse; the verdict and
	// the place are not)
	loc := func(e string) string { return locRe.FindString(e) }
	if a.root != b.root || (a.err == "") != (b.err == "") || loc(a.err) != loc(b.err) {
		return fmt.Sprintf("text %q: a new Tree gives (error %q, root %v), a Tree that has parsed other texts before gives (error %q, root %v)", text, b.err, b.root, a.err, a.root)
	}
	return ""
}

func moduleStmt(g *yg.G) *yg.Stmt {
	mk := func(kw, arg string, kids ...*yg.Stmt) *yg.Stmt {
		s := &yg.Stmt{Kw: kw, T0: g.Trivia(false, 2), T1: g.Sep(), T2: g.Trivia(true, 1), Kids: kids}
		if arg != "" {
			q := []string{"u", "d", "s"}[g.Pick(3, "q")]
			if strings.ContainsAny(arg, " \n") && q == "u" {
				q = "d"
			}
			s.Pieces = []yg.Piece{{Q: q, Raw: arg}}
		}
		if len(kids) > 0 {
			s.T3 = g.Trivia(false, 2)
		}
		return s
	}
	leaf := func(name string) *yg.Stmt {
		return mk("leaf", name, mk("type", "string"), mk("description", "a leaf\n   with text"))
	}
	// typed arguments (checked while parsing) drawn from a pool of near misses and oddities
	odd := func() string { return oddArgs[g.Pick(len(oddArgs), "oddarg")] }
	typed := func(i int) *yg.Stmt {
		switch g.Pick(8, "typedkind") {
		case 0:
			return mk("leaf", fmt.Sprintf("t%d", i), mk("type", "int32", mk("range", odd())))
		case 1:
			if g.Pick(2, "oddpattern") == 0 {
				return mk("leaf", fmt.Sprintf("t%d", i), mk("type", "string", mk("pattern", oddPatterns[g.Pick(len(oddPatterns), "whichpattern")])))
			}
			return mk("leaf", fmt.Sprintf("t%d", i), mk("type", "string", mk("length", odd()), mk("pattern", odd())))
		case 2:
			return mk("leaf", fmt.Sprintf("t%d", i), mk("type", "enumeration", mk("enum", "e", mk("value", odd()))))
		case 3:
			return mk("leaf", fmt.Sprintf("t%d", i), mk("type", "decimal64", mk("fraction-digits", odd()), mk("range", odd())))
		case 4:
			return mk("leaf", fmt.Sprintf("t%d", i), mk("type", "bits", mk("bit", "b", mk("position", odd()))), mk("config", odd()), mk("mandatory", odd()), mk("status", odd()))
		case 5:
			return mk("list", fmt.Sprintf("t%d", i), mk("key", odd()), mk("unique", odd()), mk("min-elements", odd()), mk("max-elements", odd()), mk("ordered-by", odd()), leaf("k"))
		case 6:
			return mk("deviation", odd(), mk("deviate", odd()))
		default:
			return mk([]string{"revision", "augment", "if-feature", "yang-version", "include", "import", "identity", "feature", "typedef", "grouping", "uses", "anyxml", "choice", "rpc"}[g.Pick(14, "oddkw")], odd())
		}
	}
	body := []*yg.Stmt{mk("namespace", "urn:m"), mk("prefix", "m")}
	if g.Pick(4, "symbols") == 0 {
		// a well-formed module whose definitions meet in the symbol tables, which are filled after the last statement
		// has been read: names defined twice in one scope, names of an enclosing scope, names of built-in types, uses of
		// names that are not defined
		name := func() string { return symNames[g.Pick(len(symNames), "symname")] }
		def := func() *yg.Stmt {
			if g.Pick(3, "defkind") == 0 {
				return mk("grouping", name(), leaf("gl"))
			}
			return mk("typedef", name(), mk("type", []string{"string", "int8", name()}[g.Pick(3, "deftype")]))
		}
		var scope func(depth int) []*yg.Stmt
		scope = func(depth int) []*yg.Stmt {
			var out []*yg.Stmt
			for i, n := 0, g.Pick(3, "ndefs"); i < n; i++ {
				out = append(out, def())
			}
			if g.Pick(3, "usesname") == 0 {
				out = append(out, mk("uses", name()))
			}
			out = append(out, mk("leaf", fmt.Sprintf("sl%d", depth), mk("type", name())))
			if depth < 3 && g.Pick(3, "deeper") != 0 {
				kw := []string{"container", "list", "grouping", "rpc", "notification"}[g.Pick(5, "scopekw")]
				kids := scope(depth + 1)
				switch kw {
				case "list":
					kids = append([]*yg.Stmt{mk("key", "k"), leaf("k")}, kids...)
				case "rpc":
					kids = []*yg.Stmt{mk("input", "", kids...)}
				}
				out = append(out, mk(kw, fmt.Sprintf("sc%d", depth), kids...))
			}
			return out
		}
		return mk("module", "m", append(body, scope(0)...)...)
	}
	n := g.Pick(4, "nbody")
	for i := 0; i < n; i++ {
		if g.Pick(3, "typedstmt") == 1 {
			body = append(body, typed(i))
			continue
		}
		switch g.Pick(4, "bodykind") {
		case 0:
			body = append(body, leaf(fmt.Sprintf("l%d", i)))
		case 1:
			body = append(body, mk("container", fmt.Sprintf("c%d", i), leaf("x"), g.ExtStmt(1, 2)))
		case 2:
			body = append(body, g.ExtStmt(2, 2))
		default:
			body = append(body, mk("list", fmt.Sprintf("ls%d", i), mk("key", "k"), leaf("k")))
		}
	}
	// a statement of an earlier section written behind the body (out of place: refused, with a location like any error),
	// or two revisions in the wrong order
	if g.Pick(4, "outofplace") == 0 {
		late := [][2]string{{"revision", "2020-01-01"}, {"namespace", "urn:late"}, {"prefix", "late"}, {"yang-version", "1"}, {"organization", "late org"}, {"contact", "late"},
			{"description", "late description"}, {"reference", "late ref"}, {"include", "late-sub"}}[g.Pick(9, "latekind")]
		body = append(body, mk(late[0], late[1]))
		if g.Pick(2, "lateimport") == 0 {
			body = append(body, mk("import", "late-mod", mk("prefix", "lm")))
		}
	}
	return mk("module", "m", body...)
}

// patterns that the regular expression library treats in ways of its own (quotations, flags, nesting and repeat limits,
// POSIX classes, escapes it does not know): whatever the verdict, it is a verdict
var oddPatterns = []string{"\\Qa.b", "\\Q", "a\\Qb\\E\\Q", strings.Repeat("(", 998) + "a" + strings.Repeat(")", 998), strings.Repeat("(", 999) + "a" + strings.Repeat(")", 999), strings.Repeat("(", 1000) + strings.Repeat(")", 1000),
	"(?i)a", "(?", "(?P<n>a)", "(?P<n", "a{1000}", "a{1001}", "(a{1000}){1000}", "\\pN", "\\p{", "[[:alpha:]]", "[[:foo:]]", "\\C", "\\x{110000}", "\\x{", "\\8", "\\1", "a**", "a)(b", ")(", "[a", "\\", "a|*", "\\p{IsBasicLatin}", "[\\p{IsBasicLatin}]",
	"\xff", "(\xff)", "\\z", "\\A\\z", "^$", "[^]", "[]", "x{2}{3}", "(?s).", "(?-", "\\E"}

var oddArgs = []string{"-", "+", " ", "..", "1..", "..1", "|", "1|", "|1", "a..b", "-.5..1", "1..2 | -", "--1", "-0", "00", "0x", "1e1", "9999999999999999999999", "min", "max", "min..max", "max..min",
	"true", "false", "True", "current", "a b", "a/b", "/a:b", "/", "a:", ":a", "1a", "é", "\u00a0", "a\u00a0b", "2020-01-01", "2020-1-1", "2020-13-45", "unbounded", "*", "[", "(", "\\", "1", "0", "18", "19", "user", "system", "not-supported", "add", "replace", "delete", "k", "k k", "-", "- 1", "1 -", "+1", "1..-", "-..5", ".", "1.", ".1", "1.2.3",
	// arguments wrapped over lines, as long key and unique lists are
	"k\n      k2", "a\nb", "k\r\n  k2", "k \n", "\nk", "a\tb", "k\n\n k2", "1\n..\n5", "a/b\n c/d", "\n", "\r\n", "k\r"}

var symNames = []string{"t", "t", "u", "g", "string", "uint8", "int64", "leafref", "instance-identifier", "boolean", "empty", "union", "bits", "binary", "decimal64", "enumeration", "identityref", "m:t", "String"}

var hostile = []string{"\x00", "\xff", "\r", "\f", "\"", "'", "{", "}", ";", "+", "/*", "*/", "//", "\\", "\n", " ", "é", "\xc3", "a"}

func genCase(t *rapid.T) Case {
	g := &yg.G{T: t}
	var stmts []*yg.Stmt
	switch g.Pick(3, "shape") {
	case 0:
		stmts = []*yg.Stmt{moduleStmt(g)}
	case 1:
		stmts = []*yg.Stmt{g.ExtStmt(3, 3)}
	default:
		stmts = []*yg.Stmt{g.ExtStmt(1, 2), g.ExtStmt(1, 2)} // two top-level statements
	}
	text, _ := yg.Render(stmts, g.Trivia(false, 2))
	c := Case{}
	switch g.Pick(6, "mode") {
	case 0, 1:
		if len(text) > 400 {
			text = text[:400]
		}
		c.Prefixes = true
	case 2:
		// a byte flipped, deleted or doubled, or a hostile fragment inserted
		if len(text) > 0 {
			b := []byte(text)
			pos := g.Pick(len(b), "pos")
			switch g.Pick(4, "edit") {
			case 0:
				b[pos] = rapid.Byte().Draw(t, "byte")
			case 1:
				b = append(b[:pos:pos], b[pos+1:]...)
			case 2:
				b = append(b[:pos:pos], append([]byte{b[pos]}, b[pos:]...)...)
			default:
				b = append(b[:pos:pos], append([]byte(hostile[g.Pick(len(hostile), "hostile")]), b[pos:]...)...)
			}
			text = string(b)
		}
	case 3:
		// unbalanced braces
		d := g.Pick(200, "depth")
		text = strings.Repeat("a b {", d) + strings.Repeat("}", g.Pick(d+3, "closers"))
	case 4:
		parts := rapid.SliceOfN(rapid.SampledFrom(append(hostile, "module", "leaf x", "type string", "x:e")), 0, 12).Draw(t, "soup")
		text = strings.Join(parts, "")
	default:
		// the text as is (valid-ish)
	}
	c.Text = fw.BStr(text)
	if g.Pick(4, "reuse") == 2 {
		c.Reuse = true
		afters := []string{"module m { namespace \"urn:m\"; prefix m; }", "a { }", "module a { leaf", "x \"y\" module", "", "leaf x { type string; }", strings.Repeat(" ", 50) + "x y z", "a:b c;"}
		c.After = fw.BStr(afters[g.Pick(len(afters), "after")])
	}
	return c
}

// endState classifies where a text ends, by the harness's own scanner.
func endState(s string) string {
	state := "top"
	depth := 0
	var q byte
	for i := 0; i < len(s); i++ {
		c := s[i]
		switch state {
		case "top", "word":
			switch {
			case strings.HasPrefix(s[i:], "/*") && state == "top":
				state = "block-comment"
				i++
			case strings.HasPrefix(s[i:], "//") && state == "top":
				state = "line-comment"
				i++
			case c == '"' || (c == '\'' && state == "top"):
				q = c
				state = "quoted"
			case c == ' ' || c == '\t' || c == '\n' || c == '\r':
				state = "top"
			case c == ';':
				state = "top"
			case c == '{':
				depth++
				state = "top"
			case c == '}':
				depth--
				state = "top"
			default:
				state = "word"
			}
		case "quoted":
			if c == '\\' && q == '"' {
				state = "escape"
			} else if c == q {
				state = "top"
			}
		case "escape":
			state = "quoted"
		case "block-comment":
			if strings.HasPrefix(s[i:], "*/") {
				state = "top"
				i++
			}
		case "line-comment":
			if c == '\n' {
				state = "top"
			}
		}
	}
	if state == "top" && depth > 0 {
		return "open-block"
	}
	return state
}

var prefixParses atomic.Int64

var locRe = regexp.MustCompile(`([^\s:]+):(\d+):(\d+)`)

func lexerGoroutines() int {
	buf := make([]byte, 1<<20)
	n := runtime.Stack(buf, true)
	return strings.Count(string(buf[:n]), "parse.(*lexer).run")
}

// parseOne applies the oracle to one text; returns a violation message or "".
func parseOne(text string) (msg string, rejected bool) {
	// the name the input goes by: a bare file name or a path (the error must name the input as it was given, two
	// files of the same name in different directories are different inputs)
	// (a name may hold any character a file name may, a per-cent sign among them)
	name := []string{"in.yang", "dir/sub/in.yang", "./in.yang", "/usr/share/yang/vendor-a/in.yang", "a b/in.yang", "../in.yang", "in.yang", "100%/in%sv%d.yang", "a%.yang"}[len(text)%9]
	before := runtime.NumGoroutine()
	var tree *parse.Tree
	var err error
	var pan any
	// (the documented two-step form New(...).Parse(text) is the same parse by another door)
	twoStep := len(text)%3 == 1
	done := fw.WithTimeout(20, func() {
		defer func() { pan = recover() }()
		if twoStep {
			tree, err = parse.New(name, nil).Parse(text)
			if err != nil {
				tree = nil
			}
		} else {
			tree, err = parse.Parse(name, text, nil)
		}
	})
	if !done {
		return fmt.Sprintf("parse.Parse did not return within the watchdog on %q", text), false
	}
	if pan != nil {
		return fmt.Sprintf("parse.Parse panicked on %q: %v", text, pan), false
	}
	if err == nil {
		if tree == nil || tree.Root == nil {
			return fmt.Sprintf("nil error but no root statement for %q", text), false
		}
	} else {
		rejected = true
		txt := err.Error()
		ok := false
		for _, m := range locRe.FindAllStringSubmatch(txt, -1) {
			if !strings.HasSuffix(name, m[1]) || !strings.Contains(txt, name+":"+m[2]+":"+m[3]) {
				continue
			}
			line, _ := strconv.Atoi(m[2])
			col, _ := strconv.Atoi(m[3])
			lines := strings.Split(text, "\n")
			if line >= 1 && line <= len(lines) && col >= 0 && col <= len(lines[line-1]) {
				ok = true
				break
			}
		}
		if !ok {
			return fmt.Sprintf("error %q does not name the input and a line:column inside it (text %q)", txt, text), true
		}
	}
	// goroutine census: the lexer goroutine of this call must be gone
	deadline := time.Now().Add(300 * time.Millisecond)
	for {
		// cheap test first; the stack dump only when the count is up
		if runtime.NumGoroutine() <= before || lexerGoroutines() == 0 {
			break
		}
		if time.Now().After(deadline) {
			return fmt.Sprintf("a lexer goroutine started by parse.Parse is still alive 300ms after it returned (err=%v) on %q", err, text), rejected
		}
		time.Sleep(200 * time.Microsecond)
	}
	return "", rejected
}

func checkCase(c Case) fw.Outcome {
	text := string(c.Text)
	out := fw.Outcome{Key: text}
	if !c.Prefixes {
		st := endState(text)
		out.Labels = append(out.Labels, "end:"+st)
		msg, rej := parseOne(text)
		if rej {
			out.Labels = append(out.Labels, "rejected")
		} else {
			out.Labels = append(out.Labels, "accepted")
		}
		out.NonTrivial = st != "top" || rej
		out.Violation = msg
		if msg == "" && c.Reuse {
			out.Labels = append(out.Labels, "tree-reused")
			tr := parse.New("in.yang", nil)
			for _, t := range []string{text, string(c.After), text} {
				if m := reparse(tr, "in.yang", t); m != "" {
					out.Violation = m
					break
				}
			}
		}
		return out
	}
	out.Labels = append(out.Labels, "all-prefixes")
	seen := map[string]bool{}
	var shared *parse.Tree
	if c.Reuse {
		out.Labels = append(out.Labels, "tree-reused")
		shared = parse.New("in.yang", nil)
	}
	for i := 0; i <= len(text); i++ {
		p := text[:i]
		if shared != nil {
			if m := reparse(shared, "in.yang", p); m != "" {
				out.Violation = m
				return out
			}
		}
		st := endState(p)
		if !seen[st] {
			seen[st] = true
			out.Labels = append(out.Labels, "end:"+st)
		}
		prefixParses.Add(1)
		if msg, _ := parseOne(p); msg != "" {
			out.Violation = msg
			return out
		}
	}
	out.NonTrivial = len(seen) >= 3
	return out
}

var total = fw.Register(&fw.Prop[Case]{
	ID: "C07", Name: "total",
	Rule: "YANG texts with every quoting form, comments and nested blocks from the statement generator, and EVERY PREFIX of them (each byte offset is a way to end inside a keyword, word, " +
		"quoted string, escape, comment, concatenation or block); the same with a byte flipped / deleted / doubled or a hostile fragment (NUL, 0xFF, CR, FF, quotes, comment openers) inserted; " +
		"unbalanced braces up to depth 200; fragment soups; oracle: returns within a watchdog, no panic, nil error implies a root statement, a non-nil error names the input and a line:column " +
		"inside it, and the number of goroutines inside parse.(*lexer).run returns to its pre-call value; in a quarter of the cases the texts (all prefixes, or the text, a second text and the text again) " +
		"are also parsed one after the other with one Tree object, and every outcome (verdict, and for an error the place it names) equals that of a new Tree; non-trivial = the text ends inside a token/string/comment/block or is rejected",
	Gen: genCase, Check: checkCase,
	MinLabel: []string{"all-prefixes", "end:word", "end:quoted", "end:escape", "end:block-comment", "end:line-comment", "end:open-block", "rejected", "accepted"},
})

func TestMain(m *testing.M) { fw.Main(m) }

func TestTotal(t *testing.T) {
	fw.Run(t, total)
	fw.NoteExhaustive("total", "every prefix of every text drawn in prefix mode: total parses", prefixParses.Load())
}

// FuzzParse: coverage-guided byte-level search with the totality oracle inside the target.
func FuzzParse(f *testing.F) {
	repo := os.Getenv("VERIF_REPO")
	if repo == "" {
		repo = "/repo"
	}
	files, _ := filepath.Glob(filepath.Join(repo, "parse", "testschemas", "*.yang"))
	for i, fn := range files {
		if b, err := os.ReadFile(fn); err == nil && len(b) < 3000 && i%3 == 0 {
			f.Add(string(b))
		}
	}
	for _, s := range []string{"container a", "a \"b", "a 'b", "a \"b\\", "a /* c", "a // c", "a b {", "a b { c d; }", "a \"x\" + \"y\";", "a b;}", "module m { namespace \"urn:m\"; prefix m; }", "\xff", "a\x00b c;"} {
		f.Add(s)
	}
	f.Fuzz(func(t *testing.T, text string) {
		if len(text) > 4096 {
			return
		}
		if msg, _ := parseOne(text); msg != "" {
			c := Case{Text: fw.BStr(text)}
			fw.FuzzReport(total, c, fw.Outcome{Violation: msg})
			t.Fatal(msg)
		}
	})
}
