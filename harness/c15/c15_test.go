// Package c15: embedded XPath is checked at compile time in the right prefix scope.
package c15

import (
	"fmt"
	"regexp"
	"strconv"
	"strings"
	"testing"

	"verifharness/fw"
	"verifharness/sg"
	"verifharness/sgc"

	"github.com/sdcio/yang-parser/schema"
	"github.com/sdcio/yang-parser/xpath"
	"pgregory.net/rapid"
	"unicode/utf8"
	"verifharness/c04"
	"verifharness/xp"
)

// Case: where the expression is written, what kind of statement carries it, which expression.
type Case struct {
	Placement string `json:"placement"`           // direct grouping-local grouping-remote augment-from-user augment-into-user typedef-remote submodule grouping-unused
	Carrier   string `json:"carrier"`             // must when path
	Expr      int    `json:"expr"`                // index into the expression table of the carrier
	UserBinds string `json:"user_binds"`          // how the using module M2 binds prefix x: other | none | same
	Companion int    `json:"companion,omitempty"` // 1/2: M2 also writes the same expression on a leaf of its own, before/after the arriving one
	// OwnClash: M2 knows M1 under the prefix "mone" and binds M1's own prefix "m1" to another module (mb): "m1:" in text
	// written in M1 still means M1 after that text has been copied into M2
	OwnClash bool `json:"own_clash,omitempty"`
	// SubClash: M1 and M2 each include a further submodule that binds the prefixes x and y to other modules than the
	// including module does (1), those submodules in turn including one more with yet another binding (2); the bindings
	// of an included submodule are its own and must not show in the module
	SubClash int `json:"subclash,omitempty"`
	// SkipUnknown: compiled with the option that tolerates references into modules that are not loaded; every module
	// is loaded here, so nothing changes: an unbound prefix is still an error
	SkipUnknown bool `json:"skipunknown,omitempty"`
	// CRLF: the files have CR LF line ends; the line an error names is still the line of the statement
	CRLF bool `json:"crlf,omitempty"`
}

type exprSpec struct {
	text     string
	valid    bool     // syntactically valid
	prefixes []string // prefixes used
}

var xpathExprs = []exprSpec{
	{"x:foo = 'v'", true, []string{"x"}},
	{"../x:foo/x:bar != 1", true, []string{"x"}},
	{"count(/x:top/x:ls) > 0 and x:a", true, []string{"x"}},
	{"x:foo[x:k = current()/../y:name]/m1:v = 'a'", true, []string{"x", "y", "m1"}},
	{"/m1:m1-top/m1:anchor = x:foo", true, []string{"x", "m1"}},
	{"string-length(x:*) < 5 or y:z", true, []string{"x", "y"}},
	{"foo = 'plain'", true, nil},
	{"x:foo =", false, []string{"x"}},
	{"x:foo/@attr = 1", false, []string{"x"}},
	{"x:foo = 'unterminated", false, []string{"x"}},
	{"nosuchfn(x:foo)", false, []string{"x"}},
	{"x:foo//x:bar", false, []string{"x"}},
	{"concat(x:foo)", false, []string{"x"}},
	{"zz:foo = 1", true, []string{"zz"}},
	{"x:foo and zz:bar", true, []string{"x", "zz"}},
	// (appended: replays refer to the table by index) the prefix of a namespace wildcard is a prefix like any other
	{"zz:* = 1", true, []string{"zz"}},
	{"count(x:*) > 0", true, []string{"x"}},
	{"../x:*[. = 'a'] or y:*", true, []string{"x", "y"}},
	{"not(x:*)", true, []string{"x"}},
	// operator names are case sensitive: in operator position anything else is a syntax error
	{"x:a = 1 AND x:b = 2", false, []string{"x"}},
	{"x:a Or x:b", false, []string{"x"}},
	{"../x:n DIV 2 = 1", false, []string{"x"}},
	{"x:n Mod 2 = 1", false, []string{"x"}},
	{"x:a = 1 and x:b = 2 or x:n div 2 = 1", true, []string{"x"}},
	// an abbreviated step takes no predicate
	{"..[x:kind = 'x']", false, []string{"x"}},
	{".[. = 'x']", false, nil},
	{"../..[x:item]/x:item[x:name = 'y']", false, []string{"x"}},
	{"count(../../x:item/.[x:kind = 'x']) > 0", false, []string{"x"}},
	{"../x:item[x:kind = 'x']/..", true, []string{"x"}},
}

var pathExprs = []exprSpec{
	{"/x:top/x:leaf", true, []string{"x"}},
	{"../x:sibling", true, []string{"x"}},
	{"/x:top/x:ls[x:k = current()/../m1:ref]/y:v", true, []string{"x", "m1", "y"}},
	{"../../plain/leaf", true, nil},
	{"/x:top/x:leaf/", false, []string{"x"}},
	{"x:top/leaf", false, []string{"x"}},
	{"/x:top[1]/x:leaf", false, []string{"x"}},
	{"/x:top/*", false, []string{"x"}},
	{"/zz:top/zz:leaf", true, []string{"zz"}},
	{"/x:top/zz:leaf", true, []string{"x", "zz"}},
	// (appended) the key expression of a predicate is a plain path: no predicate of its own, no other function
	{"/x:top/x:ls[x:k = current()/../x:a[x:b = current()/../x:c]/x:d]/x:v", false, []string{"x"}},
	{"/x:top/x:ls[x:k = current()/../x:a[x:b = current()/../x:c]/x:d]", false, []string{"x"}},
	{"/x:top/x:ls[x:k = current()/x:a]/x:v", false, []string{"x"}},
	{"/x:top/x:ls[x:k = string(current()/../x:a)]/x:v", false, []string{"x"}},
	{"/x:top/x:ls[x:k = current()/../x:a][x:j = current()/../../y:b]/x:v", true, []string{"x", "y"}},
}

var placements = []string{"direct", "grouping-local", "grouping-remote", "augment-from-user", "augment-into-user", "typedef-remote", "submodule", "grouping-unused", "grouping-nested-remote",
	"uses-when-remote", "refine-must-remote", "deviate-add-must", "augment-when-remote", "typedef-unused", "submodule-noimport", "submodule-grouping-unused", "submodule-typedef-unused", "deviate-add-must-hidden"}

// carriers: must, when, leafref path, leafref path as a member of a union ("upath")
var carriers = []string{"must", "when", "path", "upath"}

func table(carrier string) []exprSpec {
	if carrier == "path" || carrier == "upath" {
		return pathExprs
	}
	return xpathExprs
}

func genCase(t *rapid.T) Case {
	c := Case{Placement: placements[rapid.IntRange(0, len(placements)-1).Draw(t, "placement")],
		Carrier:   carriers[rapid.IntRange(0, len(carriers)-1).Draw(t, "carrier")],
		UserBinds: []string{"other", "none", "same"}[rapid.IntRange(0, 2).Draw(t, "binds")]}
	if only := onlyCarrier[c.Placement]; only != "" && !(only == "path" && c.Carrier == "upath") {
		c.Carrier = only
	}
	c.Expr = rapid.IntRange(0, len(table(c.Carrier))-1).Draw(t, "expr")
	if companionPlacements[c.Placement] {
		c.Companion = rapid.IntRange(0, 2).Draw(t, "companion")
	}
	c.SubClash = []int{0, 0, 1, 2}[rapid.IntRange(0, 3).Draw(t, "subclash")]
	c.OwnClash = rapid.IntRange(0, 2).Draw(t, "ownclash") == 0
	c.SkipUnknown = rapid.IntRange(0, 3).Draw(t, "skipunknown") == 0
	c.CRLF = rapid.IntRange(0, 3).Draw(t, "crlf") == 0
	return c
}

// placements in which the expression written in M1 arrives in M2's tree: there M2 may carry the same text itself
var companionPlacements = map[string]bool{"grouping-remote": true, "grouping-nested-remote": true, "typedef-remote": true}

// placements that exist for one carrier only
var onlyCarrier = map[string]string{"typedef-remote": "path", "typedef-unused": "path", "submodule-typedef-unused": "path", "uses-when-remote": "when", "augment-when-remote": "when", "refine-must-remote": "must", "deviate-add-must": "must", "deviate-add-must-hidden": "must"}

const (
	nsA = "urn:verif:ma"
	nsB = "urn:verif:mb"
	nsC = "urn:verif:mc"
)

func leaf(name string) *sg.Node {
	return &sg.Node{Kind: "leaf", Name: name, Type: &sg.TypeSpec{Name: "string"}}
}

// carrierNode builds the data node that carries the expression.
func carrierNode(c Case, e string) *sg.Node {
	n := leaf("carrier")
	switch c.Carrier {
	case "must":
		n.Musts = []sg.Must{{Expr: e}}
	case "when":
		n.When = e
	case "upath":
		n.Type = pathType(c, e)
	default:
		n.Type = &sg.TypeSpec{Name: "leafref", Path: e}
	}
	return n
}

// pathType: the leafref type carrying the path, for "upath" as the second member of a union
func pathType(c Case, e string) *sg.TypeSpec {
	lr := &sg.TypeSpec{Name: "leafref", Path: e}
	if c.Carrier == "upath" {
		return &sg.TypeSpec{Name: "union", Members: []*sg.TypeSpec{{Name: "int8"}, lr}}
	}
	return lr
}

// build returns the module set, the name of the module whose text contains the expression, and the
// prefix bindings (prefix -> namespace) of that module.
func build(c Case) (mods []*sg.Mod, definer string, binds map[string]string, userBinds map[string]string) {
	e := table(c.Carrier)[c.Expr].text
	ma := &sg.Mod{Name: "ma", Prefix: "ma", Nodes: []*sg.Node{{Kind: "container", Name: "ma-top", Kids: []*sg.Node{leaf("x")}}}}
	mb := &sg.Mod{Name: "mb", Prefix: "mb", Nodes: []*sg.Node{{Kind: "container", Name: "mb-top", Kids: []*sg.Node{leaf("x")}}}}
	mc := &sg.Mod{Name: "mc", Prefix: "mc", Nodes: []*sg.Node{{Kind: "container", Name: "mc-top", Kids: []*sg.Node{leaf("x")}}}}
	// the defining module M1 binds x -> ma, y -> mc
	m1 := &sg.Mod{Name: "m1", Prefix: "m1", Imports: []sg.Import{{Mod: "ma", Prefix: "x"}, {Mod: "mc", Prefix: "y"}},
		Nodes: []*sg.Node{{Kind: "container", Name: "m1-top", Kids: []*sg.Node{leaf("anchor")}}}}
	// the using module M2 binds x differently (or not at all), and y -> ma
	m2 := &sg.Mod{Name: "m2", Prefix: "m2", Imports: []sg.Import{{Mod: "m1", Prefix: "m1"}},
		Nodes: []*sg.Node{{Kind: "container", Name: "m2-top", Kids: []*sg.Node{leaf("anchor")}}}}
	switch c.UserBinds {
	case "other":
		m2.Imports = append(m2.Imports, sg.Import{Mod: "mb", Prefix: "x"}, sg.Import{Mod: "ma", Prefix: "y"})
	case "same":
		m2.Imports = append(m2.Imports, sg.Import{Mod: "ma", Prefix: "x"}, sg.Import{Mod: "mc", Prefix: "y"})
	}
	bindsM1 := map[string]string{"x": nsA, "y": nsC, "m1": "urn:verif:m1", "": "urn:verif:m1"}
	bindsM2 := map[string]string{"m1": "urn:verif:m1", "m2": "urn:verif:m2", "": "urn:verif:m2"}
	u1 := "m1" // the prefix under which M2 knows M1
	if c.OwnClash {
		u1 = "mone"
		m2.Imports[0].Prefix = "mone"
		m2.Imports = append(m2.Imports, sg.Import{Mod: "mb", Prefix: "m1"})
		bindsM2["m1"], bindsM2["mone"] = nsB, "urn:verif:m1"
	}
	switch c.UserBinds {
	case "other":
		bindsM2["x"], bindsM2["y"] = nsB, nsA
	case "same":
		bindsM2["x"], bindsM2["y"] = nsA, nsC
	}
	mods = []*sg.Mod{ma, mb, mc, m1, m2}
	userBinds = bindsM2
	cn := carrierNode(c, e)
	definer, binds = "m1", bindsM1
	switch c.Placement {
	case "direct":
		m1.Nodes[0].Kids = append(m1.Nodes[0].Kids, cn)
	case "grouping-local":
		m1.Groupings = []*sg.Grouping{{Name: "g", Kids: []*sg.Node{cn}}}
		m1.Nodes[0].Kids = append(m1.Nodes[0].Kids, &sg.Node{Kind: "uses", Name: "g"})
	case "grouping-remote":
		m1.Groupings = []*sg.Grouping{{Name: "g", Kids: []*sg.Node{cn}}}
		m2.Nodes[0].Kids = append(m2.Nodes[0].Kids, &sg.Node{Kind: "uses", Name: u1 + ":g"})
	case "grouping-nested-remote":
		m1.Groupings = []*sg.Grouping{{Name: "inner", Kids: []*sg.Node{cn}}, {Name: "g", Kids: []*sg.Node{{Kind: "container", Name: "wrap", Kids: []*sg.Node{{Kind: "uses", Name: "inner"}}}}}}
		m2.Nodes[0].Kids = append(m2.Nodes[0].Kids, &sg.Node{Kind: "uses", Name: u1 + ":g"})
	case "grouping-unused":
		m1.Groupings = []*sg.Grouping{{Name: "g", Kids: []*sg.Node{cn}}}
	case "augment-from-user":
		// written in M2, lands in M1's tree
		m2.Augments = []*sg.Augment{{Target: "/" + u1 + ":m1-top", Kids: []*sg.Node{cn}}}
		definer, binds = "m2", bindsM2
	case "augment-into-user":
		// written in M1 (which must then import M2): use a third module M3 as the target instead to avoid an import cycle
		m3 := &sg.Mod{Name: "m3", Prefix: "m3", Nodes: []*sg.Node{{Kind: "container", Name: "m3-top", Kids: []*sg.Node{leaf("anchor")}}}}
		m1.Imports = append(m1.Imports, sg.Import{Mod: "m3", Prefix: "m3"})
		m1.Augments = []*sg.Augment{{Target: "/m3:m3-top", Kids: []*sg.Node{cn}}}
		mods = append(mods, m3)
		binds["m3"] = "urn:verif:m3"
	case "typedef-remote":
		m1.Typedefs = []*sg.Typedef{{Name: "t", Type: pathType(c, e)}}
		m2.Nodes[0].Kids = append(m2.Nodes[0].Kids, &sg.Node{Kind: "leaf", Name: "carrier", Type: &sg.TypeSpec{Name: u1 + ":t"}})
	case "typedef-unused":
		m1.Typedefs = []*sg.Typedef{{Name: "t", Type: pathType(c, e)}}
	case "uses-when-remote":
		// the when is written on the uses in M2; the node it lands on comes from M1's grouping
		m1.Groupings = []*sg.Grouping{{Name: "g", Kids: []*sg.Node{leaf("carrier")}}}
		m2.Nodes[0].Kids = append(m2.Nodes[0].Kids, &sg.Node{Kind: "uses", Name: u1 + ":g", When: e})
		definer, binds = "m2", bindsM2
	case "augment-when-remote":
		// the when is written on an augment in M2 whose target is in M1's tree
		m2.Augments = []*sg.Augment{{Target: "/" + u1 + ":m1-top", When: e, Kids: []*sg.Node{leaf("carrier")}}}
		definer, binds = "m2", bindsM2
	case "refine-must-remote":
		// the must is written in a refine in M2; the refined node comes from M1's grouping
		m1.Groupings = []*sg.Grouping{{Name: "g", Kids: []*sg.Node{leaf("carrier")}}}
		m2.Nodes[0].Kids = append(m2.Nodes[0].Kids, &sg.Node{Kind: "uses", Name: u1 + ":g", Refines: []sg.Refine{{Target: "carrier", Stmts: []string{"must " + sg.Quote(e) + ";"}}}})
		definer, binds = "m2", bindsM2
	case "deviate-add-must":
		// the must is written in a deviation in M2; the deviated node is in M1's tree
		m1.Nodes[0].Kids = append(m1.Nodes[0].Kids, leaf("carrier"))
		m2.Deviations = []*sg.Deviation{{Target: "/" + u1 + ":m1-top/" + u1 + ":carrier", Deviates: []sg.Deviate{{Kind: "add", Stmts: []string{"must " + sg.Quote(e) + ";"}}}}}
		definer, binds = "m2", bindsM2
	case "deviate-add-must-hidden":
		// ... and the deviated node depends on a feature that is not enabled (the set is compiled without features): the
		// node is not built, the must is part of M2's text all the same
		m1.Features = []*sg.Feature{{Name: "hid"}}
		hidden := leaf("carrier")
		hidden.IfFeatures = []string{"hid"}
		m1.Nodes[0].Kids = append(m1.Nodes[0].Kids, hidden)
		m2.Deviations = []*sg.Deviation{{Target: "/" + u1 + ":m1-top/" + u1 + ":carrier", Deviates: []sg.Deviate{{Kind: "add", Stmts: []string{"must " + sg.Quote(e) + ";"}}}}}
		definer, binds = "m2", bindsM2
	case "submodule-grouping-unused", "submodule-typedef-unused":
		// a definition nobody uses, written in a submodule: its expressions are checked all the same
		sub := &sg.Mod{Name: "m1-sub", Prefix: "m1", BelongsTo: "m1", Imports: []sg.Import{{Mod: "ma", Prefix: "x"}, {Mod: "mc", Prefix: "y"}}}
		if c.Placement == "submodule-grouping-unused" {
			sub.Groupings = []*sg.Grouping{{Name: "sg", Kids: []*sg.Node{cn}}}
		} else {
			sub.Typedefs = []*sg.Typedef{{Name: "st", Type: pathType(c, e)}}
		}
		m1.Includes = []string{"m1-sub"}
		mods = append(mods, sub)
		definer = "m1-sub"
	case "submodule", "submodule-noimport":
		// written in a submodule of M1 that has its own import binding and the belongs-to prefix m1; what the module
		// itself (or another submodule included before) binds to the same prefixes must not matter
		sub := &sg.Mod{Name: "m1-sub", Prefix: "m1", BelongsTo: "m1", Imports: []sg.Import{{Mod: "ma", Prefix: "x"}, {Mod: "mc", Prefix: "y"}},
			Nodes: []*sg.Node{{Kind: "container", Name: "m1-sub-top", Kids: []*sg.Node{cn}}}}
		m1.Includes = []string{"m1-sub"}
		switch c.UserBinds {
		case "other":
			// the module binds the prefixes to other modules than its submodule does
			m1.Imports = []sg.Import{{Mod: "mb", Prefix: "x"}, {Mod: "ma", Prefix: "y"}}
		case "none":
			m1.Imports = nil
			// ... and a sibling submodule, included first, binds them differently
			sib := &sg.Mod{Name: "m1-a-sib", Prefix: "m1", BelongsTo: "m1", Imports: []sg.Import{{Mod: "mb", Prefix: "x"}, {Mod: "ma", Prefix: "y"}}}
			m1.Includes = []string{"m1-a-sib", "m1-sub"}
			mods = append(mods, sib)
		}
		if c.Placement == "submodule-noimport" {
			// the submodule imports nothing: the prefixes are unknown there whatever the module imports
			sub.Imports = nil
			binds = map[string]string{"m1": "urn:verif:m1", "": "urn:verif:m1"}
		}
		mods = append(mods, sub)
		definer = "m1-sub"
	}
	if c.SubClash > 0 {
		for _, m := range []*sg.Mod{m1, m2} {
			clash := &sg.Mod{Name: m.Name + "-zclash", Prefix: m.Prefix, BelongsTo: m.Name, Imports: []sg.Import{{Mod: "mb", Prefix: "y"}, {Mod: "mc", Prefix: "x"}}}
			if m == m1 {
				clash.Imports = []sg.Import{{Mod: "mb", Prefix: "x"}, {Mod: "ma", Prefix: "y"}}
			}
			m.Includes = append(m.Includes, clash.Name)
			mods = append(mods, clash)
			if c.SubClash == 2 {
				deeper := &sg.Mod{Name: m.Name + "-zdeeper", Prefix: m.Prefix, BelongsTo: m.Name, Imports: []sg.Import{{Mod: "mc", Prefix: "y"}, {Mod: "mb", Prefix: "x"}, {Mod: "ma", Prefix: "zz"}}}
				clash.Includes = []string{deeper.Name}
				mods = append(mods, deeper)
			}
		}
	}
	if c.Companion != 0 && companionPlacements[c.Placement] {
		// the same text written in M2 itself means what M2's imports say
		cc := carrierNode(c, e)
		cc.Name = "companion"
		if c.Companion == 1 {
			m2.Nodes[0].Kids = append([]*sg.Node{cc}, m2.Nodes[0].Kids...)
		} else {
			m2.Nodes[0].Kids = append(m2.Nodes[0].Kids, cc)
		}
	}
	return
}

var locRe = regexp.MustCompile(`([A-Za-z0-9_\-]+)\.yang:(\d+):(\d+)`)

var namePushRe = regexp.MustCompile(`Name-Push\t\{(\S*) (\S+)\}`)

func findCarrier(ms schema.ModelSet) schema.Node { return findLeaf(ms, "carrier") }

func findLeaf(ms schema.ModelSet, name string) schema.Node {
	var found schema.Node
	var walk func(n schema.Node)
	walk = func(n schema.Node) {
		if n.Name() == name {
			found = n
			return
		}
		for _, c := range n.Children() {
			walk(c)
		}
	}
	walk(ms)
	return found
}

func checkCase(c Case) fw.Outcome {
	spec := table(c.Carrier)[c.Expr]
	out := fw.Outcome{Labels: []string{"placement:" + c.Placement, "carrier:" + c.Carrier}, Key: fmt.Sprint(c)}
	mods, definer, binds, userBinds := build(c)
	unknownPrefix := false
	for _, p := range spec.prefixes {
		if _, ok := binds[p]; !ok {
			unknownPrefix = true
		}
		if _, ok := userBinds[p]; !ok && c.Companion != 0 {
			// the using module writes the same text itself and does not bind the prefix
			unknownPrefix = true
		}
	}
	if c.Companion != 0 {
		out.Labels = append(out.Labels, "companion")
	}
	wantOK := spec.valid && !unknownPrefix
	out.NonTrivial = c.UserBinds != "same" && len(spec.prefixes) > 0
	if c.Placement == "grouping-unused" && !wantOK && fw.Known("c15.unused-grouping-not-checked") {
		out.Skip = true
		return out
	}
	copts := sgc.Opts{Features: sgc.AllFeatures{}, SkipUnknown: c.SkipUnknown, CRLF: c.CRLF}
	if c.CRLF {
		out.Labels = append(out.Labels, "crlf")
	}
	if c.Placement == "deviate-add-must-hidden" {
		copts.Features = sgc.FeatureSet{}
	}
	res := sgc.Compile(mods, copts)
	var texts []string
	defText := ""
	for _, m := range mods {
		texts = append(texts, m.Text())
		if m.Name == definer {
			defText = m.Text()
		}
	}
	src := strings.Join(texts, "\n")
	if res.Hang || res.Panic != "" || res.ParseErr {
		out.Violation = fmt.Sprintf("%v: %s\n%s", c, res.Describe(), src)
		return out
	}
	if wantOK {
		out.Labels = append(out.Labels, "expect:accept")
	} else {
		out.Labels = append(out.Labels, "expect:reject")
	}
	if res.OK() != wantOK {
		out.Violation = fmt.Sprintf("%s %q written in %s (placement %s, user binds x: %s): expected compile ok=%v, got %s\n%s", c.Carrier, spec.text, definer, c.Placement, c.UserBinds, wantOK, res.Describe(), src)
		return out
	}
	if !wantOK && c.Companion != 0 {
		// which of the two statements the error names depends on the build order; locations are decided by the cases without a companion
		return out
	}
	if !wantOK {
		// the error names the statement that carries the expression: file of the defining module, a line between the
		// enclosing data node (or typedef) and the expression, and the expression text itself
		txt := res.Err.Error()
		lines := strings.Split(defText, "\n")
		exprLine := 0
		for i, l := range lines {
			if strings.Contains(l, strings.ReplaceAll(spec.text, `"`, `\"`)) {
				exprLine = i + 1
			}
		}
		parentLine := exprLine
		for i := exprLine - 1; i >= 1; i-- {
			t := strings.TrimSpace(lines[i-1])
			if strings.HasPrefix(t, "leaf ") || strings.HasPrefix(t, "typedef ") || strings.HasPrefix(t, "uses ") || strings.HasPrefix(t, "augment ") || strings.HasPrefix(t, "deviation ") {
				parentLine = i
				break
			}
		}
		// a statement attached from elsewhere (when on uses/augment, must in refine or deviate add) is carried, in the
		// compiled schema, by the node it lands on: naming that node is accepted as well
		landing := map[string]int{}
		if onlyCarrier[c.Placement] != "" && c.Placement != "typedef-remote" {
			for _, m := range mods {
				for i, l := range strings.Split(m.Text(), "\n") {
					if strings.HasPrefix(strings.TrimSpace(l), "leaf carrier") {
						landing[m.Name] = i + 1
					}
				}
			}
		}
		okLoc := false
		for _, m := range locRe.FindAllStringSubmatch(txt, -1) {
			l, _ := strconv.Atoi(m[2])
			if m[1] == definer && l >= parentLine && l <= exprLine {
				okLoc = true
			}
			if ll, ok := landing[m[1]]; ok && ll == l {
				okLoc = true
			}
		}
		if !okLoc {
			out.Violation = fmt.Sprintf("error for %s %q does not name the carrying statement (%s.yang lines %d-%d): %q\n%s", c.Carrier, spec.text, definer, parentLine, exprLine, txt, src)
			return out
		}
		if spec.valid == false && !strings.Contains(txt, spec.text) {
			out.Violation = fmt.Sprintf("error for the invalid %s expression does not quote it: %q", c.Carrier, txt)
		}
		return out
	}
	if strings.HasSuffix(c.Placement, "-unused") || strings.HasSuffix(c.Placement, "-hidden") {
		return out
	}
	// on success: every prefixed step carries the namespace bound in the DEFINING module
	if msg := verifyLeaf(res.MS, "carrier", c, spec, binds, definer, src); msg != "" {
		out.Violation = msg
		return out
	}
	if c.Companion != 0 {
		if msg := verifyLeaf(res.MS, "companion", c, spec, userBinds, "m2", src); msg != "" {
			out.Violation = msg
		}
	}
	return out
}

// verifyLeaf: the machine of the named leaf holds the source text and every prefixed step carries the namespace that
// the module in which the statement is written binds to the prefix.
func verifyLeaf(ms schema.ModelSet, name string, c Case, spec exprSpec, binds map[string]string, definer, src string) string {
	n := findLeaf(ms, name)
	if n == nil {
		return name + " leaf not found in the compiled schema\n" + src
	}
	var mach *xpath.Machine
	switch c.Carrier {
	case "must":
		if len(n.Musts()) == 1 {
			mach = n.Musts()[0].Mach
		}
	case "when":
		if len(n.Whens()) >= 1 {
			mach = n.Whens()[0].Mach
		}
	default:
		if lr, ok := n.Type().(schema.Leafref); ok {
			mach = lr.Mach()
		}
		if u, ok := n.Type().(schema.Union); ok {
			for _, mt := range u.Typs() {
				if lr, ok := mt.(schema.Leafref); ok {
					mach = lr.Mach()
				}
			}
		}
	}
	if mach == nil {
		return fmt.Sprintf("no %s machine on the %s leaf\n%s", c.Carrier, name, src)
	}
	if mach.GetExpr() != spec.text {
		return fmt.Sprintf("machine expression %q differs from the source %q", mach.GetExpr(), spec.text)
	}
	// expected namespaces of the prefixed names
	want := map[string]string{}
	for _, m := range regexp.MustCompile(`([A-Za-z][A-Za-z0-9]*):([A-Za-z*][A-Za-z0-9\-]*)`).FindAllStringSubmatch(spec.text, -1) {
		want[m[2]+"@"+m[1]] = binds[m[1]]
	}
	listing := mach.PrintMachine()
	got := map[string]map[string]bool{}
	for _, m := range namePushRe.FindAllStringSubmatch(listing, -1) {
		if got[m[2]] == nil {
			got[m[2]] = map[string]bool{}
		}
		got[m[2]][m[1]] = true
	}
	for key, ns := range want {
		local := strings.Split(key, "@")[0]
		if !got[local][ns] {
			return fmt.Sprintf("%s %q on leaf %s, written in %s (placement %s): step %s must resolve to namespace %s (binding of the module the statement is written in); machine has %v\n%s\n%s",
				c.Carrier, spec.text, name, definer, c.Placement, key, ns, got[local], listing, src)
		}
	}
	return ""
}

var scope = fw.Register(&fw.Prop[Case]{
	ID: "C15", Name: "scope",
	Rule: "all combinations of placement (direct, grouping used locally, grouping used from another module, nested grouping used remotely, unused grouping, augment written in the using module, augment written in the " +
		"defining module, leafref typedef used remotely, submodule with belongs-to prefix) x carrier (must, when, leafref path) x expression (valid with prefixes, syntactically invalid from several rejected classes, " +
		"unknown prefix) x how the using module binds the same prefix (other module / not at all / same); oracle: compiles iff the expression is valid and every prefix is bound in the module of the statement's " +
		"text; on failure the error names that module's file, a line of the carrying statement and the expression; on success the namespace of every prefixed step in the machine listing is the one the " +
		"defining module binds; non-trivial = defining and using module bind the prefix differently",
	Gen: genCase, Check: checkCase,
})

// ---------------------------------------------------------------- embedded sentences
//
// The syntax half of the property in its full width: the sentences of the C04 generators (valid ones, one token edit
// away from valid, token soups, names at character-class boundaries) are written into modules, and the module set
// compiles iff the independent recogniser of C04 accepts the sentence.

type EmbCase struct {
	Inner     c04.Case `json:"inner"`
	Carrier   string   `json:"carrier"`   // must | when | path
	Placement string   `json:"placement"` // direct grouping-unused grouping-remote typedef-unused submodule augment
	// SkipUnknown: see Case
	SkipUnknown bool `json:"skipunknown,omitempty"`
}

func genEmb(t *rapid.T) EmbCase {
	c := EmbCase{Inner: c04.Gen(t)}
	if rapid.IntRange(0, 3).Draw(t, "embcorpus") == 0 {
		// ... or one of C04's hand-written lexical edge cases
		corpus := c04.Corpus()
		c.Inner = c04.Case{Grammar: "expr", Src: fw.BStr(corpus[rapid.IntRange(0, len(corpus)-1).Draw(t, "embcorpusidx")]), MapFn: true}
	}
	pl := []string{"direct", "direct", "grouping-unused", "grouping-remote", "submodule", "augment"}
	if c.Inner.Grammar == "leafref" {
		c.Carrier = "path"
		pl = append(pl, "typedef-unused")
	} else {
		c.Carrier = []string{"must", "when"}[rapid.IntRange(0, 1).Draw(t, "embcarrier")]
	}
	c.Placement = pl[rapid.IntRange(0, len(pl)-1).Draw(t, "embplacement")]
	c.SkipUnknown = rapid.IntRange(0, 3).Draw(t, "embskipunknown") == 0
	return c
}

func embKnown(p string) bool { return p == "" || p == "p" || p == "q" }

func checkEmb(c EmbCase) fw.Outcome {
	src := string(c.Inner.Src)
	out := fw.Outcome{Labels: []string{"emb-placement:" + c.Placement, "emb-carrier:" + c.Carrier}, Key: c.Carrier + c.Placement + src}
	// line breaks inside a quoted YANG string are subject to indentation stripping: they are written as blanks (both
	// are expression white space); text that is not UTF-8 is left out
	src = strings.NewReplacer("\n", " ", "\r", " ").Replace(src)
	if strings.ContainsAny(src, "\x00") || !utf8.ValidString(src) {
		out.Skip = true
		return out
	}
	var v xp.Verdict
	if c.Inner.Grammar == "leafref" {
		v = xp.LeafrefVerdict(src, embKnown)
	} else {
		v = xp.ExprVerdict(src, embKnown)
	}
	if v == xp.Grey {
		out.Skip = true
		return out
	}
	if src == "" && c.Carrier == "when" {
		c.Carrier = "must" // (the module model spells "no when" as the empty string)
	}
	cn := leaf("carrier")
	lr := &sg.TypeSpec{Name: "leafref", Path: src}
	switch c.Carrier {
	case "must":
		cn.Musts = []sg.Must{{Expr: src}}
	case "when":
		cn.When = src
	default:
		cn.Type = lr
	}
	top := func(n string) []*sg.Node {
		return []*sg.Node{{Kind: "container", Name: n, Kids: []*sg.Node{leaf("anchor")}}}
	}
	ma := &sg.Mod{Name: "ma", Prefix: "ma", Nodes: top("ma-top")}
	mb := &sg.Mod{Name: "mb", Prefix: "mb", Nodes: top("mb-top")}
	pq := []sg.Import{{Mod: "ma", Prefix: "p"}, {Mod: "mb", Prefix: "q"}}
	m1 := &sg.Mod{Name: "m1", Prefix: "m1", Imports: pq, Nodes: top("m1-top")}
	mods := []*sg.Mod{ma, mb, m1}
	definer := "m1"
	switch c.Placement {
	case "direct":
		m1.Nodes[0].Kids = append(m1.Nodes[0].Kids, cn)
	case "grouping-unused":
		m1.Groupings = []*sg.Grouping{{Name: "g", Kids: []*sg.Node{cn}}}
	case "grouping-remote":
		// the using module binds the two prefixes the other way round
		m1.Groupings = []*sg.Grouping{{Name: "g", Kids: []*sg.Node{cn}}}
		m2 := &sg.Mod{Name: "m2", Prefix: "m2", Imports: []sg.Import{{Mod: "m1", Prefix: "m1"}, {Mod: "mb", Prefix: "p"}, {Mod: "ma", Prefix: "q"}}, Nodes: top("m2-top")}
		m2.Nodes[0].Kids = append(m2.Nodes[0].Kids, &sg.Node{Kind: "uses", Name: "m1:g"})
		mods = append(mods, m2)
	case "typedef-unused":
		m1.Typedefs = []*sg.Typedef{{Name: "t", Type: lr}}
	case "submodule":
		// only the submodule imports the two modules
		m1.Imports = nil
		m1.Includes = []string{"m1-sub"}
		sub := &sg.Mod{Name: "m1-sub", Prefix: "m1", BelongsTo: "m1", Imports: pq, Nodes: top("m1-sub-top")}
		sub.Nodes[0].Kids = append(sub.Nodes[0].Kids, cn)
		mods = append(mods, sub)
		definer = "m1-sub"
	default:
		m1.Imports = nil
		m2 := &sg.Mod{Name: "m2", Prefix: "m2", Imports: append([]sg.Import{{Mod: "m1", Prefix: "m1"}}, pq...), Nodes: top("m2-top")}
		m2.Augments = []*sg.Augment{{Target: "/m1:m1-top", Kids: []*sg.Node{cn}}}
		mods = append(mods, m2)
		definer = "m2"
	}
	res := sgc.Compile(mods, sgc.Opts{Features: sgc.AllFeatures{}, SkipUnknown: c.SkipUnknown})
	var texts []string
	for _, m := range mods {
		texts = append(texts, m.Text())
	}
	all := strings.Join(texts, "\n")
	if res.Hang || res.Panic != "" {
		out.Violation = fmt.Sprintf("%s %q (%s): %s\n%s", c.Carrier, src, c.Placement, res.Describe(), all)
		return out
	}
	wantOK := v == xp.Accept
	if wantOK {
		out.Labels = append(out.Labels, "emb-expect:accept")
	} else {
		out.Labels = append(out.Labels, "emb-expect:reject")
	}
	out.NonTrivial = c.Inner.Near || strings.Contains(src, ":")
	if res.OK() != wantOK {
		out.Violation = fmt.Sprintf("%s %q written in %s (placement %s): the recogniser says valid=%v, the compiler says %s\n%s", c.Carrier, src, definer, c.Placement, wantOK, res.Describe(), all)
		return out
	}
	if !wantOK && !res.ParseErr {
		// the error names the file the statement is written in
		named := false
		for _, m := range locRe.FindAllStringSubmatch(res.Err.Error(), -1) {
			if m[1] == definer {
				named = true
			}
		}
		if !named {
			out.Violation = fmt.Sprintf("error for %s %q does not name a statement of %s.yang: %q\n%s", c.Carrier, src, definer, res.Err.Error(), all)
		}
	}
	return out
}

var embProp = fw.Register(&fw.Prop[EmbCase]{
	ID: "C15", Name: "embedded",
	Rule: "the sentences of the C04 generators (valid must/when expressions and leafref paths, the same with one token edited, token soups, names at character-class boundaries) written as must, when " +
		"or leafref path in a module that binds the prefixes p and q - directly, in an unused grouping, in a grouping used from a module that binds the prefixes the other way round, in an unused typedef, " +
		"in a submodule that alone imports the modules, in an augment - oracle (differential verdict): the set compiles iff C04's independent recogniser accepts the sentence with exactly those prefixes " +
		"known, and a rejection names the file the statement is written in; line breaks in a sentence are written as blanks; non-trivial = within one token edit of a valid sentence or with a prefix",
	Gen: genEmb, Check: checkEmb, Weight: 0.5,
	MinLabel: []string{"emb-expect:accept", "emb-expect:reject", "emb-carrier:path", "emb-carrier:must"},
})

func TestEmbedded(t *testing.T) { fw.Run(t, embProp) }

func TestMain(m *testing.M) { fw.Main(m) }

func TestScope(t *testing.T) { fw.Run(t, scope) }

func TestAllCombinations(t *testing.T) {
	if fw.Shard() != 0 {
		return
	}
	n := int64(0)
	for _, p := range placements {
		for _, car := range carriers {
			if only := onlyCarrier[p]; only != "" && car != only && !(only == "path" && car == "upath") {
				continue
			}
			for e := range table(car) {
				for _, b := range []string{"other", "none", "same"} {
					fw.Eval(scope, "/all", Case{Placement: p, Carrier: car, Expr: e, UserBinds: b})
					n++
					if companionPlacements[p] {
						for comp := 1; comp <= 2; comp++ {
							fw.Eval(scope, "/all", Case{Placement: p, Carrier: car, Expr: e, UserBinds: b, Companion: comp})
							n++
						}
					}
				}
			}
		}
	}
	fw.NoteExhaustive("scope/all", "all placement x carrier x expression x binding combinations", n)
}
