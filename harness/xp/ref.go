package xp

import (
	"fmt"
	"math"
	"strconv"
	"strings"
	"unicode/utf8"
)

// Val is an XPath 1.0 object: number, string, boolean or node-set.  A
// node-set is represented by the string-values of its nodes in document order.
type Val struct {
	T  byte // 'n' 's' 'b' 'S'
	N  float64
	S  string
	B  bool
	NS []string
}

func VNum(f float64) Val   { return Val{T: 'n', N: f} }
func VStr(s string) Val    { return Val{T: 's', S: s} }
func VBool(b bool) Val     { return Val{T: 'b', B: b} }
func VSet(ns []string) Val { return Val{T: 'S', NS: ns} }

func (v Val) String() string {
	switch v.T {
	case 'n':
		return fmt.Sprintf("number(%v)", v.N)
	case 's':
		return fmt.Sprintf("string(%q)", v.S)
	case 'b':
		return fmt.Sprintf("boolean(%v)", v.B)
	}
	return fmt.Sprintf("node-set(%q)", v.NS)
}

// LeafVal is what the data tree holds for a leaf name.
type LeafVal struct {
	Kind string   `json:"kind"` // lit | absent | list
	Vals []string `json:"vals,omitempty"`
}

// Env resolves a location path to a node-set of string-values.
type Env interface {
	Resolve(p *Path) (Val, error)
}

// LeafEnv is the simple environment of C01: single-step relative paths name leaves.
type LeafEnv map[string]LeafVal

func (le LeafEnv) Resolve(p *Path) (Val, error) {
	if p.Root != "rel" || len(p.Steps) != 1 || p.Steps[0].Kind != "name" {
		return Val{}, fmt.Errorf("LeafEnv: unsupported path")
	}
	lv, ok := le[p.Steps[0].Name]
	if !ok || lv.Kind == "absent" {
		return VSet(nil), nil
	}
	return VSet(lv.Vals), nil
}

// KnownInfinityWord, when set and returning true, makes the reference follow the
// recorded known finding "number('Infinity') is Infinity instead of NaN".
var KnownInfinityWord func() bool

// ---- conversions (XPath 1.0 section 4) ------------------------------------

func isXMLSpace(r rune) bool { return r == ' ' || r == '\t' || r == '\r' || r == '\n' }

// StrToNum implements the string -> number conversion of the number() function:
// optional XML whitespace, optional '-', Number, optional whitespace; else NaN.
func StrToNum(s string) float64 {
	t := strings.TrimFunc(s, isXMLSpace)
	if (t == "Infinity" || t == "-Infinity") && KnownInfinityWord != nil && KnownInfinityWord() {
		// recorded known finding: the words are converted to +-Infinity (pinned by
		// the repository's own tests); the reference follows for exactly these inputs
		if t[0] == '-' {
			return math.Inf(-1)
		}
		return math.Inf(1)
	}
	u := t
	if strings.HasPrefix(u, "-") {
		u = u[1:]
	}
	if u == "" {
		return math.NaN()
	}
	digits, dots := 0, 0
	for i := 0; i < len(u); i++ {
		c := u[i]
		switch {
		case c >= '0' && c <= '9':
			digits++
		case c == '.':
			dots++
		default:
			return math.NaN()
		}
	}
	if digits == 0 || dots > 1 {
		return math.NaN()
	}
	f, err := strconv.ParseFloat(t, 64)
	if err != nil {
		// only range errors are possible here; ParseFloat returns +-Inf
		return f
	}
	return f
}

// NumToStr implements the number -> string conversion of the string() function.
func NumToStr(f float64) string {
	switch {
	case math.IsNaN(f):
		return "NaN"
	case f == 0:
		return "0"
	case math.IsInf(f, 1):
		return "Infinity"
	case math.IsInf(f, -1):
		return "-Infinity"
	}
	return strconv.FormatFloat(f, 'f', -1, 64)
}

func ToStr(v Val) string {
	switch v.T {
	case 's':
		return v.S
	case 'n':
		return NumToStr(v.N)
	case 'b':
		if v.B {
			return "true"
		}
		return "false"
	}
	if len(v.NS) == 0 {
		return ""
	}
	return v.NS[0]
}

func ToNum(v Val) float64 {
	switch v.T {
	case 'n':
		return v.N
	case 'b':
		if v.B {
			return 1
		}
		return 0
	}
	return StrToNum(ToStr(v))
}

func ToBool(v Val) bool {
	switch v.T {
	case 'b':
		return v.B
	case 'n':
		return v.N != 0 && !math.IsNaN(v.N)
	case 's':
		return len(v.S) > 0
	}
	return len(v.NS) > 0
}

// Round is the XPath round(): closest integer, ties toward +Infinity, -0 for [-0.5, -0].
func Round(x float64) float64 {
	if math.IsNaN(x) || math.IsInf(x, 0) {
		return x
	}
	r := math.Floor(x)
	if x-r >= 0.5 {
		r++
	}
	if r == 0 && (x < 0 || math.Signbit(x)) {
		return math.Copysign(0, -1)
	}
	return r
}

// ---- comparison (XPath 1.0 section 3.4) -----------------------------------

func cmpNum(op string, a, b float64) bool {
	switch op {
	case "=":
		return a == b
	case "!=":
		return a != b
	case "<":
		return a < b
	case "<=":
		return a <= b
	case ">":
		return a > b
	case ">=":
		return a >= b
	}
	panic("bad op " + op)
}

func cmpAtoms(op string, a, b Val) bool {
	if op == "=" || op == "!=" {
		switch {
		case a.T == 'b' || b.T == 'b':
			if op == "=" {
				return ToBool(a) == ToBool(b)
			}
			return ToBool(a) != ToBool(b)
		case a.T == 'n' || b.T == 'n':
			return cmpNum(op, ToNum(a), ToNum(b))
		default:
			if op == "=" {
				return ToStr(a) == ToStr(b)
			}
			return ToStr(a) != ToStr(b)
		}
	}
	return cmpNum(op, ToNum(a), ToNum(b))
}

// Compare implements = != < <= > >= for any two objects.
func Compare(op string, a, b Val) bool {
	if a.T == 'S' || b.T == 'S' {
		// node-set against boolean: convert the node-set with boolean()
		if a.T == 'b' || b.T == 'b' {
			return cmpAtoms(op, VBool(ToBool(a)), VBool(ToBool(b)))
		}
		as, bs := []Val{a}, []Val{b}
		if a.T == 'S' {
			as = as[:0]
			for _, s := range a.NS {
				as = append(as, VStr(s))
			}
		}
		if b.T == 'S' {
			bs = bs[:0]
			for _, s := range b.NS {
				bs = append(bs, VStr(s))
			}
		}
		for _, x := range as {
			for _, y := range bs {
				if cmpAtoms(op, x, y) {
					return true
				}
			}
		}
		return false
	}
	return cmpAtoms(op, a, b)
}

// ---- functions -------------------------------------------------------------

func Substring(s string, a, b float64) string {
	ra, rb := Round(a), Round(b)
	end := ra + rb
	var out strings.Builder
	pos := 0
	for _, r := range s {
		pos++
		p := float64(pos)
		if p >= ra && p < end {
			out.WriteRune(r)
		}
	}
	return out.String()
}

func NormalizeSpace(s string) string {
	fields := strings.FieldsFunc(s, isXMLSpace)
	return strings.Join(fields, " ")
}

func Translate(s, from, to string) string {
	fr, tr := []rune(from), []rune(to)
	var out strings.Builder
	for _, r := range s {
		idx := -1
		for i, f := range fr {
			if f == r {
				idx = i
				break
			}
		}
		switch {
		case idx < 0:
			out.WriteRune(r)
		case idx < len(tr):
			out.WriteRune(tr[idx])
		}
	}
	return out.String()
}

// FnInfo describes a function of the registered table (declared arity).
type FnInfo struct {
	Name string
	Args string // one letter per argument: s n b o(object) S(node-set)
	Ret  byte
}

// Functions is the core function table with the arity the code declares.
var Functions = []FnInfo{
	{"boolean", "o", 'b'}, {"not", "b", 'b'}, {"true", "", 'b'}, {"false", "", 'b'},
	{"number", "o", 'n'}, {"string", "o", 's'},
	{"concat", "ss", 's'}, {"contains", "ss", 'b'}, {"starts-with", "ss", 'b'},
	{"substring", "snn", 's'}, {"substring-before", "ss", 's'}, {"substring-after", "ss", 's'},
	{"string-length", "s", 'n'}, {"normalize-space", "s", 's'}, {"translate", "sss", 's'},
	{"floor", "n", 'n'}, {"ceiling", "n", 'n'}, {"round", "n", 'n'},
	{"count", "S", 'n'}, {"sum", "S", 'n'}, {"local-name", "S", 's'},
	{"last", "", 'n'}, {"position", "", 'n'},
}

func FnByName(n string) *FnInfo {
	for i := range Functions {
		if Functions[i].Name == n {
			return &Functions[i]
		}
	}
	return nil
}

func callFn(name string, a []Val) (Val, error) {
	switch name {
	case "boolean":
		return VBool(ToBool(a[0])), nil
	case "not":
		return VBool(!ToBool(a[0])), nil
	case "true":
		return VBool(true), nil
	case "false":
		return VBool(false), nil
	case "number":
		return VNum(ToNum(a[0])), nil
	case "string":
		return VStr(ToStr(a[0])), nil
	case "concat":
		return VStr(ToStr(a[0]) + ToStr(a[1])), nil
	case "contains":
		return VBool(strings.Contains(ToStr(a[0]), ToStr(a[1]))), nil
	case "starts-with":
		return VBool(strings.HasPrefix(ToStr(a[0]), ToStr(a[1]))), nil
	case "substring":
		return VStr(Substring(ToStr(a[0]), ToNum(a[1]), ToNum(a[2]))), nil
	case "substring-before":
		s, t := ToStr(a[0]), ToStr(a[1])
		if i := strings.Index(s, t); i >= 0 {
			return VStr(s[:i]), nil
		}
		return VStr(""), nil
	case "substring-after":
		s, t := ToStr(a[0]), ToStr(a[1])
		if i := strings.Index(s, t); i >= 0 {
			return VStr(s[i+len(t):]), nil
		}
		return VStr(""), nil
	case "string-length":
		return VNum(float64(utf8.RuneCountInString(ToStr(a[0])))), nil
	case "normalize-space":
		return VStr(NormalizeSpace(ToStr(a[0]))), nil
	case "translate":
		return VStr(Translate(ToStr(a[0]), ToStr(a[1]), ToStr(a[2]))), nil
	case "floor":
		return VNum(math.Floor(ToNum(a[0]))), nil
	case "ceiling":
		return VNum(math.Ceil(ToNum(a[0]))), nil
	case "round":
		return VNum(Round(ToNum(a[0]))), nil
	case "count":
		if a[0].T != 'S' {
			return Val{}, fmt.Errorf("count() of a non node-set")
		}
		return VNum(float64(len(a[0].NS))), nil
	case "sum":
		if a[0].T != 'S' {
			return Val{}, fmt.Errorf("sum() of a non node-set")
		}
		t := 0.0
		for _, s := range a[0].NS {
			t += StrToNum(s)
		}
		return VNum(t), nil
	case "local-name":
		if a[0].T != 'S' {
			return Val{}, fmt.Errorf("local-name() of a non node-set")
		}
		if len(a[0].NS) == 0 {
			return VStr(""), nil
		}
		return Val{}, fmt.Errorf("local-name() of a non-empty node-set not modelled")
	case "last", "position":
		return VNum(1), nil
	}
	return Val{}, fmt.Errorf("unknown function %s", name)
}

// Eval evaluates an expression with XPath 1.0 semantics.
func Eval(e *E, env Env) (Val, error) {
	switch e.K {
	case "num":
		f, err := strconv.ParseFloat(e.V, 64)
		if err != nil && !math.IsInf(f, 0) {
			return Val{}, err
		}
		return VNum(f), nil
	case "lit":
		return VStr(e.V), nil
	case "paren":
		return Eval(e.A[0], env)
	case "neg":
		v, err := Eval(e.A[0], env)
		if err != nil {
			return v, err
		}
		return VNum(-ToNum(v)), nil
	case "path":
		return env.Resolve(e.P)
	case "call":
		args := make([]Val, len(e.A))
		for i, a := range e.A {
			v, err := Eval(a, env)
			if err != nil {
				return v, err
			}
			args[i] = v
		}
		return callFn(e.V, args)
	case "bin":
		l, err := Eval(e.A[0], env)
		if err != nil {
			return l, err
		}
		r, err := Eval(e.A[1], env)
		if err != nil {
			return r, err
		}
		switch e.V {
		case "or":
			return VBool(ToBool(l) || ToBool(r)), nil
		case "and":
			return VBool(ToBool(l) && ToBool(r)), nil
		case "=", "!=", "<", "<=", ">", ">=":
			return VBool(Compare(e.V, l, r)), nil
		case "+":
			return VNum(ToNum(l) + ToNum(r)), nil
		case "-":
			return VNum(ToNum(l) - ToNum(r)), nil
		case "*":
			return VNum(ToNum(l) * ToNum(r)), nil
		case "div":
			return VNum(ToNum(l) / ToNum(r)), nil
		case "mod":
			return VNum(math.Mod(ToNum(l), ToNum(r))), nil
		}
	}
	return Val{}, fmt.Errorf("cannot evaluate %s/%s", e.K, e.V)
}

// SelfTest reproduces worked examples of XPath 1.0 section 4; the reference is
// not trusted unless it passes.
func SelfTest() error {
	type ex struct {
		e    *E
		want Val
	}
	n, l := Num, Lit
	exs := []ex{
		{Call("substring", l("12345"), n("1.5"), n("2.6")), VStr("234")},
		{Call("substring", l("12345"), n("0"), n("3")), VStr("12")},
		{Call("substring", l("12345"), Bin("div", n("0"), n("0")), n("3")), VStr("")},
		{Call("substring", l("12345"), n("1"), Bin("div", n("0"), n("0"))), VStr("")},
		{Call("substring", l("12345"), Neg(n("42")), Bin("div", n("1"), n("0"))), VStr("12345")},
		{Call("substring", l("12345"), Bin("div", Neg(n("1")), n("0")), Bin("div", n("1"), n("0"))), VStr("")},
		{Call("substring-before", l("1999/04/01"), l("/")), VStr("1999")},
		{Call("substring-after", l("1999/04/01"), l("/")), VStr("04/01")},
		{Call("substring-after", l("1999/04/01"), l("19")), VStr("99/04/01")},
		{Call("translate", l("bar"), l("abc"), l("ABC")), VStr("BAr")},
		{Call("translate", l("--aaa--"), l("abc-"), l("ABC")), VStr("AAA")},
		{Call("round", n("2.5")), VNum(3)},
		{Call("round", Neg(n("2.5"))), VNum(-2)},
		{Call("string", Bin("div", n("1"), n("0"))), VStr("Infinity")},
		{Call("string", n("0.000001")), VStr("0.000001")},
		{Call("string", n("100000000000000000000000")), VStr("100000000000000000000000")},
		{Call("number", l(" 12 ")), VNum(12)},
		{Call("boolean", Call("number", l("x"))), VBool(false)},
		{Bin("mod", n("5"), n("2")), VNum(1)},
		{Bin("mod", n("5"), Neg(n("2"))), VNum(1)},
		{Bin("mod", Neg(n("5")), n("2")), VNum(-1)},
		{Bin("mod", Neg(n("5")), Neg(n("2"))), VNum(-1)},
		{Call("normalize-space", l("  a \t b\n")), VStr("a b")},
		{Call("string-length", l("é\U0001F600")), VNum(2)},
	}
	for _, x := range exs {
		got, err := Eval(x.e, LeafEnv{})
		if err != nil {
			return fmt.Errorf("self-test %s: %v", x.e, err)
		}
		if !SameVal(got, x.want) {
			return fmt.Errorf("self-test %s: got %v want %v", x.e, got, x.want)
		}
	}
	if !math.Signbit(Round(-0.2)) || Round(0.49999999999999994) != 0 || Round(-1.5) != -1 {
		return fmt.Errorf("self-test round")
	}
	if !math.IsNaN(StrToNum("+5")) || !math.IsNaN(StrToNum("1e3")) || !math.IsNaN(StrToNum("")) || StrToNum("-.5") != -0.5 || !math.IsNaN(StrToNum(".")) || StrToNum("5.") != 5 {
		return fmt.Errorf("self-test StrToNum")
	}
	return nil
}

// SameVal compares two values of the same type exactly (NaN equals NaN, -0 differs from +0).
func SameVal(a, b Val) bool {
	if a.T != b.T {
		return false
	}
	switch a.T {
	case 'n':
		if math.IsNaN(a.N) || math.IsNaN(b.N) {
			return math.IsNaN(a.N) && math.IsNaN(b.N)
		}
		return a.N == b.N && math.Signbit(a.N) == math.Signbit(b.N)
	case 's':
		return a.S == b.S
	case 'b':
		return a.B == b.B
	}
	if len(a.NS) != len(b.NS) {
		return false
	}
	for i := range a.NS {
		if a.NS[i] != b.NS[i] {
			return false
		}
	}
	return true
}
