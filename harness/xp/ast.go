// Package xp holds the harness's own model of the XPath subset used by
// yang-parser: an AST, renderers (parenthesisation and whitespace are knobs),
// and a reference evaluator written from the XPath 1.0 recommendation.  It
// imports nothing from the repository under test.
package xp

import (
	"strings"
)

// E is an expression node.
//
//	K = "num"   V = number literal text (Digits ('.' Digits?)? | '.' Digits)
//	K = "lit"   V = string value (must not contain both quote characters)
//	K = "bin"   V = operator (or and = != < <= > >= + - * div mod |), A = [l, r]
//	K = "neg"   A = [e]
//	K = "call"  V = function name, A = arguments
//	K = "path"  P = location path
//	K = "paren" A = [e]    (redundant parentheses kept by every renderer)
type E struct {
	K string `json:"k"`
	V string `json:"v,omitempty"`
	A []*E   `json:"a,omitempty"`
	P *Path  `json:"p,omitempty"`
}

// Path is a location path of the supported grammar.
type Path struct {
	Root  string `json:"root"` // rel | abs | cur | deref
	Deref *Path  `json:"deref,omitempty"`
	Steps []Step `json:"steps,omitempty"`
}

// Step is one step: a name test (optionally prefixed, with predicates), ".." or ".".
type Step struct {
	Kind   string `json:"kind"` // name | up | self
	Prefix string `json:"prefix,omitempty"`
	Name   string `json:"name,omitempty"`
	Preds  []Pred `json:"preds,omitempty"`
}

// Pred is a predicate of the form [Key = Val].
type Pred struct {
	Key string `json:"key"`
	Val *E     `json:"val"`
}

func Num(s string) *E            { return &E{K: "num", V: s} }
func Lit(s string) *E            { return &E{K: "lit", V: s} }
func Bin(op string, l, r *E) *E  { return &E{K: "bin", V: op, A: []*E{l, r}} }
func Neg(e *E) *E                { return &E{K: "neg", A: []*E{e}} }
func Call(fn string, a ...*E) *E { return &E{K: "call", V: fn, A: a} }
func Paren(e *E) *E              { return &E{K: "paren", A: []*E{e}} }
func Leaf(name string) *E {
	return &E{K: "path", P: &Path{Root: "rel", Steps: []Step{{Kind: "name", Name: name}}}}
}
func PathE(p *Path) *E { return &E{K: "path", P: p} }

// Prec returns the XPath 1.0 precedence level of a binary operator
// (or < and < equality < relational < additive < multiplicative < unary < union).
func Prec(op string) int {
	switch op {
	case "or":
		return 1
	case "and":
		return 2
	case "=", "!=":
		return 3
	case "<", "<=", ">", ">=":
		return 4
	case "+", "-":
		return 5
	case "*", "div", "mod":
		return 6
	case "|":
		return 8
	}
	return 0
}

const precUnary = 7
const precPrimary = 9

func precOf(e *E) int {
	switch e.K {
	case "bin":
		return Prec(e.V)
	case "neg":
		return precUnary
	}
	return precPrimary
}

// Tok is one lexical token of a rendering.
type Tok struct {
	T string // text
	K string // num lit name op punct opname func
}

// ParenMode selects how parentheses are produced.
type ParenMode int

const (
	MinParens  ParenMode = iota // only where the XPath grammar requires them
	FullParens                  // around every binary and unary sub-expression
)

// Tokens renders the expression as a token list.
func Tokens(e *E, mode ParenMode) []Tok {
	var out []Tok
	render(e, mode, &out)
	return out
}

func punct(s string) Tok { return Tok{s, "punct"} }

func wrap(out *[]Tok, need bool, f func()) {
	if need {
		*out = append(*out, punct("("))
	}
	f()
	if need {
		*out = append(*out, punct(")"))
	}
}

func render(e *E, mode ParenMode, out *[]Tok) {
	switch e.K {
	case "num":
		*out = append(*out, Tok{e.V, "num"})
	case "lit":
		q := "'"
		if strings.Contains(e.V, "'") || (len(e.V)%2 == 0 && strings.Contains(e.V, "\\") && !strings.Contains(e.V, "\"")) {
			// (a literal with a backslash is written in either quote, by the parity of its length)
			q = "\""
		}
		*out = append(*out, Tok{q + e.V + q, "lit"})
	case "paren":
		*out = append(*out, punct("("))
		render(e.A[0], mode, out)
		*out = append(*out, punct(")"))
	case "neg":
		*out = append(*out, Tok{"-", "op"})
		c := e.A[0]
		need := precOf(c) < precUnary
		if mode == FullParens && (c.K == "bin" || c.K == "neg") {
			need = true
		}
		wrap(out, need, func() { render(c, mode, out) })
	case "bin":
		p := Prec(e.V)
		l, r := e.A[0], e.A[1]
		needL := precOf(l) < p
		needR := precOf(r) <= p
		if mode == FullParens {
			if l.K == "bin" || l.K == "neg" {
				needL = true
			}
			if r.K == "bin" || r.K == "neg" {
				needR = true
			}
		}
		wrap(out, needL, func() { render(l, mode, out) })
		k := "op"
		switch e.V {
		case "or", "and", "div", "mod":
			k = "opname"
		}
		*out = append(*out, Tok{e.V, k})
		wrap(out, needR, func() { render(r, mode, out) })
	case "call":
		*out = append(*out, Tok{e.V, "func"}, punct("("))
		for i, a := range e.A {
			if i > 0 {
				*out = append(*out, punct(","))
			}
			// (fully parenthesised: an argument that is an operator expression gets its own pair)
			a := a
			wrap(out, mode == FullParens && (a.K == "bin" || a.K == "neg"), func() { render(a, mode, out) })
		}
		*out = append(*out, punct(")"))
	case "path":
		renderPath(e.P, mode, out)
	}
}

func renderPath(p *Path, mode ParenMode, out *[]Tok) {
	first := true
	switch p.Root {
	case "abs":
		*out = append(*out, punct("/"))
	case "cur":
		*out = append(*out, Tok{"current", "func"}, punct("("), punct(")"))
		first = false
	case "deref":
		*out = append(*out, Tok{"deref", "func"}, punct("("))
		renderPath(p.Deref, mode, out)
		*out = append(*out, punct(")"))
		first = false
	}
	for _, s := range p.Steps {
		if !first {
			*out = append(*out, punct("/"))
		}
		first = false
		switch s.Kind {
		case "up":
			*out = append(*out, Tok{"..", "punct"})
		case "self":
			*out = append(*out, Tok{".", "punct"})
		default:
			n := s.Name
			if s.Prefix != "" {
				n = s.Prefix + ":" + s.Name
			}
			*out = append(*out, Tok{n, "name"})
			for _, pr := range s.Preds {
				*out = append(*out, punct("["))
				if pr.Key == "" {
					// a predicate that is any expression (C03: operators directly inside the brackets)
					// (fully parenthesised: the whole predicate expression gets its own pair, too)
					if mode == FullParens {
						*out = append(*out, punct("("))
					}
					render(pr.Val, mode, out)
					if mode == FullParens {
						*out = append(*out, punct(")"))
					}
				} else {
					render(Bin("=", Leaf(pr.Key), pr.Val), mode, out)
				}
				*out = append(*out, punct("]"))
			}
		}
	}
}

func wordyEnd(t Tok) bool {
	switch t.K {
	case "num", "name", "opname", "func":
		return true
	}
	return t.T == "." || t.T == ".."
}

func wordyStart(t Tok) bool {
	switch t.K {
	case "num", "name", "opname", "func":
		return true
	}
	return t.T == "." || t.T == ".." || t.T == "-"
}

// NeedBlank reports whether a blank is required between two adjacent tokens
// for the token boundary to survive re-tokenisation (derived from the XPath
// token definitions: names may contain '-', '.', digits; numbers may contain '.').
func NeedBlank(l, r Tok) bool {
	if l.K == "num" && r.T == "-" {
		return false
	}
	// '.' and '..' are complete tokens: a name (an operator name, in that position) may follow directly, a number
	// or another dot may not ('.5', '...')
	if (l.T == "." || l.T == "..") && (r.K == "name" || r.K == "opname" || r.K == "func") {
		return false
	}
	// '/' '/' would become '//', '<' '=' would become '<=' etc.; such pairs are
	// never adjacent in renderings of this AST.
	return wordyEnd(l) && wordyStart(r)
}

// Join renders a token list; ws[i] is the blank string placed before token i
// (ws[len] after the last); it is forced to " " where a blank is required
// and ws gives none.  A nil ws means minimal blanks.
func Join(toks []Tok, ws []string) string {
	var b strings.Builder
	for i, t := range toks {
		s := ""
		if ws != nil && i < len(ws) {
			s = ws[i]
		}
		if i > 0 && s == "" && NeedBlank(toks[i-1], t) {
			s = " "
		}
		b.WriteString(s)
		b.WriteString(t.T)
	}
	if ws != nil && len(ws) > len(toks) {
		b.WriteString(ws[len(toks)])
	}
	return b.String()
}

// String renders with minimal parentheses and minimal blanks.
func (e *E) String() string { return Join(Tokens(e, MinParens), nil) }

// Walk visits every expression node (including predicate operands).
func Walk(e *E, f func(*E)) {
	if e == nil {
		return
	}
	f(e)
	for _, a := range e.A {
		Walk(a, f)
	}
	if e.P != nil {
		walkPath(e.P, f)
	}
}

func walkPath(p *Path, f func(*E)) {
	if p.Deref != nil {
		walkPath(p.Deref, f)
	}
	for _, s := range p.Steps {
		for _, pr := range s.Preds {
			Walk(pr.Val, f)
		}
	}
}
