package xp

import (
	"unicode/utf8"
)

// Verdict of the reference recogniser.
type Verdict int

const (
	Reject Verdict = iota
	Accept
	Grey // the property, the specification and the documented behaviour do not determine the answer
)

func (v Verdict) String() string { return [...]string{"reject", "accept", "grey"}[v] }

// IsNameStartChar: XML 1.0 (5th ed.) NameStartChar without ':' (NCName).
func IsNameStartChar(c rune) bool {
	switch {
	case c >= 'A' && c <= 'Z', c == '_', c >= 'a' && c <= 'z':
		return true
	case c >= 0xC0 && c <= 0xD6, c >= 0xD8 && c <= 0xF6, c >= 0xF8 && c <= 0x2FF:
		return true
	case c >= 0x370 && c <= 0x37D, c >= 0x37F && c <= 0x1FFF, c >= 0x200C && c <= 0x200D:
		return true
	case c >= 0x2070 && c <= 0x218F, c >= 0x2C00 && c <= 0x2FEF, c >= 0x3001 && c <= 0xD7FF:
		return true
	case c >= 0xF900 && c <= 0xFDCF, c >= 0xFDF0 && c <= 0xFFFD, c >= 0x10000 && c <= 0xEFFFF:
		return true
	}
	return false
}

// IsNameChar: XML NameChar without ':'.
func IsNameChar(c rune) bool {
	switch {
	case IsNameStartChar(c), c == '-', c == '.', c >= '0' && c <= '9', c == 0xB7:
		return true
	case c >= 0x300 && c <= 0x36F, c >= 0x203F && c <= 0x2040:
		return true
	}
	return false
}

type stok struct {
	k string // ( ) [ ] . .. @ , :: op name star pstar qname nodetype func axis lit num
	t string // text: operator symbol, name, function name
	p string // prefix of a qname / pstar
}

type slexer struct {
	s    string
	pos  int
	toks []stok
	grey bool
	bad  bool
	// a name, blanks, a single colon (or a colon followed by blanks): not a QName in XPath
	qnameBlank bool
}

// KnownQNameBlanks, when set and returning true, makes inputs with blanks around the
// colon of a QName grey (recorded known finding: the lexer tolerates them, pinned by
// the repository's TestLexBadUTF / TestLexNameTestUnterminated).
var KnownQNameBlanks func() bool

func isDigit(b byte) bool { return b >= '0' && b <= '9' }

func (l *slexer) skipWS() {
	for l.pos < len(l.s) {
		switch l.s[l.pos] {
		case ' ', '\t', '\r', '\n':
			l.pos++
		default:
			return
		}
	}
}

func (l *slexer) peekRune() (rune, int) {
	if l.pos >= len(l.s) {
		return -1, 0
	}
	r, n := utf8.DecodeRuneInString(l.s[l.pos:])
	if r == utf8.RuneError && n == 1 {
		return -2, 1
	}
	return r, n
}

func (l *slexer) ncname() string {
	start := l.pos
	r, n := l.peekRune()
	if r < 0 || !IsNameStartChar(r) {
		return ""
	}
	l.pos += n
	for {
		r, n = l.peekRune()
		if r < 0 || !IsNameChar(r) {
			break
		}
		l.pos += n
	}
	return l.s[start:l.pos]
}

// precedingAllowsOperator implements the first disambiguation rule of XPath 1.0 section 3.7.
func (l *slexer) precedingAllowsOperator() bool {
	if len(l.toks) == 0 {
		return false
	}
	p := l.toks[len(l.toks)-1]
	switch p.k {
	case "@", "::", "(", "[", ",", "op":
		return false
	}
	return true
}

func (l *slexer) lookingAt(s string) bool {
	save := l.pos
	l.skipWS()
	ok := len(l.s)-l.pos >= len(s) && l.s[l.pos:l.pos+len(s)] == s
	l.pos = save
	return ok
}

var nodeTypes = map[string]bool{"comment": true, "text": true, "processing-instruction": true, "node": true}
var axisNames = map[string]bool{"ancestor": true, "ancestor-or-self": true, "attribute": true, "child": true, "descendant": true,
	"descendant-or-self": true, "following": true, "following-sibling": true, "namespace": true, "parent": true,
	"preceding": true, "preceding-sibling": true, "self": true}

func (l *slexer) emit(k, t string) { l.toks = append(l.toks, stok{k: k, t: t}) }

func (l *slexer) run() {
	for !l.bad {
		l.skipWS()
		if l.pos >= len(l.s) {
			return
		}
		c := l.s[l.pos]
		switch {
		case c == '"' || c == '\'':
			end := -1
			for i := l.pos + 1; i < len(l.s); i++ {
				if l.s[i] == c {
					end = i
					break
				}
			}
			if end < 0 || !utf8.ValidString(l.s[l.pos+1:end]) {
				l.bad = true
				return
			}
			for _, b := range []byte(l.s[l.pos+1 : end]) {
				if b < 0x20 && b != '\t' && b != '\n' && b != '\r' || b == 0x7f {
					// control characters are not XML Chars; whether a literal may hold them is not settled by
					// the property ("stray characters" are named for expressions, literals are opaque): grey
					l.grey = true
				}
			}
			l.emit("lit", l.s[l.pos+1:end])
			l.pos = end + 1
		case isDigit(c) || (c == '.' && l.pos+1 < len(l.s) && isDigit(l.s[l.pos+1])):
			start := l.pos
			for l.pos < len(l.s) && isDigit(l.s[l.pos]) {
				l.pos++
			}
			if l.pos < len(l.s) && l.s[l.pos] == '.' {
				l.pos++
				for l.pos < len(l.s) && isDigit(l.s[l.pos]) {
					l.pos++
				}
			}
			// (a number of any length is a Number: one too large for a double is an infinity)
			// exponent form directly attached: accepted by the code (pinned by its tests), not XPath 1.0
			if l.pos < len(l.s) && (l.s[l.pos] == 'e' || l.s[l.pos] == 'E' || l.s[l.pos] == '.') {
				l.grey = true
			}
			l.emit("num", l.s[start:l.pos])
		case c == '.':
			if l.pos+1 < len(l.s) && l.s[l.pos+1] == '.' {
				l.emit("..", "")
				l.pos += 2
			} else {
				l.emit(".", "")
				l.pos++
			}
		case c == '/':
			if l.pos+1 < len(l.s) && l.s[l.pos+1] == '/' {
				l.emit("op", "//")
				l.pos += 2
			} else {
				l.emit("op", "/")
				l.pos++
			}
		case c == '|' || c == '+' || c == '-' || c == '=':
			l.emit("op", string(c))
			l.pos++
		case c == '!':
			if l.pos+1 < len(l.s) && l.s[l.pos+1] == '=' {
				l.emit("op", "!=")
				l.pos += 2
			} else {
				l.bad = true
			}
		case c == '<' || c == '>':
			if l.pos+1 < len(l.s) && l.s[l.pos+1] == '=' {
				l.emit("op", string(c)+"=")
				l.pos += 2
			} else {
				l.emit("op", string(c))
				l.pos++
			}
		case c == '*':
			if l.precedingAllowsOperator() {
				l.emit("op", "*")
			} else {
				l.emit("star", "*")
			}
			l.pos++
		case c == ':':
			if l.pos+1 < len(l.s) && l.s[l.pos+1] == ':' {
				l.emit("::", "")
				l.pos += 2
			} else {
				l.bad = true
			}
		case c == '(' || c == ')' || c == '[' || c == ']' || c == '@' || c == ',':
			l.emit(string(c), "")
			l.pos++
		default:
			r, _ := l.peekRune()
			if r < 0 || !IsNameStartChar(r) {
				l.bad = true // '$' (variables), stray characters, invalid UTF-8
				return
			}
			name := l.ncname()
			if l.precedingAllowsOperator() {
				switch name {
				case "and", "or", "mod", "div":
					l.emit("op", name)
				default:
					l.bad = true
				}
				continue
			}
			if l.lookingAt("(") {
				if nodeTypes[name] {
					l.emit("nodetype", name)
				} else {
					l.emit("func", name)
				}
				continue
			}
			if l.lookingAt("::") {
				if axisNames[name] {
					l.emit("axis", name)
				} else {
					l.bad = true
				}
				continue
			}
			// NameTest: NCName | NCName ':' '*' | NCName ':' NCName  (no blanks inside)
			if l.pos < len(l.s) && l.s[l.pos] == ':' {
				if l.pos+1 < len(l.s) && l.s[l.pos+1] == '*' {
					l.pos += 2
					l.toks = append(l.toks, stok{k: "pstar", p: name})
					continue
				}
				save := l.pos
				l.pos++
				local := l.ncname()
				if local == "" {
					if l.pos < len(l.s) && (l.s[l.pos] == ' ' || l.s[l.pos] == '\t' || l.s[l.pos] == '\r' || l.s[l.pos] == '\n') {
						l.qnameBlank = true
					}
					l.pos = save
					l.bad = true
					continue
				}
				if l.lookingAt("(") {
					l.grey = true // prefixed function name
				}
				l.toks = append(l.toks, stok{k: "qname", p: name, t: local})
				continue
			}
			if l.lookingAt(":") && !l.lookingAt("::") {
				l.qnameBlank = true
			}
			l.emit("name", name)
		}
	}
}

// ---- recursive descent ------------------------------------------------------

type sparser struct {
	toks    []stok
	i       int
	grey    bool
	knownFn func(name string) (arity int, ok bool)
	knownPf func(prefix string) bool
}

func (p *sparser) peek() stok {
	if p.i < len(p.toks) {
		return p.toks[p.i]
	}
	return stok{k: "eof"}
}
func (p *sparser) isOp(t string) bool { x := p.peek(); return x.k == "op" && x.t == t }
func (p *sparser) next() stok         { t := p.peek(); p.i++; return t }

func (p *sparser) binary(ops []string, sub func() bool) bool {
	if !sub() {
		return false
	}
	for {
		matched := false
		for _, o := range ops {
			if p.isOp(o) {
				matched = true
				break
			}
		}
		if !matched {
			return true
		}
		p.i++
		if !sub() {
			return false
		}
	}
}

func (p *sparser) expr() bool { return p.binary([]string{"or"}, p.andExpr) }
func (p *sparser) andExpr() bool {
	return p.binary([]string{"and"}, p.eqExpr)
}
func (p *sparser) eqExpr() bool  { return p.binary([]string{"=", "!="}, p.relExpr) }
func (p *sparser) relExpr() bool { return p.binary([]string{"<", ">", "<=", ">="}, p.addExpr) }
func (p *sparser) addExpr() bool { return p.binary([]string{"+", "-"}, p.mulExpr) }
func (p *sparser) mulExpr() bool { return p.binary([]string{"*", "div", "mod"}, p.unary) }
func (p *sparser) unary() bool {
	for p.isOp("-") {
		p.i++
	}
	return p.union()
}
func (p *sparser) union() bool {
	return p.binary([]string{"|"}, func() bool { _, ok := p.pathExpr(); return ok })
}

func (p *sparser) startsStep() bool {
	switch p.peek().k {
	case "name", "qname", "star", "pstar", ".", "..":
		return true
	}
	return false
}

func (p *sparser) predicates() bool {
	for p.peek().k == "[" {
		p.i++
		if !p.expr() {
			return false
		}
		if p.next().k != "]" {
			return false
		}
	}
	return true
}

func (p *sparser) step() bool {
	t := p.next()
	switch t.k {
	case ".", "..":
		return true
	case "qname", "pstar":
		if p.knownPf != nil && !p.knownPf(t.p) {
			return false
		}
		return p.predicates()
	case "name", "star":
		return p.predicates()
	}
	return false
}

func (p *sparser) relPath() bool {
	if !p.step() {
		return false
	}
	for p.isOp("/") {
		p.i++
		if !p.step() {
			return false
		}
	}
	return true
}

// pathExpr returns (isLocationPath, ok).
func (p *sparser) pathExpr() (bool, bool) {
	t := p.peek()
	switch {
	case t.k == "op" && t.t == "/":
		p.i++
		if p.startsStep() {
			return true, p.relPath()
		}
		return true, true
	case p.startsStep():
		return true, p.relPath()
	case t.k == "func" && t.t == "current":
		p.i++
		if p.next().k != "(" || p.next().k != ")" {
			return false, false
		}
		if p.peek().k == "[" {
			// valid XPath (FilterExpr), outside the documented grammar
			p.grey = true
			if !p.predicates() {
				return false, false
			}
		}
		if p.isOp("/") {
			p.i++
			return true, p.relPath()
		}
		return true, true
	case t.k == "func" && t.t == "deref":
		p.i++
		if p.next().k != "(" {
			return false, false
		}
		save := p.i
		isLoc, ok := p.pathExpr()
		if !ok || !isLoc || p.peek().k != ")" {
			// not a plain location path: a general expression is XPath, but outside the documented grammar
			p.i = save
			if !p.expr() {
				return false, false
			}
			p.grey = true
		}
		if p.next().k != ")" {
			return false, false
		}
		if p.peek().k == "[" {
			p.grey = true
			if !p.predicates() {
				return false, false
			}
		}
		if p.isOp("/") {
			p.i++
			return true, p.relPath()
		}
		return true, true
	}
	// FilterExpr ('/' RelativeLocationPath)?
	if !p.primary() {
		return false, false
	}
	if !p.predicates() {
		return false, false
	}
	if p.isOp("/") {
		p.i++
		return false, p.relPath()
	}
	return false, true
}

func (p *sparser) primary() bool {
	t := p.next()
	switch t.k {
	case "(":
		if !p.expr() {
			return false
		}
		return p.next().k == ")"
	case "lit", "num":
		return true
	case "func":
		arity, ok := p.knownFn(t.t)
		if !ok {
			return false
		}
		if p.next().k != "(" {
			return false
		}
		n := 0
		if p.peek().k != ")" {
			for {
				if !p.expr() {
					return false
				}
				n++
				if p.peek().k == "," {
					p.i++
					continue
				}
				break
			}
		}
		if p.next().k != ")" {
			return false
		}
		return n == arity
	}
	return false
}

// RegisteredArity is the declared arity of the registered function table
// (core functions as declared by the code, plus re-match).
func RegisteredArity(name string) (int, bool) {
	if name == "re-match" {
		return 2, true
	}
	if f := FnByName(name); f != nil {
		return len(f.Args), true
	}
	return 0, false
}

// ExprVerdict is the reference verdict for the must/when expression language.
// knownPrefix == nil means no prefix mapping is supplied (every prefix passes).
func ExprVerdict(s string, knownPrefix func(string) bool) Verdict {
	if s == "" || !utf8.ValidString(s) {
		return Reject
	}
	l := &slexer{s: s}
	l.run()
	if l.grey {
		return Grey
	}
	if l.qnameBlank && KnownQNameBlanks != nil && KnownQNameBlanks() {
		return Grey
	}
	if l.bad {
		return Reject
	}
	for _, t := range l.toks {
		switch t.k {
		case "@", "::", "axis", "nodetype":
			return Reject
		case "op":
			if t.t == "//" {
				return Reject
			}
		}
	}
	p := &sparser{toks: l.toks, knownFn: RegisteredArity, knownPf: knownPrefix}
	if !p.expr() || p.i != len(p.toks) {
		return Reject
	}
	if l.grey || p.grey {
		return Grey
	}
	return Accept
}

// ---- RFC 6020 path-arg -------------------------------------------------------

type lrTok struct {
	k string // / .. [ ] = ( ) id
	p string
	t string
}

func isAlpha(b byte) bool { return (b >= 'a' && b <= 'z') || (b >= 'A' && b <= 'Z') }

func lrIdent(s string, pos int) int {
	if pos >= len(s) || !(isAlpha(s[pos]) || s[pos] == '_') {
		return pos
	}
	pos++
	for pos < len(s) && (isAlpha(s[pos]) || isDigit(s[pos]) || s[pos] == '_' || s[pos] == '-' || s[pos] == '.') {
		pos++
	}
	return pos
}

func startsXML(s string) bool {
	return len(s) >= 3 && (s[0]|0x20) == 'x' && (s[1]|0x20) == 'm' && (s[2]|0x20) == 'l'
}

// LeafrefVerdict is the reference verdict for the leafref path language
// (RFC 6020 path-arg, blanks between tokens tolerated).
func LeafrefVerdict(s string, knownPrefix func(string) bool) Verdict {
	if s == "" {
		return Reject
	}
	var toks []lrTok
	grey := false
	pos := 0
	for {
		for pos < len(s) && (s[pos] == ' ' || s[pos] == '\t' || s[pos] == '\r' || s[pos] == '\n') {
			pos++
		}
		if pos >= len(s) {
			break
		}
		c := s[pos]
		switch {
		case c == '/' || c == '[' || c == ']' || c == '=' || c == '(' || c == ')':
			toks = append(toks, lrTok{k: string(c)})
			pos++
		case c == '.':
			if pos+1 < len(s) && s[pos+1] == '.' {
				toks = append(toks, lrTok{k: ".."})
				pos += 2
			} else {
				return Reject
			}
		default:
			e := lrIdent(s, pos)
			if e == pos {
				return Reject
			}
			tk := lrTok{k: "id", t: s[pos:e]}
			pos = e
			// optional ":" identifier; blanks around the colon are tolerated by the code but are
			// not in the ABNF (node-identifier is one token): grey
			q := pos
			for q < len(s) && (s[q] == ' ' || s[q] == '\t' || s[q] == '\r' || s[q] == '\n') {
				q++
			}
			if q < len(s) && s[q] == ':' {
				r := q + 1
				for r < len(s) && (s[r] == ' ' || s[r] == '\t' || s[r] == '\r' || s[r] == '\n') {
					r++
				}
				e2 := lrIdent(s, r)
				if e2 == r {
					return Reject
				}
				if q != pos || r != q+1 {
					grey = true
				}
				tk = lrTok{k: "id", p: tk.t, t: s[r:e2]}
				pos = e2
			}
			if startsXML(tk.t) || startsXML(tk.p) {
				return Reject
			}
			if tk.p != "" && knownPrefix != nil && !knownPrefix(tk.p) {
				return Reject
			}
			toks = append(toks, tk)
		}
	}
	i := 0
	peek := func() string {
		if i < len(toks) {
			return toks[i].k
		}
		return "eof"
	}
	nodeID := func() bool {
		if peek() == "id" {
			// "current" followed by "(" is the function, never a node identifier here
			i++
			return true
		}
		return false
	}
	predicate := func() bool {
		// "[" node-identifier "=" current "(" ")" "/" 1*(".." "/") *(node-identifier "/") node-identifier "]"
		if peek() != "[" {
			return false
		}
		i++
		if !nodeID() {
			return false
		}
		if peek() != "=" {
			return false
		}
		i++
		if peek() != "id" || toks[i].t != "current" || toks[i].p != "" {
			return false
		}
		i++
		if peek() != "(" {
			return false
		}
		i++
		if peek() != ")" {
			return false
		}
		i++
		if peek() != "/" {
			return false
		}
		i++
		ups := 0
		for peek() == ".." {
			i++
			if peek() != "/" {
				return false
			}
			i++
			ups++
		}
		if ups == 0 {
			return false
		}
		if !nodeID() {
			return false
		}
		for peek() == "/" {
			i++
			if !nodeID() {
				return false
			}
		}
		if peek() != "]" {
			return false
		}
		i++
		return true
	}
	// absolute-path = 1*("/" (node-identifier *path-predicate))
	absolute := func() bool {
		n := 0
		for peek() == "/" {
			i++
			if !nodeID() {
				return false
			}
			for peek() == "[" {
				if !predicate() {
					return false
				}
			}
			n++
		}
		return n > 0
	}
	ok := false
	switch peek() {
	case "/":
		ok = absolute()
	case "..":
		for peek() == ".." {
			i++
			if peek() != "/" {
				return Reject
			}
			i++
		}
		// descendant-path = node-identifier [*path-predicate absolute-path]
		if !nodeID() {
			return Reject
		}
		ok = true
		if peek() == "[" || peek() == "/" {
			for peek() == "[" {
				if !predicate() {
					return Reject
				}
			}
			ok = absolute()
		}
	}
	if !ok || i != len(toks) {
		return Reject
	}
	// a node identifier named "current" directly followed by "(" cannot occur in a valid sentence
	if grey {
		return Grey
	}
	return Accept
}
