package c19

// Decoding with validation: "an error or a tree that conforms to the schema" includes the constraints of the schema
// that span nodes - unique sets (in which a leaf that is absent counts with its default), mandatory leaves and
// element counts.  The codec check has no such statements in its schemas; this one builds a small family of
// schemas around one list that has them all and data that keeps or breaks each in turn.  The verdict expected of the
// validating decoder is computed from the data by the three rules of RFC 6020 (7.8.3, 7.6.5, 7.7.3/7.7.4), the
// non-validating decoder has to return the tree as written, or an error if the tree breaks a constraint.

import (
	"fmt"
	"strings"
	"testing"

	"verifharness/fw"
	"verifharness/sg"
	"verifharness/sgc"

	"pgregory.net/rapid"
)

type ConEntry struct {
	Key  string `json:"key"`
	IP   string `json:"ip,omitempty"`   // "" = absent
	Port string `json:"port,omitempty"` // "" = absent (the default then counts, if the schema has one)
	Mand bool   `json:"mand"`           // the mandatory leaf is given
}

type ConCase struct {
	Place       int        `json:"place"`      // 0 below the top container, 1 below a presence container, 2 in an entry of an outer list, 3 in a case of a choice
	TopDefault  bool       `json:"topdefault"` // a leaf with a default directly below the top container (the root then "has a default")
	PortDefault bool       `json:"portdefault"`
	Mandatory   bool       `json:"mandatory"` // the list has a mandatory leaf
	Min, Max    int        // 0 = no statement
	Entries     []ConEntry `json:"entries"`
	// Expr: a must or when on a leaf of the list that holds in every tree (it names the key of the entry, or counts it,
	// or measures the leaf's own value): 0 none, 1-4 the forms of conExprs
	Expr int `json:"expr,omitempty"`
}

var conExprs = []struct{ leaf, must, when string }{{}, {"gip", "../gk", ""}, {"gport", "count(../gk) = 1", ""}, {"gip", "", "../gk"}, {"gip", "string-length(.) > 0", ""}}

func genCon(t *rapid.T) ConCase {
	g := &sg.G{T: t}
	c := ConCase{Place: g.Pick(4, "place"), TopDefault: g.Chance(1, 3, "topdefault"), PortDefault: g.Chance(3, 4, "portdefault"), Mandatory: g.Bool("mandatory"),
		Min: []int{0, 0, 1, 2}[g.Pick(4, "min")], Max: []int{0, 0, 2, 3}[g.Pick(4, "max")]}
	if c.Max != 0 && c.Max < c.Min {
		c.Max = c.Min
	}
	if g.Chance(1, 4, "expr") {
		c.Expr = 1 + g.Pick(len(conExprs)-1, "whichexpr")
	}
	n := 1 + g.Pick(4, "entries")
	for i := 0; i < n; i++ {
		e := ConEntry{Key: fmt.Sprintf("k%d", i), Mand: !g.Chance(1, 6, "nomand")}
		e.IP = []string{"10.0.0.1", "10.0.0.1", "10.0.0.2", ""}[g.Pick(4, "ip")]
		e.Port = []string{"8080", "", "", "9090"}[g.Pick(4, "port")]
		c.Entries = append(c.Entries, e)
	}
	return c
}

func (c ConCase) mods() []*sg.Mod {
	str := func() *sg.TypeSpec { return &sg.TypeSpec{Name: "string"} }
	port := &sg.Node{Kind: "leaf", Name: "gport", Type: &sg.TypeSpec{Name: "uint16"}}
	if c.PortDefault {
		d := "8080"
		port.Default = &d
	}
	l := &sg.Node{Kind: "list", Name: "gq", Key: "gk", Uniques: []string{"gip gport"}, Kids: []*sg.Node{
		{Kind: "leaf", Name: "gk", Type: str()}, {Kind: "leaf", Name: "gip", Type: str()}, port}}
	if c.Mandatory {
		l.Kids = append(l.Kids, &sg.Node{Kind: "leaf", Name: "gmand", Type: str(), Mandatory: "true"})
	}
	if c.Expr > 0 && c.Expr < len(conExprs) {
		for _, k := range l.Kids {
			if e := conExprs[c.Expr]; k.Name == e.leaf {
				k.When = e.when
				if e.must != "" {
					k.Musts = []sg.Must{{Expr: e.must}}
				}
			}
		}
	}
	if c.Min > 0 {
		l.Min = fmt.Sprint(c.Min)
	}
	if c.Max > 0 {
		l.Max = fmt.Sprint(c.Max)
	}
	var holder *sg.Node
	switch c.Place {
	case 0:
		holder = l
	case 1:
		holder = &sg.Node{Kind: "container", Name: "gpres", Presence: "p", Kids: []*sg.Node{l}}
	case 2:
		holder = &sg.Node{Kind: "list", Name: "gouter", Key: "gok", Kids: []*sg.Node{{Kind: "leaf", Name: "gok", Type: str()}, l}}
	default:
		holder = &sg.Node{Kind: "choice", Name: "gch", Kids: []*sg.Node{{Kind: "case", Name: "gcs", Kids: []*sg.Node{l}}, {Kind: "case", Name: "gcs2", Kids: []*sg.Node{{Kind: "leaf", Name: "gother", Type: str()}}}}}
	}
	top := &sg.Node{Kind: "container", Name: "m0-top", Kids: []*sg.Node{holder}}
	if c.TopDefault {
		d := "dv"
		top.Kids = append(top.Kids, &sg.Node{Kind: "leaf", Name: "gtopdef", Type: str(), Default: &d})
	}
	return []*sg.Mod{{Name: "m0", Prefix: "m0", Nodes: []*sg.Node{top}}}
}

func (c ConCase) data() []*D {
	lst := &D{Name: "gq"}
	for _, e := range c.Entries {
		d := &D{Name: e.Key, Kids: []*D{{Name: "gk", Vals: []string{e.Key}}}}
		if e.IP != "" {
			d.Kids = append(d.Kids, &D{Name: "gip", Vals: []string{e.IP}})
		}
		if e.Port != "" {
			d.Kids = append(d.Kids, &D{Name: "gport", Vals: []string{e.Port}})
		}
		if c.Mandatory && e.Mand {
			d.Kids = append(d.Kids, &D{Name: "gmand", Vals: []string{"m"}})
		}
		lst.Kids = append(lst.Kids, d)
	}
	var inner *D
	switch c.Place {
	case 1:
		inner = &D{Name: "gpres", Kids: []*D{lst}}
	case 2:
		inner = &D{Name: "gouter", Kids: []*D{{Name: "o1", Kids: []*D{{Name: "gok", Vals: []string{"o1"}}, lst}}}}
	default:
		inner = lst
	}
	return []*D{{Name: "m0-top", Kids: []*D{inner}}}
}

// broken lists the constraints the data breaks.
func (c ConCase) broken() []string {
	var out []string
	if c.Mandatory {
		for _, e := range c.Entries {
			if !e.Mand {
				out = append(out, "mandatory leaf missing in "+e.Key)
			}
		}
	}
	if c.Min > 0 && len(c.Entries) < c.Min {
		out = append(out, "fewer entries than min-elements")
	}
	if c.Max > 0 && len(c.Entries) > c.Max {
		out = append(out, "more entries than max-elements")
	}
	eff := func(e ConEntry) (string, bool) {
		p := e.Port
		if p == "" && c.PortDefault {
			p = "8080"
		}
		if e.IP == "" || p == "" {
			return "", false // an entry that lacks a leaf of the set is not compared
		}
		return e.IP + "\x00" + p, true
	}
	seen := map[string]string{}
	for _, e := range c.Entries {
		if t, ok := eff(e); ok {
			if o, dup := seen[t]; dup {
				out = append(out, fmt.Sprintf("entries %s and %s agree on the unique set", o, e.Key))
			}
			seen[t] = e.Key
		}
	}
	return out
}

func checkCon(c ConCase) fw.Outcome {
	out := fw.Outcome{}
	mods := c.mods()
	res := sgc.Compile(mods, sgc.Opts{Features: sgc.AllFeatures{}})
	src := mods[0].Text()
	if !res.OK() {
		out.Violation = "harness: schema does not compile: " + res.Describe() + "\n" + src
		return out
	}
	oi := collect(mods)
	data := c.data()
	var wb strings.Builder
	canon(oi, data, 0, &wb, false)
	out.Key = src + wb.String()
	root := D{Name: "root", Kids: data}
	broken := c.broken()
	usesDefault := false
	for _, e := range c.Entries {
		if e.Port == "" && e.IP != "" && c.PortDefault {
			usesDefault = true
		}
	}
	if len(broken) > 0 {
		out.Labels = append(out.Labels, "breaks-a-constraint")
		for _, b := range broken {
			if strings.Contains(b, "unique") && usesDefault {
				out.Labels = append(out.Labels, "unique-through-default")
			}
		}
	} else {
		out.Labels = append(out.Labels, "keeps-all")
	}
	if c.Expr > 0 {
		out.Labels = append(out.Labels, "must-or-when")
	}
	out.NonTrivial = usesDefault || len(broken) > 0
	for i := range encNames {
		var b []byte
		var pan any
		func() {
			defer func() { pan = recover() }()
			b = encode(i, res.MS, root.node())
		}()
		if pan != nil {
			out.Violation = fmt.Sprintf("%s encoder panicked: %v\ndata:\n%s\n%s", encNames[i], pan, wb.String(), src)
			return out
		}
		for _, validate := range []bool{true, false} {
			got, err, pan := decode(i, res.MS, b, validate)
			if pan != nil {
				out.Violation = fmt.Sprintf("%s decoder panicked (validation %v): %v\n%s\n%s", encNames[i], validate, pan, b, src)
				return out
			}
			if validate && err != nil && c.Expr > 0 && (strings.Contains(err.Error(), "invalid memory address or nil pointer dereference") || strings.Contains(err.Error(), "Stack underflow")) &&
				fw.Known("c19.validator-runs-paths-without-data-tree") {
				// known finding: schema/validate.go runs must and when through xpath.NewCtxFromMach, which has no path stack
				out.Labels = append(out.Labels, "known:must-when-paths")
				continue
			}
			if validate && len(broken) > 0 {
				if err == nil {
					out.Violation = fmt.Sprintf("%s: the validating decoder returns a tree that does not conform to the schema (%s)\nencoding: %s\n%s", encNames[i], strings.Join(broken, "; "), b, src)
					return out
				}
				continue
			}
			if err != nil && len(broken) > 0 {
				// validation off: the decoder may still notice (the XML decoder counts elements while it collects them)
				out.Labels = append(out.Labels, "refused-without-validation")
				continue
			}
			if err != nil {
				out.Violation = fmt.Sprintf("%s: decoding a tree that keeps every constraint fails (validation %v): %v\nencoding: %s\n%s", encNames[i], validate, err, b, src)
				return out
			}
			var gb strings.Builder
			canon(oi, got.Kids, 0, &gb, false)
			if gb.String() != wb.String() {
				out.Violation = fmt.Sprintf("%s round trip changes the tree (validation %v)\n--- original\n%s--- decoded\n%s--- encoding\n%s\n%s", encNames[i], validate, wb.String(), gb.String(), b, src)
				return out
			}
		}
	}
	return out
}

var constraints = fw.Register(&fw.Prop[ConCase]{
	ID: "C19", Name: "constraints",
	Rule: "a list with a unique set over two leaves (one of them with or without a default), an optional mandatory leaf and optional min-/max-elements, placed below the top container, a presence container, " +
		"an entry of an outer list or a case of a choice, with or without a defaulted leaf directly below the top container, a quarter with a must or when on a leaf that holds in every tree; 1-4 entries that give or omit each leaf; oracle: the constraints the data breaks " +
		"are computed from it (RFC 6020 7.8.3 with defaults counted, 7.6.5, 7.7.3/7.7.4): every validating decoder rejects exactly the trees that break one; a non-validating decoder returns the tree as written (or an error, for a tree that breaks a " +
		"constraint); accepted trees round-trip unchanged; non-trivial = a constraint is broken or a default takes part in the unique set",
	Gen: genCon, Check: checkCon, Weight: 0.15,
	MinLabel: []string{"breaks-a-constraint", "keeps-all", "unique-through-default"},
})

func TestConstraints(t *testing.T) { fw.Run(t, constraints) }
