// Package c19: encoders and decoders round-trip and decoding is total.
package c19

import (
	"bytes"
	"fmt"
	"math/big"
	"regexp"
	"sort"
	"strings"
	"testing"
	"unicode/utf8"

	"verifharness/fw"
	"verifharness/sg"
	"verifharness/sgc"
	"verifharness/vt"

	"github.com/sdcio/yang-parser/data/datanode"
	"github.com/sdcio/yang-parser/data/encoding"
	"github.com/sdcio/yang-parser/schema"
	"pgregory.net/rapid"
)

type D struct {
	Name string   `json:"name"`
	Kids []*D     `json:"kids,omitempty"`
	Vals []string `json:"vals,omitempty"`
}

type Case struct {
	Mods     []*sg.Mod `json:"mods"`
	Data     []*D      `json:"data"`
	Mutation *Mut      `json:"mutation,omitempty"` // decoding mode: which encoding to mutate and how
}

type Mut struct {
	Enc  int     `json:"enc"` // 0 RFC7951 1 JSON 2 XML
	Kind string  `json:"kind"`
	Pos  int     `json:"pos"`
	Arg  string  `json:"arg,omitempty"`
	Raw  fw.BStr `json:"raw,omitempty"` // kind "raw": the whole input (replays and native fuzzing)
}

func (d *D) node() datanode.DataNode {
	var kids []datanode.DataNode
	for _, k := range d.Kids {
		kids = append(kids, k.node())
	}
	return datanode.CreateDataNode(d.Name, kids, d.Vals)
}

type gen struct {
	g    *sg.G
	n    int
	used map[string]bool
}

// vocabulary: node names as real models use them (some are also element names of other XML vocabularies, keywords of
// YANG or JSON, or differ only in case / punctuation); each is used at most once per schema
var vocabulary = []string{"area", "link", "base", "input", "meta", "param", "frame", "col", "img", "br", "hr", "name", "type", "value", "address", "port",
	"interface", "config", "state", "enabled", "description", "id", "key", "data", "item", "entry", "list", "leaf", "container", "root", "top", "A",
	"class", "for", "if", "x-y", "x.y", "_u", "Name", "null", "true", "false", "body", "head", "p", "i", "table", "tr", "td", "html", "isindex", "basefont", "Link", "AREA"}

func (x *gen) id(p string) string {
	x.n++
	if x.used == nil {
		x.used = map[string]bool{}
	}
	if x.g.Chance(1, 2, "vocab") {
		v := vocabulary[x.g.Pick(len(vocabulary), "word")]
		if !x.used[v] {
			x.used[v] = true
			return v
		}
	}
	return fmt.Sprintf("%s%d", p, x.n)
}

var stringPool = []string{"plain", "", " lead", "trail ", "a<b", "a>b", "a&b", "say \"hi\"", "it's", "tab\there", "line1\nline2", "cr\rhere", "crlf\r\nx", "é", "日本語", "\U0001F600", "]]>", "<!--x-->", "&amp;", "a b", " nbsp", "x y", "{\"j\":1}", "[1,2]", "null", "true", "12", "1e3",
	// legal characters that escaping routines treat specially: DEL, zero-width and line/paragraph separators, NEL, tag
	// characters, supplementary private use, musical formatting controls
	"del\x7f", "zw\u200bsp", "ls\u2028ps\u2029", "nel\u0085", "\U000E0067\U000E007F", "\U000F0000pua", "\U0001D173x", "\ufeffbom", "a\u0300"}

// leaf types of the pool with value generators
func (x *gen) leafType() (*sg.TypeSpec, func() string) {
	g := x.g
	pickFrom := func(vals []string) func() string { return func() string { return vals[g.Pick(len(vals), "v")] } }
	switch g.Pick(15, "ltype") {
	case 13:
		// a member that takes the bare name of an identity stands before the identityref: the qualified spelling of the
		// same identity is a value of the identityref member only
		return &sg.TypeSpec{Name: "union", Members: []*sg.TypeSpec{{Name: "string", Patterns: []string{"[a-z][a-z0-9-]*"}}, {Name: "identityref", Base: "m0:b0"}}}, nil
	case 0:
		return &sg.TypeSpec{Name: "int8"}, pickFrom([]string{"-128", "127", "0", "-1", "5"})
	case 1:
		return &sg.TypeSpec{Name: "int32"}, pickFrom([]string{"-2147483648", "2147483647", "0", "42"})
	case 2:
		return &sg.TypeSpec{Name: "int64"}, pickFrom([]string{"-9223372036854775808", "9223372036854775807", "9007199254740993", "-9007199254740993", "9007199254740992", "0", "1"})
	case 3:
		return &sg.TypeSpec{Name: "uint64"}, pickFrom([]string{"18446744073709551615", "9007199254740993", "18446744073709551614", "0", "7"})
	case 4:
		return &sg.TypeSpec{Name: "uint16"}, pickFrom([]string{"0", "65535", "80"})
	case 5:
		return &sg.TypeSpec{Name: "decimal64", FD: 2}, pickFrom([]string{"0.00", "1.5", "-1.25", "3", "1234567.89", "0.1"})
	case 6:
		return &sg.TypeSpec{Name: "boolean"}, pickFrom([]string{"true", "false"})
	case 7:
		return &sg.TypeSpec{Name: "enumeration", Enums: []string{"one", "two words", "3"}}, pickFrom([]string{"one", "two words", "3"})
	case 8:
		return &sg.TypeSpec{Name: "identityref", Base: "m0:b0"}, nil // values depend on the leaf's module
	case 9:
		return &sg.TypeSpec{Name: "union", Members: []*sg.TypeSpec{{Name: "int32"}, {Name: "enumeration", Enums: []string{"auto"}}}}, pickFrom([]string{"5", "-7", "auto"})
	case 10:
		return &sg.TypeSpec{Name: "union", Members: []*sg.TypeSpec{{Name: "identityref", Base: "m0:b0"}, {Name: "uint8"}}}, nil
	case 11:
		return &sg.TypeSpec{Name: "m0:percent"}, pickFrom([]string{"0", "100", "50"})
	default:
		return &sg.TypeSpec{Name: "string"}, pickFrom(stringPool)
	}
}

type leafInfo struct {
	gen func() string
	ts  *sg.TypeSpec
}

type world struct {
	vals map[string]leafInfo // by leaf name (names are unique)
	mod  map[string]string   // module of each node name
}

func identValues(mod string) []string {
	// m0: b0 <- d1 <- d2 ; m1: e1 <- m0:d1, d2 <- m0:b0 (m0:d2 and m1:d2 are two identities of one name)
	if mod == "m0" {
		return []string{"d1", "d2", "m1:e1", "m1:d2"}
	}
	return []string{"m0:d1", "m0:d2", "e1", "d2"}
}

func (x *gen) leaf(w *world, mod string, name string, allowEmpty bool) *sg.Node {
	g := x.g
	if allowEmpty && g.Chance(1, 10, "empty") {
		w.vals[name] = leafInfo{gen: func() string { return "" }, ts: &sg.TypeSpec{Name: "empty"}}
		w.mod[name] = mod
		return &sg.Node{Kind: "leaf", Name: name, Type: &sg.TypeSpec{Name: "empty"}}
	}
	ts, vg := x.leafType()
	if ts.Name == "m0:percent" && mod == "m0" {
		ts = &sg.TypeSpec{Name: "percent"}
	}
	fix := func(t *sg.TypeSpec) {
		if t.Name == "identityref" && mod == "m0" {
			t.Base = "b0"
		}
	}
	fix(ts)
	for _, m := range ts.Members {
		fix(m)
	}
	if vg == nil {
		vals := identValues(mod)
		if ts.Name == "union" && ts.Members[0].Name == "string" {
			vals = append(vals, "plain-word")
		} else if ts.Name == "union" {
			vals = append(vals, "200")
		}
		vg = func() string { return vals[g.Pick(len(vals), "idv")] }
	}
	w.vals[name] = leafInfo{gen: vg, ts: ts}
	w.mod[name] = mod
	return &sg.Node{Kind: "leaf", Name: name, Type: ts}
}

func (x *gen) body(w *world, mod string, depth int) []*sg.Node {
	g := x.g
	n := 1 + g.Pick(4, "nbody")
	var out []*sg.Node
	for i := 0; i < n; i++ {
		k := g.Pick(6, "kind")
		if depth <= 0 && k >= 2 {
			k = 0
		}
		switch k {
		case 0, 1:
			out = append(out, x.leaf(w, mod, x.id("lf"), true))
		case 2:
			c := &sg.Node{Kind: "container", Name: x.id("c"), Kids: x.body(w, mod, depth-1)}
			if g.Bool("presence") {
				c.Presence = "p"
			}
			w.mod[c.Name] = mod
			out = append(out, c)
		case 3:
			name := x.id("ls")
			key := x.leaf(w, mod, name+"key", false)
			// keys: simple types only
			key.Type = &sg.TypeSpec{Name: []string{"string", "uint16", "int8"}[g.Pick(3, "keytype")]}
			kt := key.Type.Name
			w.vals[key.Name] = leafInfo{ts: key.Type, gen: func() string {
				if kt == "string" {
					return []string{"a", "b", "c d", "é", "k/1", "x:y"}[g.Pick(6, "kv")]
				}
				return []string{"1", "2", "3", "10", "0", "127"}[g.Pick(6, "kn")]
			}}
			l := &sg.Node{Kind: "list", Name: name, Key: key.Name, Kids: append([]*sg.Node{key}, x.body(w, mod, depth-1)...)}
			if g.Chance(1, 3, "key2") {
				// a second key: entries may share the value of the first one
				k2 := &sg.Node{Kind: "leaf", Name: name + "key2", Type: &sg.TypeSpec{Name: "uint16"}}
				w.vals[k2.Name] = leafInfo{ts: k2.Type, gen: func() string { return []string{"1", "2", "3", "10"}[g.Pick(4, "k2v")] }}
				w.mod[k2.Name] = mod
				l.Key += " " + k2.Name
				l.Kids = append([]*sg.Node{key, k2}, l.Kids[1:]...)
			}
			if g.Bool("userordered") {
				l.OrdBy = "user"
			}
			w.mod[name] = mod
			out = append(out, l)
		case 4:
			name := x.id("ll")
			lf := x.leaf(w, mod, name, false)
			ll := &sg.Node{Kind: "leaf-list", Name: name, Type: lf.Type}
			if g.Bool("lluser") {
				ll.OrdBy = "user"
			}
			// a state leaf-list may hold the same value several times (RFC 6020 7.7: values are unique in configuration)
			if g.Chance(1, 3, "llstate") {
				ll.Config = "false"
			}
			out = append(out, ll)
		default:
			ch := &sg.Node{Kind: "choice", Name: x.id("ch")}
			for j := 0; j < 2; j++ {
				ch.Kids = append(ch.Kids, &sg.Node{Kind: "case", Name: x.id("cs"), Kids: []*sg.Node{x.leaf(w, mod, x.id("cl"), true)}})
			}
			out = append(out, ch)
		}
	}
	return out
}

func schemaAndWorld(g *sg.G) ([]*sg.Mod, *world) {
	x := &gen{g: g}
	w := &world{vals: map[string]leafInfo{}, mod: map[string]string{}}
	m0 := &sg.Mod{Name: "m0", Prefix: "m0", Identities: []*sg.Identity{{Name: "b0"}, {Name: "d1", Base: "b0"}, {Name: "d2", Base: "d1"}},
		Typedefs: []*sg.Typedef{{Name: "percent", Type: &sg.TypeSpec{Name: "uint8", Range: "0..100"}}}}
	m1 := &sg.Mod{Name: "m1", Prefix: "m1", Imports: []sg.Import{{Mod: "m0", Prefix: "m0"}}, Identities: []*sg.Identity{{Name: "e1", Base: "m0:d1"}, {Name: "d2", Base: "m0:b0"}}}
	top0 := &sg.Node{Kind: "container", Name: "m0-top", Kids: x.body(w, "m0", 2)}
	w.mod["m0-top"] = "m0"
	m0.Nodes = []*sg.Node{top0}
	top1 := &sg.Node{Kind: "container", Name: "m1-top", Kids: x.body(w, "m1", 2)}
	w.mod["m1-top"] = "m1"
	m1.Nodes = []*sg.Node{top1}
	// nodes of m1 interleaved into m0's tree
	m1.Augments = []*sg.Augment{{Target: "/m0:m0-top", Kids: x.body(w, "m1", 1)}}
	return []*sg.Mod{m0, m1}, w
}

// data: valid by construction
func (x *gen) data(w *world, kids []*sg.Node, depth int) []*D {
	g := x.g
	var out []*D
	for _, n := range kids {
		switch n.Kind {
		case "leaf":
			if g.Chance(3, 4, "present") {
				out = append(out, &D{Name: n.Name, Vals: []string{w.vals[n.Name].gen()}})
			}
		case "leaf-list":
			k := g.Pick(5, "llcount")
			seen := map[string]bool{}
			d := &D{Name: n.Name}
			for i := 0; i < k; i++ {
				v := w.vals[n.Name].gen()
				if n.Config == "false" && len(d.Vals) > 0 && g.Chance(1, 3, "llrepeat") {
					v = d.Vals[g.Pick(len(d.Vals), "llrepeatof")]
				}
				if !seen[v] || n.Config == "false" {
					seen[v] = true
					d.Vals = append(d.Vals, v)
				}
			}
			if len(d.Vals) > 0 {
				out = append(out, d)
			}
		case "container":
			if g.Chance(3, 4, "cpresent") {
				out = append(out, &D{Name: n.Name, Kids: x.data(w, n.Kids, depth-1)})
			}
		case "list":
			k := g.Pick(5, "entries")
			d := &D{Name: n.Name}
			seen := map[string]bool{}
			keys := strings.Fields(n.Key)
			for i := 0; i < k; i++ {
				kv := w.vals[keys[0]].gen()
				e := &D{Name: kv, Kids: []*D{{Name: keys[0], Vals: []string{kv}}}}
				tuple := kv
				for _, kn := range keys[1:] {
					v2 := w.vals[kn].gen()
					tuple += "\x00" + v2
					e.Kids = append(e.Kids, &D{Name: kn, Vals: []string{v2}})
				}
				if seen[tuple] {
					continue
				}
				seen[tuple] = true
				e.Kids = append(e.Kids, x.data(w, n.Kids[len(keys):], depth-1)...)
				d.Kids = append(d.Kids, e)
			}
			if len(d.Kids) > 0 {
				out = append(out, d)
			}
		case "choice":
			if g.Chance(2, 3, "case") {
				cs := n.Kids[g.Pick(len(n.Kids), "which")]
				out = append(out, x.data(w, cs.Kids, depth)...)
			}
		}
	}
	return out
}

func genCase(t *rapid.T) Case {
	g := &sg.G{T: t}
	mods, w := schemaAndWorld(g)
	inl, _, _ := sg.Inline(mods)
	x := &gen{g: g}
	var tops []*sg.Node
	for _, m := range inl {
		tops = append(tops, m.Nodes...)
	}
	c := Case{Mods: mods, Data: x.data(w, tops, 3)}
	if g.Chance(1, 2, "decodemode") {
		c.Mutation = &Mut{Enc: g.Pick(3, "enc"), Kind: []string{"truncate", "byte", "token", "dup", "swaptype", "insert", "badvalue", "badvalue", "extranode", "dupmember"}[g.Pick(10, "mkind")], Pos: g.Pick(100000, "pos"),
			Arg: []string{"1.5", "1e3", "123456789012345678901234567890", "null", "true", "\"str\"", "[]", "{}", "[null]", "-0", "<x/>", "&amp;", " ", "9007199254740993", "0.1", "\"1\"",
				"", "abc", "256", "-129", "1.234", "m1:zzz", "zzz", "99999999999999999999", " 5", "5 ", "+5", "0x10", "\u0661", "101", "65536", "m0:d1", "d1", "m1:e1", "e1", "two", "TRUE", "1.50", "00",
				"m1:d1", "zz:d1", "m0:e1", "zz:e1", "m1:d2", "m0:d2", ":d1", "m0:", "m1:one", "m0:5", "010", "-010", "0017", "+012"}[g.Pick(53, "marg")]}
	}
	if c.Mutation != nil && c.Mutation.Kind == "badvalue" && g.Chance(2, 3, "typedbad") {
		// type-aware near misses: pick the leaf first (same pre-order as the check uses), then a value its type should reject
		var leaves []*D
		var walkD func(ds []*D)
		walkD = func(ds []*D) {
			for _, d := range ds {
				if len(d.Vals) > 0 {
					leaves = append(leaves, d)
				}
				walkD(d.Kids)
			}
		}
		walkD(c.Data)
		if len(leaves) > 0 {
			idx := g.Pick(len(leaves), "badleaf")
			// identityref leaves have the richest near-miss space (qualified / unqualified / foreign module): prefer them half of the time
			var idrefs []int
			for i, l := range leaves {
				if li, ok := w.vals[l.Name]; ok && li.ts != nil && (li.ts.Name == "identityref" || (li.ts.Name == "union" && li.ts.Members[0].Name == "identityref")) {
					idrefs = append(idrefs, i)
				}
			}
			if len(idrefs) > 0 && g.Bool("preferidref") {
				idx = idrefs[g.Pick(len(idrefs), "idrefleaf")]
			}
			var pool []string
			if li, ok := w.vals[leaves[idx].Name]; ok && li.ts != nil {
				name := li.ts.Name
				if name == "union" {
					name = li.ts.Members[0].Name
				}
				switch {
				case name == "identityref":
					pool = []string{"m1:d1", "zz:d1", "m0:e1", "zz:e1", "m1:d2", "m0:d2", ":d1", "m0:", "d3", "m0:b0", "b0", "m1:b0"}
				case strings.HasPrefix(name, "int") || strings.HasPrefix(name, "uint") || strings.HasSuffix(name, "percent"):
					pool = []string{"128", "-129", "256", "-1", "65536", "1.0", "1e1", " 5", "5 ", "0x10", "\u0665", "101", "18446744073709551616", "-9223372036854775809", "2147483648",
						// decimal integers with leading zeros (valid lexical forms): not octal
						"010", "-010", "0017", "+012", "0100"}
				case name == "decimal64":
					pool = []string{"1.234", "1e2", "abc", "1.", "0.001", ".5", "92233720368547758.08", "--1"}
				case name == "enumeration":
					pool = []string{"One", "one ", " one", "two", "two  words", "4", "m0:one", ""}
				case name == "boolean":
					pool = []string{"TRUE", "1", "yes", "True", " true", ""}
				case name == "empty":
					pool = []string{"x", " ", "0"}
				}
				if name != "identityref" && name != "empty" && len(leaves[idx].Vals) > 0 {
					// the module-qualified form is an alternative spelling of identities only: a valid value of any other type
					// behind the name of the leaf's module is not a value of that type
					pool = append(pool, w.mod[leaves[idx].Name]+":"+leaves[idx].Vals[0], w.mod[leaves[idx].Name]+":"+leaves[idx].Vals[0])
				}
			}
			if len(pool) > 0 {
				c.Mutation.Pos = idx
				c.Mutation.Arg = pool[g.Pick(len(pool), "badarg")]
			}
		}
	}
	return c
}

// identitySpace is the part of a value space that consists of identities (an identityref, or the identityref members of a union).
func identitySpace(sp *vt.Space) *vt.Space {
	switch sp.Kind {
	case "identityref":
		return sp
	case "union":
		out := &vt.Space{Kind: "union"}
		for _, m := range sp.Members {
			if is := identitySpace(m); is.Kind != "union" || len(is.Members) > 0 {
				out.Members = append(out.Members, is)
			}
		}
		return out
	}
	return &vt.Space{Kind: "union"}
}

// ---- comparison ------------------------------------------------------------------------------

type orderInfo struct {
	userOrdered map[string]bool
	types       map[string]*sg.TypeSpec
	mod         map[string]string
	leafMod     map[string]*sg.Mod
	lists       map[string]bool
	leaves      map[string]bool
	keyOf       map[string]string
}

func collect(mods []*sg.Mod) *orderInfo {
	oi := &orderInfo{userOrdered: map[string]bool{}, types: map[string]*sg.TypeSpec{}, mod: map[string]string{}, leafMod: map[string]*sg.Mod{}, lists: map[string]bool{}, leaves: map[string]bool{}, keyOf: map[string]string{}}
	var walk func(m *sg.Mod, kids []*sg.Node)
	walk = func(m *sg.Mod, kids []*sg.Node) {
		for _, k := range kids {
			if k.OrdBy == "user" {
				oi.userOrdered[k.Name] = true
			}
			if k.Kind == "list" {
				oi.lists[k.Name] = true
				oi.keyOf[k.Name] = strings.Fields(k.Key)[0]
			}
			if k.Kind == "leaf" {
				oi.leaves[k.Name] = true
			}
			if k.Type != nil {
				oi.types[k.Name] = k.Type
				oi.leafMod[k.Name] = m
			}
			walk(m, k.Kids)
		}
	}
	for _, m := range mods {
		walk(m, m.Nodes)
		for _, a := range m.Augments {
			walk(m, a.Kids)
		}
	}
	return oi
}

func canon(oi *orderInfo, ds []*D, depth int, b *strings.Builder, parentUser bool) {
	canonE(oi, ds, depth, b, parentUser, false)
}

// canonE: areEntries says that ds are the entries of a list - their names are key values, not schema names
func canonE(oi *orderInfo, ds []*D, depth int, b *strings.Builder, parentUser bool, areEntries bool) {
	var parts []string
	for _, d := range ds {
		var sb strings.Builder
		vals := append([]string(nil), d.Vals...)
		isList := !areEntries && oi.lists[d.Name]
		user := !areEntries && oi.userOrdered[d.Name]
		if !user {
			sort.Strings(vals)
		}
		fmt.Fprintf(&sb, "%s%s %q\n", strings.Repeat("  ", depth), d.Name, vals)
		// entries of a user-ordered list keep their order; everything else is a multiset
		canonE(oi, d.Kids, depth+1, &sb, user && isList, isList)
		parts = append(parts, sb.String())
	}
	if !parentUser {
		// by name, then by content: entries of a list with several keys may share their name (the first key's value)
		sort.Strings(parts)
	}
	for _, p := range parts {
		b.WriteString(p)
	}
}

func fromDataNode(n datanode.DataNode) *D {
	d := &D{Name: n.YangDataName(), Vals: append([]string(nil), n.YangDataValuesNoSorting()...)}
	for _, k := range n.YangDataChildrenNoSorting() {
		d.Kids = append(d.Kids, fromDataNode(k))
	}
	return d
}

var encNames = []string{"RFC7951", "JSON", "XML"}
var encTypes = []encoding.EncType{encoding.RFC7951, encoding.JSON, encoding.XML}

func encode(i int, ms schema.ModelSet, root datanode.DataNode) []byte {
	switch i {
	case 0:
		return encoding.ToRFC7951(ms, root)
	case 1:
		return encoding.ToJSON(ms, root)
	}
	return encoding.ToXML(ms, root)
}

func decode(i int, ms schema.ModelSet, b []byte, validate bool) (d *D, err error, pan any) {
	defer func() { pan = recover() }()
	vt := schema.ValidateAll
	if !validate {
		vt = schema.DontValidate
	}
	um := encoding.NewUnmarshaller(encTypes[i])
	if !validate || len(b)%2 == 0 {
		um = um.SetValidation(vt)
	}
	// (else: a decoder as NewUnmarshaller hands it out validates, whatever earlier decoders were told)
	n, e := um.Unmarshal(ms, b)
	if e != nil {
		return nil, e, nil
	}
	return fromDataNode(n), nil, nil
}

// conforms: every name exists in the schema and every leaf value is a member of its type
func conforms(mods []*sg.Mod, oi *orderInfo, known map[string]bool, ds []*D, isEntry bool, parent string) string {
	if !isEntry {
		seen := map[string]bool{}
		for _, d := range ds {
			if seen[d.Name] {
				return fmt.Sprintf("node %q occurs twice below %q", d.Name, parent)
			}
			seen[d.Name] = true
		}
	}
	for _, d := range ds {
		if !isEntry && !known[d.Name] {
			return fmt.Sprintf("node %q does not exist in the schema", d.Name)
		}
		if !isEntry && oi.leaves[d.Name] && len(d.Vals) != 1 {
			return fmt.Sprintf("leaf %s holds %d values", d.Name, len(d.Vals))
		}
		if !isEntry && oi.types[d.Name] == nil && len(d.Vals) != 0 {
			return fmt.Sprintf("interior node %s holds values %q", d.Name, d.Vals)
		}
		if !isEntry && oi.types[d.Name] != nil && len(d.Kids) != 0 {
			return fmt.Sprintf("leaf %s has children", d.Name)
		}
		if isEntry {
			key := oi.keyOf[parent]
			n := 0
			for _, k := range d.Kids {
				if k.Name == key {
					n++
					if len(k.Vals) != 1 || k.Vals[0] != d.Name {
						return fmt.Sprintf("list %s: entry %q holds key leaf values %q", parent, d.Name, k.Vals)
					}
				}
			}
			if n != 1 {
				return fmt.Sprintf("list %s: entry %q has %d key leaves", parent, d.Name, n)
			}
		}
		if ts, ok := oi.types[d.Name]; ok && !isEntry {
			sp, ok := sg.SpaceOf(mods, oi.leafMod[d.Name], ts, oi.leafMod[d.Name])
			if ok {
				for _, v := range d.Vals {
					if !sp.Contains(v) {
						return fmt.Sprintf("leaf %s holds %q which is not a value of its type", d.Name, v)
					}
				}
			}
		}
		entries := !isEntry && oi.lists[d.Name]
		if msg := conforms(mods, oi, known, d.Kids, entries, d.Name); msg != "" {
			return msg
		}
	}
	return ""
}

func mutate(b []byte, m *Mut) []byte {
	if len(b) == 0 && m.Kind != "raw" {
		return b
	}
	if m.Kind == "raw" {
		return []byte(m.Raw)
	}
	if len(b) == 0 {
		return b
	}
	pos := m.Pos % len(b)
	switch m.Kind {
	case "truncate":
		return b[:pos]
	case "byte":
		c := append([]byte(nil), b...)
		c[pos] ^= byte(1 + m.Pos%7)
		return c
	case "insert":
		return append(append(append([]byte(nil), b[:pos]...), []byte(m.Arg)...), b[pos:]...)
	case "dup":
		// duplicate the JSON member / XML element that starts at or after pos: approximate by doubling a slice
		end := pos + 1 + m.Pos%17
		if end > len(b) {
			end = len(b)
		}
		return append(append(append([]byte(nil), b[:end]...), b[pos:end]...), b[end:]...)
	case "dupmember":
		// a second member naming the same node under another module prefix
		locs := memberRe.FindAllSubmatchIndex(b, -1)
		if len(locs) == 0 {
			return b
		}
		l := locs[m.Pos%len(locs)]
		key := string(b[l[2]:l[3]])
		val := string(b[l[4]:l[5]])
		name := key
		if i := strings.Index(key, ":"); i >= 0 {
			name = key[i+1:]
		}
		other := []string{"m0:", "m1:", "zz:", ""}[(m.Pos/3)%4] + name
		if other == key {
			other = "m1:" + name
		}
		ins := fmt.Sprintf("%q:%s,", other, val)
		return append(append(append([]byte(nil), b[:l[0]]...), []byte(ins)...), b[l[0]:]...)
	default: // token / swaptype: replace one scalar token with Arg
		locs := scalarRe.FindAllSubmatchIndex(b, -1)
		if len(locs) == 0 {
			return append(append([]byte(nil), b...), m.Arg...)
		}
		l := locs[m.Pos%len(locs)]
		return append(append(append([]byte(nil), b[:l[2]]...), []byte(m.Arg)...), b[l[3]:]...)
	}
}

// a JSON member with a scalar value / a scalar token in JSON or the text of an XML element
var xmlnsRe = regexp.MustCompile(`xmlns:m([01])="([^"]*)">m[01]:`)
var memberRe = regexp.MustCompile(`"([A-Za-z0-9:_-]+)":("(?:[^"\\]|\\.)*"|-?[0-9][0-9.eE+-]*|null|true|false|\[null\])`)
var scalarRe = regexp.MustCompile(`[:\[,>]("(?:[^"\\]|\\.)*"|-?[0-9][0-9.eE+-]*|null|true|false|\[null\]|[^<>{}\[\]:,"]+)[,\]}<]`)

// ---- XML with the siblings in another order ---------------------------------------------
//
// RFC 6020 7.8.5 / 7.7.5: the entries of a list or leaf-list may be interleaved with their siblings (and with the entries
// of another list); only the keys of a list entry come first.  The interleaved document is an encoding of the same tree.

type xel struct {
	start, name, text string
	selfClose         bool
	kids              []*xel
}

// parseXML reads the regular XML the encoder writes (elements with either text or child elements); ok=false on
// anything else.
func parseXML(b []byte) (head string, root *xel, ok bool) {
	pos := 0
	var elem func() *xel
	elem = func() *xel {
		if pos >= len(b) || b[pos] != '<' {
			return nil
		}
		end := bytes.IndexByte(b[pos:], '>')
		if end < 0 {
			return nil
		}
		tag := string(b[pos+1 : pos+end])
		e := &xel{start: string(b[pos : pos+end+1])}
		pos += end + 1
		if strings.HasSuffix(tag, "/") {
			e.selfClose = true
			tag = strings.TrimSuffix(tag, "/")
		}
		e.name = tag
		if i := strings.IndexAny(tag, " \t\r\n"); i >= 0 {
			e.name = tag[:i]
		}
		if e.selfClose {
			return e
		}
		for pos < len(b) {
			if bytes.HasPrefix(b[pos:], []byte("</")) {
				end := bytes.IndexByte(b[pos:], '>')
				if end < 0 || string(b[pos+2:pos+end]) != e.name {
					return nil
				}
				pos += end + 1
				return e
			}
			if b[pos] == '<' {
				k := elem()
				if k == nil {
					return nil
				}
				e.kids = append(e.kids, k)
				continue
			}
			nx := bytes.IndexByte(b[pos:], '<')
			if nx < 0 {
				return nil
			}
			e.text += string(b[pos : pos+nx])
			pos += nx
		}
		return nil
	}
	for pos < len(b) && (b[pos] != '<' || bytes.HasPrefix(b[pos:], []byte("<?"))) {
		end := bytes.IndexByte(b[pos:], '>')
		if b[pos] != '<' {
			end = 0
		}
		if end < 0 {
			return "", nil, false
		}
		pos += end + 1
	}
	head = string(b[:pos])
	root = elem()
	return head, root, root != nil && strings.TrimSpace(string(b[pos:])) == ""
}

func (e *xel) write(w *strings.Builder) {
	w.WriteString(e.start)
	if e.selfClose {
		return
	}
	if len(e.kids) > 0 {
		for _, k := range e.kids {
			k.write(w)
		}
	} else {
		w.WriteString(e.text)
	}
	w.WriteString("</" + e.name + ">")
}

// interleave reorders the children of every element: the first two children stay (the keys of a list entry), the others
// are dealt out round-robin over their names, each name keeping the order of its own elements.  changed reports whether
// some element with a repeated name is no longer contiguous.
func (e *xel) interleave() (changed bool) {
	for _, k := range e.kids {
		if k.interleave() {
			changed = true
		}
	}
	if len(e.kids) < 3 {
		return changed
	}
	fixed := 2
	rest := e.kids[fixed:]
	var names []string
	groups := map[string][]*xel{}
	for _, k := range rest {
		if _, ok := groups[k.name]; !ok {
			names = append(names, k.name)
		}
		groups[k.name] = append(groups[k.name], k)
	}
	if len(names) < 2 {
		return changed
	}
	var out []*xel
	for len(out) < len(rest) {
		// repeated names first in each round, so that their entries end up apart
		for _, n := range names {
			if g := groups[n]; len(g) > 0 {
				out = append(out, g[0])
				groups[n] = g[1:]
			}
		}
	}
	for i := range rest {
		if rest[i] != out[i] {
			changed = true
		}
	}
	e.kids = append(append([]*xel(nil), e.kids[:fixed]...), out...)
	return changed
}

func interleavedXML(b []byte) ([]byte, bool) {
	head, root, ok := parseXML(b)
	if !ok {
		return nil, false
	}
	// the document element holds the top-level nodes; it has no keys
	if !root.interleave() {
		return nil, false
	}
	var w strings.Builder
	w.WriteString(head)
	root.write(&w)
	return []byte(w.String()), true
}

func checkCase(c Case) fw.Outcome {
	out := fw.Outcome{}
	res := sgc.Compile(c.Mods, sgc.Opts{Features: sgc.AllFeatures{}})
	var texts []string
	for _, m := range c.Mods {
		texts = append(texts, m.Text())
	}
	src := strings.Join(texts, "\n")
	if !res.OK() {
		out.Violation = "harness: schema does not compile: " + res.Describe() + "\n" + src
		return out
	}
	oi := collect(c.Mods)
	var root D
	root.Name = "root"
	root.Kids = c.Data
	var wb strings.Builder
	canon(oi, c.Data, 0, &wb, false)
	out.Key = src + wb.String()
	rootNode := root.node()

	special := strings.Contains(wb.String(), "9007199254740993") || strings.Contains(wb.String(), "18446744073709551615") || strings.Contains(wb.String(), "m0:") || strings.Contains(wb.String(), "m1:") ||
		strings.ContainsAny(wb.String(), "<>&") || len(oi.userOrdered) > 0
	if c.Mutation == nil {
		out.Labels = append(out.Labels, "roundtrip")
		out.NonTrivial = special && len(c.Data) > 0
		// all three encodings of the tree first, the decoding afterwards: an encoding is the encoding of its tree for as
		// long as it is held, whatever is encoded next
		encs := make([][]byte, len(encNames))
		asReturned := make([]string, len(encNames))
		for i := range encNames {
			var pan any
			func() {
				defer func() { pan = recover() }()
				encs[i] = encode(i, res.MS, rootNode)
			}()
			if pan != nil {
				out.Violation = fmt.Sprintf("%s encoder panicked: %v\ndata:\n%s\n%s", encNames[i], pan, wb.String(), src)
				return out
			}
			asReturned[i] = string(encs[i])
		}
		for i := range encNames {
			b := encs[i]
			if string(b) != asReturned[i] {
				out.Violation = fmt.Sprintf("the %s encoding changed while it was held (other encodings of the tree were made in between)\n--- as returned\n%s\n--- now\n%s\n%s", encNames[i], asReturned[i], b, src)
				return out
			}
			for _, validate := range []bool{true, false} {
				got, err, pan := decode(i, res.MS, b, validate)
				if pan != nil {
					out.Violation = fmt.Sprintf("%s decoder panicked on its own encoder's output: %v\n%s\ndata:\n%s", encNames[i], pan, b, wb.String())
					return out
				}
				if err != nil {
					out.Violation = fmt.Sprintf("%s: decoding the encoding of a valid tree fails (validation %v): %v\nencoding: %s\ndata:\n%s\n%s", encNames[i], validate, err, b, wb.String(), src)
					return out
				}
				if i == 2 && bytes.Contains(b, []byte("xmlns:m")) {
					// the same document with other namespace prefixes is an encoding of the same tree
					out.Labels = append(out.Labels, "xml-prefix-renamed")
					b2 := xmlnsRe.ReplaceAll(b, []byte(`xmlns:p$1="$2">p$1:`))
					got2, err2, pan2 := decode(i, res.MS, b2, validate)
					if pan2 != nil || err2 != nil {
						out.Violation = fmt.Sprintf("XML: the encoding with renamed namespace prefixes does not decode: %v %v\nencoding: %s\n%s", pan2, err2, b2, src)
						return out
					}
					var g2 strings.Builder
					canon(oi, got2.Kids, 0, &g2, false)
					if g2.String() != wb.String() {
						out.Violation = fmt.Sprintf("XML: the encoding with renamed namespace prefixes decodes to another tree\n--- original\n%s--- decoded\n%s--- encoding\n%s\n%s", wb.String(), g2.String(), b2, src)
						return out
					}
				}
				if i == 2 && bytes.Contains(b, []byte("xmlns:m")) {
					// ... and so is the document in which the prefix of each such value is spelt like the name of the OTHER
					// module and a second declaration binds the value's old prefix to the other module's namespace: a value has
					// one prefix, and what it is bound to is what the element says
					out.Labels = append(out.Labels, "xml-prefix-swapped")
					b4 := xmlnsRe.ReplaceAllFunc(b, func(m []byte) []byte {
						sm := xmlnsRe.FindSubmatch(m)
						d := string(sm[1])
						o := map[string]string{"0": "1", "1": "0"}[d]
						return []byte(`xmlns:m` + o + `="` + string(sm[2]) + `" xmlns:m` + d + `="urn:verif:m` + o + `">m` + o + `:`)
					})
					got4, err4, pan4 := decode(i, res.MS, b4, validate)
					if pan4 != nil || err4 != nil {
						out.Violation = fmt.Sprintf("XML: the encoding with the namespace prefixes spelt like the other module's name does not decode: %v %v\nencoding: %s\n%s", pan4, err4, b4, src)
						return out
					}
					var g4 strings.Builder
					canon(oi, got4.Kids, 0, &g4, false)
					if g4.String() != wb.String() {
						out.Violation = fmt.Sprintf("XML: the encoding with the namespace prefixes spelt like the other module's name decodes to another tree\n--- original\n%s--- decoded\n%s--- encoding\n%s\n%s", wb.String(), g4.String(), b4, src)
						return out
					}
				}
				if i == 2 {
					// the same document with list entries interleaved with their siblings is an encoding of the same tree
					if b3, ok := interleavedXML(b); ok {
						out.Labels = append(out.Labels, "xml-interleaved")
						got3, err3, pan3 := decode(i, res.MS, b3, validate)
						if pan3 != nil || err3 != nil {
							out.Violation = fmt.Sprintf("XML: the encoding with interleaved siblings does not decode: %v %v\nencoding: %s\noriginal encoding: %s\n%s", pan3, err3, b3, b, src)
							return out
						}
						var g3 strings.Builder
						canon(oi, got3.Kids, 0, &g3, false)
						if g3.String() != wb.String() {
							out.Violation = fmt.Sprintf("XML: the encoding with interleaved siblings decodes to another tree\n--- original\n%s--- decoded\n%s--- encoding\n%s\n%s", wb.String(), g3.String(), b3, src)
							return out
						}
					}
				}
				var gb strings.Builder
				canon(oi, got.Kids, 0, &gb, false)
				if gb.String() != wb.String() {
					out.Violation = fmt.Sprintf("%s round trip changes the tree (validation %v)\n--- original\n%s--- decoded\n%s--- encoding\n%s\n%s", encNames[i], validate, wb.String(), gb.String(), b, src)
					return out
				}
			}
		}
		// RFC 7951 section 6.8: an identity of the leaf's own module may also be written with the module name.  The JSON
		// encodings of the tree with such identities respelt decode to the same tree (in either spelling).
		ownIdents := map[string][]string{"m0": {"d1", "d2"}, "m1": {"e1", "d2"}}
		respelt := 0
		var respell func(ds []*D) []*D
		respell = func(ds []*D) []*D {
			var o []*D
			for _, d := range ds {
				cp := &D{Name: d.Name, Kids: respell(d.Kids)}
				for _, v := range d.Vals {
					if ts, lm := oi.types[d.Name], oi.leafMod[d.Name]; ts != nil && lm != nil && (ts.Name == "identityref" || ts.Name == "union") {
						for _, id := range ownIdents[lm.Name] {
							if v == id {
								v = lm.Name + ":" + id
								respelt++
							}
						}
					}
					cp.Vals = append(cp.Vals, v)
				}
				o = append(o, cp)
			}
			return o
		}
		qdata := respell(c.Data)
		if respelt > 0 {
			out.Labels = append(out.Labels, "own-module-qualified-identity")
			var qb strings.Builder
			canon(oi, qdata, 0, &qb, false)
			qroot := D{Name: "root", Kids: qdata}
			for i := 0; i < 2; i++ {
				var b []byte
				func() {
					defer func() { recover() }()
					b = encode(i, res.MS, qroot.node())
				}()
				if b == nil {
					continue
				}
				for _, validate := range []bool{true, false} {
					got, err, pan := decode(i, res.MS, b, validate)
					if pan != nil || err != nil {
						out.Violation = fmt.Sprintf("%s: the encoding with identities of the leaf's own module written module-qualified does not decode (validation %v): %v %v\nencoding: %s\n%s", encNames[i], validate, pan, err, b, src)
						return out
					}
					var gb strings.Builder
					canon(oi, got.Kids, 0, &gb, false)
					if gb.String() != wb.String() && gb.String() != qb.String() {
						out.Violation = fmt.Sprintf("%s: the encoding with module-qualified identities decodes to another tree (validation %v)\n--- original\n%s--- decoded\n%s--- encoding\n%s\n%s", encNames[i], validate, wb.String(), gb.String(), b, src)
						return out
					}
				}
			}
		}
		return out
	}
	// decoding mode
	m := c.Mutation
	out.Labels = append(out.Labels, "decode:"+encNames[m.Enc], "mut:"+m.Kind)
	rejectedValue, rejectedLeaf := "", ""
	if m.Kind == "badvalue" || m.Kind == "extranode" {
		// the mutation is applied to the data tree; the encoder must not panic on it either
		var leaves []*D
		var interiors []*D
		var walkD func(ds []*D)
		walkD = func(ds []*D) {
			for _, d := range ds {
				if len(d.Vals) > 0 {
					leaves = append(leaves, d)
				} else {
					interiors = append(interiors, d)
				}
				walkD(d.Kids)
			}
		}
		cp := sg.Clone(c.Data)
		walkD(cp)
		if m.Kind == "badvalue" && len(leaves) > 0 {
			l := leaves[m.Pos%len(leaves)]
			l.Vals[m.Pos%len(l.Vals)] = m.Arg
			// does the leaf's type reject the value?  (own-module qualified identities are a documented alternative form)
			if ts := oi.types[l.Name]; ts != nil {
				if sp, ok := sg.SpaceOf(c.Mods, oi.leafMod[l.Name], ts, oi.leafMod[l.Name]); ok && !sp.Contains(m.Arg) {
					own := oi.leafMod[l.Name].Name + ":"
					if !(strings.HasPrefix(m.Arg, own) && identitySpace(sp).Contains(strings.TrimPrefix(m.Arg, own))) {
						// plain JSON numbers, booleans and null are written raw: the bytes then do not carry the value as given
						raw := sp.Kind == "int" || sp.Kind == "uint" || sp.Kind == "boolean" || sp.Kind == "empty"
						if m.Enc == 2 || !raw {
							rejectedValue, rejectedLeaf = m.Arg, l.Name
						}
					}
				}
			}
		} else if len(interiors) > 0 && len(leaves) > 0 {
			// a node of the schema in a place where the schema does not have it
			it := interiors[m.Pos%len(interiors)]
			it.Kids = append(it.Kids, sg.Clone(leaves[(m.Pos/7)%len(leaves)]))
		}
		root2 := D{Name: "root", Kids: cp}
		rootNode = root2.node()
	}
	var valid []byte
	var epan any
	func() {
		defer func() { epan = recover() }()
		valid = encode(m.Enc, res.MS, rootNode)
	}()
	if epan != nil {
		// encoders are only required to handle trees that conform to the schema
		out.Labels = append(out.Labels, "encoder-refused")
		return out
	}
	in := valid
	if m.Kind != "badvalue" && m.Kind != "extranode" {
		in = mutate(valid, m)
	}
	known := map[string]bool{}
	for n := range oi.mod {
		known[n] = true
	}
	var walk func(kids []*sg.Node)
	walk = func(kids []*sg.Node) {
		for _, k := range kids {
			known[k.Name] = true
			walk(k.Kids)
		}
	}
	for _, mod := range c.Mods {
		walk(mod.Nodes)
		for _, a := range mod.Augments {
			walk(a.Kids)
		}
	}
	for _, validate := range []bool{true, false} {
		got, err, pan := decode(m.Enc, res.MS, in, validate)
		if pan != nil {
			out.Violation = fmt.Sprintf("%s decoder panicked: %v\ninput: %q\n%s", encNames[m.Enc], pan, in, src)
			return out
		}
		if err != nil {
			out.Labels = append(out.Labels, "decode-error")
			continue
		}
		out.Labels = append(out.Labels, "decode-ok")
		out.NonTrivial = true
		if rejectedLeaf != "" {
			out.Violation = fmt.Sprintf("%s decoder accepted %q for leaf %s although its type rejects it (a rejected value must not be altered into an accepted one)\ninput: %q\n%s", encNames[m.Enc], rejectedValue, rejectedLeaf, in, src)
			return out
		}
		if msg := conforms(c.Mods, oi, known, got.Kids, false, "root"); msg != "" {
			out.Violation = fmt.Sprintf("%s decoder accepted input that does not conform: %s\ninput: %q\n%s", encNames[m.Enc], msg, in, src)
			return out
		}
		// a numeric token given to a numeric leaf must be stored exactly: compare with a decode of the same
		// input in which every JSON number is kept as its literal text
		if m.Enc != 2 && utf8.Valid(in) {
			if msg := numbersExact(in, got, oi); msg != "" {
				out.Violation = fmt.Sprintf("%s decoder altered a number: %s\ninput: %q\n%s", encNames[m.Enc], msg, in, src)
				return out
			}
		}
		// a tree a decoder hands out can be encoded again, and the JSON encodings of it decode to the same tree (XML: the
		// writer leaves the root element to the caller, which the harness's wrapper knows about only for trees it built)
		// (an integer may be written "+5" or "007" in XML; JSON has one form for it: compared as integers)
		var gb strings.Builder
		canon(oi, intForm(oi, got.Kids), 0, &gb, false)
		groot := D{Name: "root", Kids: got.Kids}
		for e := 0; e < 2; e++ {
			var b []byte
			var epan any
			func() {
				defer func() { epan = recover() }()
				b = encode(e, res.MS, groot.node())
			}()
			if epan != nil {
				out.Violation = fmt.Sprintf("%s encoder panicked on a tree the %s decoder returned: %v\ninput: %q\n%s", encNames[e], encNames[m.Enc], epan, in, src)
				return out
			}
			again, aerr, apan := decode(e, res.MS, b, false)
			if apan != nil || aerr != nil {
				out.Violation = fmt.Sprintf("the %s encoding of a tree the %s decoder returned does not decode: %v %v\nencoding: %s\ninput: %q\n%s", encNames[e], encNames[m.Enc], apan, aerr, b, in, src)
				return out
			}
			var ab strings.Builder
			canon(oi, intForm(oi, again.Kids), 0, &ab, false)
			if ab.String() != gb.String() {
				out.Violation = fmt.Sprintf("the %s encoding of a tree the %s decoder returned decodes to another tree\n--- decoded\n%s--- re-decoded\n%s--- encoding\n%s\ninput: %q\n%s", encNames[e], encNames[m.Enc], gb.String(), ab.String(), b, in, src)
				return out
			}
		}
	}
	seen := map[string]bool{}
	var ls []string
	for _, l := range out.Labels {
		if !seen[l] {
			seen[l] = true
			ls = append(ls, l)
		}
	}
	out.Labels = ls
	return out
}

var _ = vt.Builtin

// intForm returns the tree with the values of integer-typed leaves (also as members of a union, also through the
// percent typedef) in their canonical form.
func intForm(oi *orderInfo, ds []*D) []*D {
	isInt := func(ts *sg.TypeSpec) bool {
		var walk func(t *sg.TypeSpec) bool
		walk = func(t *sg.TypeSpec) bool {
			if strings.HasPrefix(t.Name, "int") || strings.HasPrefix(t.Name, "uint") || strings.HasSuffix(t.Name, "percent") {
				return true
			}
			for _, m := range t.Members {
				if walk(m) {
					return true
				}
			}
			return false
		}
		return ts != nil && walk(ts)
	}
	var out []*D
	for _, d := range ds {
		cp := &D{Name: d.Name, Kids: intForm(oi, d.Kids)}
		if oi.lists[d.Name] && isInt(oi.types[oi.keyOf[d.Name]]) {
			// (the entries of a list go by the value of their first key)
			for _, e := range cp.Kids {
				if i, ok := new(big.Int).SetString(e.Name, 10); ok {
					e.Name = i.String()
				}
			}
		}
		for _, v := range d.Vals {
			if isInt(oi.types[d.Name]) {
				if i, ok := new(big.Int).SetString(v, 10); ok {
					v = i.String()
				}
			}
			cp.Vals = append(cp.Vals, v)
		}
		out = append(out, cp)
	}
	return out
}

var codec = fw.Register(&fw.Prop[Case]{
	ID: "C19", Name: "codec",
	Rule: "two-module schemas with generated structure (containers, user- and system-ordered lists and leaf-lists, choices, nodes of one module augmented into the other) and leaf types from a pool (all integer " +
		"widths, decimal64, boolean, empty, enumeration, identityref and unions across modules, typedef, string) with data trees valid by construction (64-bit extremes, values around 2^53, strings with XML/JSON " +
		"metacharacters, CR/LF/tab, leading/trailing blanks, non-BMP runes); half the cases round-trip ToRFC7951 / ToJSON / ToXML through the matching decoder with validation on and off (children compared as " +
		"multisets, user-ordered lists and leaf-lists in order); the other half mutate one encoding (truncation, byte flip, token replaced by a value of another JSON type / fraction / exponent / 30 digits, " +
		"duplication, insertion) and require: no panic, error or a tree whose names exist and whose leaf values are members of their types, numeric tokens stored exactly; non-trivial = round trip with a " +
		"64-bit / cross-module / escaped / user-ordered value, or a mutated input that still decodes",
	Gen: genCase, Check: checkCase,
	MinLabel: []string{"roundtrip", "decode:RFC7951", "decode:JSON", "decode:XML", "decode-error", "decode-ok"},
})

func TestMain(m *testing.M) { fw.Main(m) }

func TestCodec(t *testing.T) { fw.Run(t, codec) }

// FuzzDecode: coverage-guided search over raw decoder inputs against three fixed generated schemas.
func FuzzDecode(f *testing.F) {
	var schemas [][]*sg.Mod
	for _, seed := range []int{3, 11, 29} {
		c := rapid.Custom(genCase).Example(seed)
		schemas = append(schemas, c.Mods)
		res := sgc.Compile(c.Mods, sgc.Opts{Features: sgc.AllFeatures{}})
		if !res.OK() {
			f.Fatal("fuzz schema does not compile")
		}
		root := D{Name: "root", Kids: c.Data}
		for e := 0; e < 3; e++ {
			f.Add(uint8(len(schemas)-1), uint8(e), string(encode(e, res.MS, root.node())))
		}
	}
	for _, sd := range []string{"{}", "[]", "null", "{\"m0:m0-top\":{}}", "{\"m0-top\":null}", "<root/>", "<root><m0-top/></root>", "<root><m0-top xmlns=\"urn:verif:m0\">x</m0-top></root>", "{\"m0-top\":[[]]}", "{\"m0-top\":{\"\":1}}", "{\"m0-top\":1e400}"} {
		f.Add(uint8(0), uint8(0), sd)
		f.Add(uint8(1), uint8(1), sd)
		f.Add(uint8(2), uint8(2), sd)
	}
	f.Fuzz(func(t *testing.T, si uint8, enc uint8, in string) {
		if len(in) > 4096 {
			return
		}
		c := Case{Mods: schemas[int(si)%len(schemas)], Mutation: &Mut{Enc: int(enc) % 3, Kind: "raw", Raw: fw.BStr(in)}}
		out := checkCase(c)
		if out.Violation != "" {
			fw.FuzzReport(codec, c, out)
			t.Fatal(out.Violation)
		}
	})
}
