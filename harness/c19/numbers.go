package c19

import (
	"bytes"
	"encoding/json"
	"fmt"
	"math/big"
	"strings"
)

// numbersExact re-reads the JSON input keeping every number as its literal text and checks that each numeric
// token that landed in a leaf is stored as a string denoting exactly the same number.
func numbersExact(in []byte, got *D, oi *orderInfo) string {
	dec := json.NewDecoder(bytes.NewReader(in))
	dec.UseNumber()
	var v any
	if err := dec.Decode(&v); err != nil {
		return ""
	}
	return cmpNumbers(v, got.Kids, oi)
}

func stripMod(k string) string {
	if i := strings.Index(k, ":"); i >= 0 {
		return k[i+1:]
	}
	return k
}

func sameNumber(lit, stored string) bool {
	a, ok1 := new(big.Rat).SetString(lit)
	b, ok2 := new(big.Rat).SetString(stored)
	return ok1 && ok2 && a.Cmp(b) == 0
}

func cmpNumbers(v any, ds []*D, oi *orderInfo) string {
	obj, ok := v.(map[string]any)
	if !ok {
		return ""
	}
	for k, val := range obj {
		name := stripMod(k)
		var d *D
		for _, x := range ds {
			if x.Name == name {
				d = x
			}
		}
		if d == nil {
			continue
		}
		switch t := val.(type) {
		case json.Number:
			if len(d.Vals) == 1 && !sameNumber(string(t), d.Vals[0]) {
				return fmt.Sprintf("member %q: JSON number %s was stored as %q", k, t, d.Vals[0])
			}
		case map[string]any:
			if msg := cmpNumbers(t, d.Kids, oi); msg != "" {
				return msg
			}
		case []any:
			// leaf-list of numbers, or list entries
			for i, e := range t {
				switch et := e.(type) {
				case json.Number:
					if i < len(d.Vals) && len(d.Vals) == len(t) && !sameNumber(string(et), d.Vals[i]) {
						return fmt.Sprintf("member %q[%d]: JSON number %s was stored as %q", k, i, et, d.Vals[i])
					}
				case map[string]any:
					if i < len(d.Kids) && len(d.Kids) == len(t) {
						if msg := cmpNumbers(et, d.Kids[i].Kids, oi); msg != "" {
							return msg
						}
					}
				}
			}
		}
	}
	return ""
}
