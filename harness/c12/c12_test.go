package c12

import (
	"fmt"
	"os"
	"strings"
	"testing"

	"verifharness/canon"
	"verifharness/fw"
	"verifharness/sg"
	"verifharness/sgc"

	"github.com/sdcio/yang-parser/compile"
	"github.com/sdcio/yang-parser/schema"
)

func texts(mods []*sg.Mod) string {
	var b []string
	for _, m := range mods {
		b = append(b, m.Text())
	}
	return strings.Join(b, "\n")
}

func checkCase(c Case) fw.Outcome {
	out := fw.Outcome{}
	gsrc := texts(c.Mods)
	out.Key = gsrc
	// classification
	hasRefine, hasNested, hasAug, hasCross := false, false, false, false
	var walk func(kids []*sg.Node, inGrouping bool)
	walk = func(kids []*sg.Node, inGrouping bool) {
		for _, k := range kids {
			if k.Kind == "uses" {
				if len(k.Refines) > 0 {
					hasRefine = true
				}
				if len(k.Augments) > 0 {
					hasAug = true
				}
				if inGrouping {
					hasNested = true
				}
				if strings.Contains(k.Name, ":") {
					hasCross = true
				}
			}
			walk(k.Kids, inGrouping)
		}
	}
	for _, m := range c.Mods {
		for _, g := range m.Groupings {
			walk(g.Kids, true)
		}
		walk(m.Nodes, false)
		if len(m.Augments) > 0 {
			hasAug = true
		}
	}
	out.NonTrivial = hasRefine || hasNested || hasAug || hasCross
	for l, b := range map[string]bool{"refine": hasRefine, "nested-uses": hasNested, "augment": hasAug} {
		if b {
			out.Labels = append(out.Labels, l)
		}
	}

	feats := sgc.FeatureSet{}
	for _, f := range c.Enabled {
		feats[f] = true
	}
	// an unprefixed feature name in a grouping body means the feature of the grouping's module: spelled with that
	// module's prefix it means the same wherever the text is copied to (modules are imported under their own prefix)
	pre := sg.Clone(c.Mods)
	for _, m := range pre {
		var qualify func(kids []*sg.Node)
		qualify = func(kids []*sg.Node) {
			for _, k := range kids {
				for i, f := range k.IfFeatures {
					if !strings.Contains(f, ":") {
						k.IfFeatures[i] = m.Prefix + ":" + f
					}
				}
				qualify(k.Kids)
			}
		}
		for _, g := range m.Groupings {
			qualify(g.Kids)
		}
	}
	inl, notes, err := sg.Inline(pre)
	// text copied from a grouping of module A into module B may name a module C that A imports and B does not (a grouping
	// of A using one of C): the in-place spelling needs that import (every module is imported under its own prefix here)
	for _, im := range inl {
		txt := im.Text()
		for _, om := range inl {
			if om == im || om.BelongsTo != "" || om.Name == im.BelongsTo || !strings.Contains(txt, om.Prefix+":") {
				continue
			}
			have := false
			for _, i := range im.Imports {
				if i.Mod == om.Name {
					have = true
				}
			}
			if !have {
				im.Imports = append(im.Imports, sg.Import{Mod: om.Name, Prefix: om.Prefix})
			}
		}
	}
	var fc compile.FeaturesChecker = feats
	if c.Clash != "" {
		// a clash with a node that a disabled feature removes is a grey zone: clash cases run with every feature on
		fc = sgc.AllFeatures{}
	}
	gres := sgc.Compile(c.Mods, sgc.Opts{Features: fc})
	if gres.Hang || gres.Panic != "" {
		out.Violation = fmt.Sprintf("compile of the grouping form: %s\n%s", gres.Describe(), gsrc)
		return out
	}
	if c.Clash != "" {
		out.Labels = append(out.Labels, "clash")
		if gres.OK() {
			out.Violation = fmt.Sprintf("sibling name clash (%s) compiles without error\n%s", c.Clash, gsrc)
		}
		return out
	}
	if err != nil {
		out.Violation = "harness: " + err.Error() + "\n" + gsrc
		return out
	}
	isrc := texts(inl)
	ires := sgc.Compile(inl, sgc.Opts{Features: feats})
	if ires.Hang || ires.Panic != "" {
		out.Violation = fmt.Sprintf("compile of the inlined form: %s\n%s", ires.Describe(), isrc)
		return out
	}
	if gres.OK() != ires.OK() {
		out.Violation = fmt.Sprintf("grouping form: %s ; inlined form: %s\n--- grouping form\n%s\n--- inlined form\n%s", gres.Describe(), ires.Describe(), gsrc, isrc)
		return out
	}
	if !gres.OK() {
		out.Labels = append(out.Labels, "both-rejected")
		if os.Getenv("VERIF_DEBUG") != "" {
			d := gres.Describe()
			if i := strings.LastIndex(d, ": "); i >= 0 {
				d = d[i+2:]
			}
			out.Labels = append(out.Labels, "why:"+d)
		}
		out.NonTrivial = false
		return out
	}
	out.Labels = append(out.Labels, "both-compile")
	masked := map[string]string{}
	file := map[string]string{}
	for _, n := range notes {
		masked[n.Path] = n.Module
		file[n.Path] = n.File
	}
	mask := func(p string) bool {
		for mp := range masked {
			if p == mp || strings.HasPrefix(p, mp+"/") {
				return true
			}
		}
		return false
	}
	o := canon.Opts{MaskRunAsParent: true, MaskModuleOf: mask, NoModelAttrs: true, XPathListing: true, ChoiceNS: true}
	gd, id := canon.Dump(gres.MS, o), canon.Dump(ires.MS, o)
	if gd != id {
		out.Violation = fmt.Sprintf("schema of the grouping form differs from the inlined form\n%s\n--- grouping form\n%s\n--- inlined form\n%s", firstDiff(gd, id), gsrc, isrc)
		return out
	}
	// a when written on an augment is evaluated at the target of the augment for every node the augment adds, also the
	// nodes of a uses written in the augment; a when written on a node or on a uses is not (the generator's augments
	// have when expressions of their own: k = 'x' and ../k = 'aug')
	var whenWalk func(n schema.Node, path string) string
	whenWalk = func(n schema.Node, path string) string {
		for _, w := range n.Whens() {
			ex := ""
			if w.Mach != nil {
				ex = w.Mach.GetExpr()
			}
			fromAug := ex == "k = 'x'" || ex == "../k = 'aug'"
			if w.RunAsParent != fromAug {
				return fmt.Sprintf("node %s: when %q has RunAsParent=%v, written on an augment=%v", path, ex, w.RunAsParent, fromAug)
			}
		}
		for _, ch := range n.Children() {
			if msg := whenWalk(ch, path+"/"+ch.Name()); msg != "" {
				return msg
			}
		}
		return ""
	}
	if msg := whenWalk(gres.MS, ""); msg != "" {
		out.Violation = msg + "\n" + gsrc
		return out
	}
	// nodes introduced by a cross-module augment belong to the augmenting module
	byName := map[string]*sg.Mod{}
	for _, m := range c.Mods {
		byName[m.Name] = m
	}
	for p, mod := range masked {
		n := descend(gres.MS, p)
		if n == nil {
			out.Violation = fmt.Sprintf("augmenting node %s not found in the compiled schema\n%s", p, gsrc)
			return out
		}
		wantNS := "urn:verif:" + mod
		// (a node of a submodule reports the submodule's name as its module: see DESIGN 10.7)
		if (n.Module() != mod && n.Module() != file[p]) || n.Namespace() != wantNS {
			out.Violation = fmt.Sprintf("augmenting node %s: module %q namespace %q, want module %q namespace %q\n%s", p, n.Module(), n.Namespace(), mod, wantNS, gsrc)
			return out
		}
	}
	return out
}

func descend(ms schema.ModelSet, path string) schema.Node {
	var cur schema.Node = ms
	for _, p := range strings.Split(strings.TrimPrefix(path, "/"), "/") {
		var next schema.Node
		for _, c := range cur.Children() {
			if c.Name() == p {
				next = c
			}
		}
		if next == nil {
			return nil
		}
		cur = next
	}
	return cur
}

func firstDiff(a, b string) string {
	la, lb := strings.Split(a, "\n"), strings.Split(b, "\n")
	for i := 0; i < len(la) && i < len(lb); i++ {
		if la[i] != lb[i] {
			return fmt.Sprintf("line %d:\n  grouping: %s\n  inlined:  %s", i+1, la[i], lb[i])
		}
	}
	return fmt.Sprintf("lengths differ: %d vs %d lines", len(la), len(lb))
}

var inline = fw.Register(&fw.Prop[Case]{
	ID: "C12", Name: "inline",
	Rule: "2-3 modules with groupings (nested uses inside groupings, cross-module groupings referenced with an explicit prefix), use sites at top level, inside lists, containers and cases, " +
		"refine of description/default/mandatory/presence/must/min/max at nested descendant paths, augment inside uses, module-level augments of the own and of an imported module, " +
		"when / if-feature / status on uses and augment; 1 in 6 cases with a deliberate sibling name clash; oracle (metamorphic): the harness inlines the groupings and augments " +
		"(sg.Inline) and the canonical dumps of both compiled forms must be equal (run-as-parent flag masked; nodes of cross-module augments must carry the augmenting module's name and namespace); " +
		"a clash must be rejected; non-trivial = a refine, a nested uses, an augment or a cross-module grouping",
	Gen: genCase, Check: checkCase,
	MinLabel: []string{"refine", "nested-uses", "augment", "clash", "both-compile"},
})

func TestMain(m *testing.M) { fw.Main(m) }

func TestInline(t *testing.T) { fw.Run(t, inline) }
