// Package c12: uses, refine and augment expand to the equivalent inline definition.
package c12

import (
	"fmt"
	"strings"

	"verifharness/fw"
	"verifharness/sg"

	"pgregory.net/rapid"
)

type Case struct {
	Mods    []*sg.Mod `json:"mods"`
	Enabled []string  `json:"enabled"`         // enabled features, "module:feature"
	Clash   string    `json:"clash,omitempty"` // a deliberate sibling name clash was inserted
}

type gen struct {
	g   *sg.G
	n   int
	vis []gref // groupings visible from the module being generated
	idb string // identity base of the module being generated, with its prefix ("" before the first module)
	// byRef: the groupings behind the references a body may use (to tell whether two of them can be used side by side)
	byRef map[string]*sg.Grouping
	// pfx: the prefix of the module being generated
	pfx string
}

// nestedUses: a uses written inside the body of a grouping; now and then with a refine and an augment of its own, whose
// paths are written plainly or with the prefix of the module the grouping is written in (a reference to a node of the
// current module may carry its prefix; the nodes are copied to wherever the outer grouping is used, another module included)
func (x *gen) nestedUses(ref string) *sg.Node {
	g := x.g
	u := &sg.Node{Kind: "uses", Name: ref}
	gr := x.byRef[ref]
	if gr == nil || !g.Chance(1, 2, "nestedrefine") {
		return u
	}
	var all, ts []target
	targets(gr.Kids, "", &all)
	for _, t := range all {
		ok := true
		for _, o := range all {
			if o.node.Status != "" && (t.path == o.path || strings.HasPrefix(t.path, o.path+"/")) {
				ok = false
			}
		}
		if ok {
			ts = append(ts, t)
		}
	}
	if len(ts) == 0 {
		return u
	}
	own := x.pfx != "" && g.Chance(2, 3, "nestedownpfx")
	pp := func(path string) string {
		if !own {
			return path
		}
		parts := strings.Split(path, "/")
		for i := range parts {
			parts[i] = x.pfx + ":" + parts[i]
		}
		return strings.Join(parts, "/")
	}
	if t := ts[g.Pick(len(ts), "nestedrtarget")]; t.node.Kind != "case" && g.Chance(2, 3, "nestedhasrefine") {
		r := x.refine(t)
		r.Target = pp(r.Target)
		u.Refines = append(u.Refines, r)
	}
	var augTargets []target
	for _, t := range ts {
		if t.node.Kind == "container" || t.node.Kind == "list" {
			augTargets = append(augTargets, t)
		}
	}
	if len(augTargets) > 0 && g.Chance(2, 3, "nestedhasaug") {
		t := augTargets[g.Pick(len(augTargets), "nestedatarget")]
		a := &sg.Augment{Target: pp(t.path), Kids: []*sg.Node{x.leaf(x.id("na"))}}
		a.Kids[0].Mandatory = ""
		a.Kids[0].When = ""
		u.Augments = append(u.Augments, a)
	}
	return u
}

// sideBySide: neither grouping reaches the other or a third one both reach (their nodes would appear twice)
func (x *gen) sideBySide(r1, r2 string) bool {
	g1, g2 := x.byRef[r1], x.byRef[r2]
	if g1 == nil || g2 == nil || g1 == g2 {
		return false
	}
	all := map[string]*sg.Grouping{}
	for _, gr := range x.byRef {
		all[gr.Name] = gr
	}
	a, b := map[string]bool{g1.Name: true}, map[string]bool{g2.Name: true}
	usesReach(g1.Kids, all, a)
	usesReach(g2.Kids, all, b)
	for n := range a {
		if b[n] {
			return false
		}
	}
	return true
}

func (x *gen) id(p string) string { x.n++; return fmt.Sprintf("%s%d", p, x.n) }

func sp(s string) *string { return &s }

func (x *gen) leaf(name string) *sg.Node {
	g := x.g
	n := &sg.Node{Kind: "leaf", Name: name}
	lt := g.Pick(6, "ltype")
	if lt == 4 && x.idb == "" {
		lt = 0
	}
	switch lt {
	case 5:
		// the names of a leafref path follow the same rule as those of a must: unprefixed ones mean the module the copy ends
		// up in, prefixed ones the module the prefix is bound to where the text is written
		p := ""
		if i := strings.Index(x.idb, ":"); i > 0 && g.Bool("pathownprefix") {
			p = x.idb[:i+1]
		}
		n.Type = &sg.TypeSpec{Name: "leafref", Path: "../" + p + []string{"k", "enabled", "name"}[g.Pick(3, "lrpath")]}
	case 4:
		// which identities the leaf takes unqualified depends on the module it ends up in
		n.Type = &sg.TypeSpec{Name: "identityref", Base: x.idb}
	case 0:
		n.Type = &sg.TypeSpec{Name: "string"}
		if g.Chance(1, 3, "ldef") {
			n.Default = sp("dflt")
		}
	case 1:
		n.Type = &sg.TypeSpec{Name: "int32", Range: "1..100"}
		if g.Chance(1, 3, "ldef") {
			n.Default = sp("7")
		}
	case 2:
		n.Type = &sg.TypeSpec{Name: "boolean"}
	default:
		n.Type = &sg.TypeSpec{Name: "string", Length: "1..8"}
	}
	if g.Chance(1, 4, "ldesc") {
		n.Desc = "leaf " + name
	}
	if n.Default == nil && g.Chance(1, 6, "lmand") {
		n.Mandatory = "true"
	}
	// names in an expression may carry the prefix of the module the text is written in: it keeps meaning that module
	// wherever a uses copies the text to
	own := ""
	if i := strings.Index(x.idb, ":"); i > 0 && g.Bool("exprownprefix") {
		own = x.idb[:i+1]
	}
	if g.Chance(1, 6, "lmust") {
		n.Musts = []sg.Must{{Expr: ". != 'x'"}}
		if own != "" {
			n.Musts[0].Expr = "../" + own + "enabled != 'x'"
		}
	}
	if g.Chance(1, 8, "lwhen") {
		n.When = "../" + own + "k = 'on'"
	}
	return n
}

// body: nodes of a grouping / container; gs = groupings that may be used (references valid here)
// gref: a grouping and the way it is referred to from the module being generated
type gref struct {
	ref string
	gr  *sg.Grouping
}

// usesReach collects the local names of the groupings a body uses, transitively (grouping names are unique in a case).
func usesReach(kids []*sg.Node, all map[string]*sg.Grouping, out map[string]bool) {
	for _, k := range kids {
		if k.Kind == "uses" {
			name := k.Name
			if i := strings.Index(name, ":"); i >= 0 {
				name = name[i+1:]
			}
			if !out[name] {
				out[name] = true
				if g := all[name]; g != nil {
					usesReach(g.Kids, all, out)
				}
			}
			for _, a := range k.Augments {
				usesReach(a.Kids, all, out)
			}
		}
		usesReach(k.Kids, all, out)
	}
}

func (x *gen) body(depth int, gs []string, usesAllowed bool) []*sg.Node {
	g := x.g
	n := 1 + g.Pick(3, "nbody")
	var out []*sg.Node
	used := false
	usedRef := ""
	for i := 0; i < n; i++ {
		k := g.Pick(7, "bkind")
		if depth <= 0 && k >= 2 && k != 6 {
			k = 0
		}
		switch k {
		case 0, 1:
			out = append(out, x.leaf(x.id("lf")))
		case 2:
			c := &sg.Node{Kind: "container", Name: x.id("c"), Kids: x.body(depth-1, gs, usesAllowed)}
			if g.Chance(1, 3, "pres") {
				c.Presence = "p"
			}
			if g.Chance(1, 4, "cdesc") {
				c.Desc = "container " + c.Name
			}
			out = append(out, c)
		case 3:
			l := &sg.Node{Kind: "list", Name: x.id("ls"), Key: "k", Kids: append([]*sg.Node{{Kind: "leaf", Name: "k", Type: &sg.TypeSpec{Name: "string"}}}, x.body(depth-1, gs, usesAllowed)...)}
			if g.Chance(1, 3, "lmin") {
				l.Min = "1"
			}
			out = append(out, l)
		case 4:
			ll := &sg.Node{Kind: "leaf-list", Name: x.id("ll"), Type: &sg.TypeSpec{Name: "string"}}
			if g.Chance(1, 3, "llmax") {
				ll.Max = "4"
			}
			out = append(out, ll)
		case 5:
			ch := &sg.Node{Kind: "choice", Name: x.id("ch")}
			nc := 1 + g.Pick(2, "ncases")
			for j := 0; j < nc; j++ {
				cs := &sg.Node{Kind: "case", Name: x.id("cs"), Kids: x.body(depth-2, gs, usesAllowed)}
				ch.Kids = append(ch.Kids, cs)
			}
			if cs := plainCases(ch); len(cs) > 0 && g.Chance(1, 4, "chdefault") {
				ch.Default = sp(cs[g.Pick(len(cs), "defcase")])
			}
			out = append(out, ch)
		default:
			if usesAllowed && len(gs) > 0 && !used {
				used = true
				usedRef = gs[g.Pick(len(gs), "gref")]
				out = append(out, x.nestedUses(usedRef))
				if r2 := gs[g.Pick(len(gs), "grefnext")]; g.Chance(1, 2, "seconduses") && x.sideBySide(usedRef, r2) {
					// ... directly followed by another one (of a grouping that shares nothing with the first)
					out = append(out, &sg.Node{Kind: "uses", Name: r2})
					usedRef = ""
				}
			} else if r2 := gs[g.Pick(max(len(gs), 1), "gref2")%max(len(gs), 1):]; usesAllowed && used && len(r2) > 0 && x.sideBySide(usedRef, r2[0]) {
				// a second uses next to the first (of a grouping that shares nothing with it)
				out = append(out, &sg.Node{Kind: "uses", Name: r2[0]})
				usedRef = "" // two are enough
			} else {
				out = append(out, x.leaf(x.id("lf")))
			}
		}
	}
	return out
}

// plainCases names the cases of a choice that can be its default: nothing mandatory in them, and no uses (whose
// contents are not known here).
func plainCases(ch *sg.Node) []string {
	var plain func(kids []*sg.Node) bool
	plain = func(kids []*sg.Node) bool {
		for _, k := range kids {
			if k.Kind == "uses" || k.Mandatory == "true" || k.Min != "" || !plain(k.Kids) {
				return false
			}
		}
		return true
	}
	var out []string
	for _, cs := range ch.Kids {
		if cs.Kind == "case" && plain(cs.Kids) {
			out = append(out, cs.Name)
		}
	}
	return out
}

type target struct {
	path string
	node *sg.Node
}

// targets lists descendant nodes (not through uses) with their relative paths
func targets(kids []*sg.Node, prefix string, out *[]target) {
	for _, k := range kids {
		if k.Kind == "uses" {
			continue
		}
		p := k.Name
		if prefix != "" {
			p = prefix + "/" + k.Name
		}
		*out = append(*out, target{p, k})
		targets(k.Kids, p, out)
	}
}

func (x *gen) refine(t target) sg.Refine {
	g := x.g
	r := sg.Refine{Target: t.path}
	add := func(s string) { r.Stmts = append(r.Stmts, s) }
	if g.Chance(1, 2, "rdesc") {
		add(fmt.Sprintf("description \"refined %s\";", t.node.Name))
	}
	switch t.node.Kind {
	case "leaf":
		switch g.Pick(4, "rleaf") {
		case 0:
			if t.node.Mandatory == "" && t.node.Name != "k" {
				switch t.node.Type.Name {
				case "int32":
					add("default \"9\";")
				case "boolean":
					add("default \"true\";")
				default:
					add("default \"rdef\";")
				}
			}
		case 1:
			if t.node.Default == nil && t.node.Name != "k" {
				add("mandatory true;")
			}
		case 2:
			add("must \"string-length(.) > 0\";")
		}
	case "container":
		switch g.Pick(3, "rcont") {
		case 0:
			if g.Chance(1, 3, "emptyrefpresence") {
				add("presence \"\";")
			} else {
				add("presence \"refined presence\";")
			}
		case 1:
			add("must \"count(*) >= 0\";")
		}
	case "list", "leaf-list":
		switch g.Pick(3, "rlist") {
		case 0:
			add("min-elements 2;")
		case 1:
			add("max-elements 9;")
		}
	case "choice":
		switch g.Pick(3, "rchoice") {
		case 0:
			if len(t.node.Kids) > 0 && t.node.Default == nil {
				add("mandatory true;")
			}
		case 1:
			// the default case is set, or replaced, by the refinement
			if cs := plainCases(t.node); len(cs) > 0 && t.node.Mandatory == "" {
				add(fmt.Sprintf("default %s;", cs[g.Pick(len(cs), "rdefcase")]))
			}
		}
	}
	if len(r.Stmts) == 0 {
		add(fmt.Sprintf("reference \"ref %s\";", t.node.Name))
	}
	return r
}

// usesNode builds a uses statement of grouping gname (body known) with optional refine / augment / when / if-feature / status
func (x *gen) usesNode(ref string, gr *sg.Grouping, feats []string, allMods []*sg.Mod) *sg.Node {
	g := x.g
	u := &sg.Node{Kind: "uses", Name: ref}
	var all, ts []target
	targets(gr.Kids, "", &all)
	// a refine or augment path through a node that has its own deprecated/obsolete status is a reference from the (current)
	// uses to a more obsolete definition, which the compiler rejects: such targets are left alone
	for _, t := range all {
		ok := true
		for _, o := range all {
			if o.node.Status != "" && (t.path == o.path || strings.HasPrefix(t.path, o.path+"/")) {
				ok = false
			}
		}
		if ok {
			ts = append(ts, t)
		}
	}
	if len(ts) > 0 && g.Chance(2, 3, "refine") {
		nr := 1 + g.Pick(2, "nrefine")
		seen := map[string]bool{}
		for i := 0; i < nr; i++ {
			t := ts[g.Pick(len(ts), "rtarget")]
			if seen[t.path] || t.node.Kind == "case" {
				continue
			}
			seen[t.path] = true
			u.Refines = append(u.Refines, x.refine(t))
		}
	}
	var augTargets []target
	for _, t := range ts {
		// (a choice as the target: the nodes the augment adds are shorthand cases)
		if t.node.Kind == "container" || t.node.Kind == "list" || t.node.Kind == "case" || t.node.Kind == "choice" {
			augTargets = append(augTargets, t)
		}
	}
	if len(augTargets) > 0 && g.Chance(1, 2, "usesaug") {
		t := augTargets[g.Pick(len(augTargets), "atarget")]
		a := &sg.Augment{Target: t.path, Kids: []*sg.Node{x.leaf(x.id("ua"))}}
		a.Kids[0].Mandatory = ""
		// (not together with a when on the augment: the nodes of the inner grouping may have a when of their own, and a
		// node with two inherited when statements has no single-module spelling)
		// (a uses is no substatement of choice, so not of the augment of a choice either)
		if len(x.vis) > 0 && t.node.Kind != "choice" && g.Chance(1, 3, "auguses") {
			// a uses inside the augment of the uses: another grouping that neither is reached from the outer one
			// (its nodes would appear twice) nor reaches it (that would be a cycle)
			all := map[string]*sg.Grouping{}
			for _, v := range x.vis {
				all[v.gr.Name] = v.gr
			}
			fromOuter := map[string]bool{gr.Name: true}
			usesReach(gr.Kids, all, fromOuter)
			v := x.vis[g.Pick(len(x.vis), "innergr")]
			fromInner := map[string]bool{v.gr.Name: true}
			usesReach(v.gr.Kids, all, fromInner)
			ok := !fromOuter[v.gr.Name] && !fromInner[gr.Name]
			for n := range fromInner {
				if fromOuter[n] {
					ok = false
				}
			}
			if ok {
				inner := &sg.Node{Kind: "uses", Name: v.ref}
				switch g.Pick(4, "augusesdepth") {
				case 0:
					// ... not directly in the augment but inside a node that the augment adds
					inner = &sg.Node{Kind: "container", Name: x.id("uac"), Kids: []*sg.Node{inner}}
				case 1:
					inner = &sg.Node{Kind: "list", Name: x.id("ual"), Key: "k", Kids: []*sg.Node{{Kind: "leaf", Name: "k", Type: &sg.TypeSpec{Name: "string"}},
						{Kind: "container", Name: x.id("uac"), Kids: []*sg.Node{inner}}}}
				}
				a.Kids = append(a.Kids, inner)
			}
		}
		// (with an inner uses only if the nodes at the top of that grouping have no when of their own and are no uses: a
		// node with two inherited when statements has no single-module spelling)
		plainInner := true
		for _, k := range a.Kids[1:] {
			if k.Kind != "uses" {
				plainInner = false
				continue
			}
			for _, v := range x.vis {
				if v.ref == k.Name {
					for _, gk := range v.gr.Kids {
						if gk.When != "" || gk.Kind == "uses" {
							plainInner = false
						}
					}
				}
			}
		}
		if (len(a.Kids) == 1 || plainInner) && g.Chance(1, 3, "augwhen") {
			a.When = "../k = 'aug'"
			a.Kids[0].When = ""
		}
		// if-feature and status of the augment go to every node it adds, the nodes of a uses written in it included
		if len(feats) > 0 && g.Chance(1, 3, "uaugiff") {
			a.IfFeatures = []string{feats[g.Pick(len(feats), "uaugfeat")]}
		}
		if g.Chance(1, 4, "uaugstatus") {
			a.Status = "deprecated"
		}
		u.Augments = append(u.Augments, a)
		// a second augment whose target is a container the first one adds, written behind it or in front of it
		if (t.node.Kind == "container" || t.node.Kind == "list") && a.When == "" && g.Chance(1, 4, "usesaugchain") {
			cn := x.id("uach")
			a.Kids = append(a.Kids, &sg.Node{Kind: "container", Name: cn})
			b := &sg.Augment{Target: t.path + "/" + cn, Kids: []*sg.Node{x.leaf(x.id("uachl"))}}
			b.Kids[0].Mandatory = ""
			b.Status = a.Status // (a current augment may not name a deprecated node in its path)
			if g.Bool("usesaugchainfirst") {
				u.Augments = []*sg.Augment{b, a}
			} else {
				u.Augments = append(u.Augments, b)
			}
		}
	}
	topHasWhen, topHasStatus := false, false
	for _, k := range gr.Kids {
		if k.When != "" || k.Kind == "uses" {
			topHasWhen = true
		}
		// a node's own weaker status (deprecated, obsolete) is kept below a deprecated uses; an explicit "current" there
		// would contradict the uses and is avoided
		if k.Status == "current" || k.Kind == "uses" {
			topHasStatus = true
		}
	}
	if !topHasWhen && g.Chance(1, 4, "useswhen") {
		u.When = "../enabled = 'true'"
		if len(feats) > 0 && g.Bool("whenprefix") {
			// written with the using module's own prefix: it means what that module's prefixes say, also on the nodes that
			// come from another module's grouping
			u.When = "../" + feats[0][:strings.Index(feats[0], ":")] + ":enabled = 'true'"
		}
	}
	if len(feats) > 0 && g.Chance(1, 4, "usesiff") {
		u.IfFeatures = []string{feats[g.Pick(len(feats), "usesfeat")]}
	}
	if !topHasStatus && g.Chance(1, 3, "usesstatus") {
		u.Status = "deprecated"
	}
	return u
}

// selfContained: the body refers to nothing of the module with the given prefix (groupings, identities, features), so
// it means the same when it is written in a submodule of that module.
func selfContained(kids []*sg.Node, prefix string) bool {
	for _, k := range kids {
		if k.Kind == "uses" && strings.HasPrefix(k.Name, prefix+":") {
			return false
		}
		if k.Type != nil && strings.HasPrefix(k.Type.Base, prefix+":") {
			return false
		}
		if len(k.IfFeatures) > 0 || strings.Contains(k.When, prefix+":") {
			return false
		}
		for _, a := range k.Augments {
			if !selfContained(a.Kids, prefix) {
				return false
			}
		}
		if !selfContained(k.Kids, prefix) {
			return false
		}
		for _, sgr := range k.Groupings {
			if !selfContained(sgr.Kids, prefix) {
				return false
			}
		}
	}
	return true
}

// withSubs lists the modules, each followed by its submodule.
func withSubs(mods []*sg.Mod, subs map[string]*sg.Mod) []*sg.Mod {
	var out []*sg.Mod
	for _, m := range mods {
		out = append(out, m)
		if s := subs[m.Name]; s != nil {
			out = append(out, s)
		}
	}
	return out
}

func genCase(t *rapid.T) Case {
	x := &gen{g: &sg.G{T: t}}
	g := x.g
	nm := 2 + g.Pick(2, "nmods")
	var mods []*sg.Mod
	subs := map[string]*sg.Mod{}
	var visible [][]gref // per module: groupings usable from that module, with the reference string
	for i := 0; i < nm; i++ {
		m := &sg.Mod{Name: fmt.Sprintf("m%d", i), Prefix: fmt.Sprintf("m%d", i)}
		var vis []gref
		for j := 0; j < i; j++ {
			if j == i-1 || g.Bool("import") {
				m.Imports = append(m.Imports, sg.Import{Mod: mods[j].Name, Prefix: mods[j].Prefix})
				for _, gr := range mods[j].Groupings {
					vis = append(vis, gref{mods[j].Prefix + ":" + gr.Name, gr})
				}
			}
		}
		// identities: a base and a derived one per module, and one derived from the base of an imported module
		m.Identities = []*sg.Identity{{Name: fmt.Sprintf("idbase-%d", i)}, {Name: fmt.Sprintf("idder-%d", i), Base: fmt.Sprintf("%s:idbase-%d", m.Prefix, i)}}
		for _, imp := range m.Imports {
			for j, om := range mods {
				if om.Name == imp.Mod {
					m.Identities = append(m.Identities, &sg.Identity{Name: fmt.Sprintf("idx-%d-%d", i, j), Base: fmt.Sprintf("%s:idbase-%d", imp.Prefix, j)})
				}
			}
		}
		x.idb = fmt.Sprintf("%s:idbase-%d", m.Prefix, i)
		x.pfx = m.Prefix
		// every module also has a feature of the same name: written without a prefix, "fshared" means the feature of the
		// module the statement is written in
		m.Features = []*sg.Feature{{Name: fmt.Sprintf("f%d", i)}, {Name: "fshared"}}
		feats := []string{m.Prefix + ":" + m.Features[0].Name, "fshared"}
		ng := 1 + g.Pick(3, "ngroupings")
		for k := 0; k < ng; k++ {
			gr := &sg.Grouping{Name: fmt.Sprintf("g%d-%d", i, k)}
			var refs []string
			for _, v := range vis {
				refs = append(refs, v.ref)
			}
			x.byRef = map[string]*sg.Grouping{}
			for _, v := range vis {
				x.byRef[v.ref] = v.gr
			}
			gr.Kids = x.body(2, refs, g.Chance(2, 3, "nesteduses"))
			// some nodes of the body depend on the module's "fshared" (unprefixed: the grouping's module)
			for _, k := range gr.Kids {
				if (k.Kind == "leaf" || k.Kind == "container" || k.Kind == "list" || k.Kind == "leaf-list") && k.Name != "k" && g.Chance(1, 4, "ownfeature") {
					k.IfFeatures = []string{"fshared"}
				}
			}
			// some nodes of the body carry their own (weaker than current) status
			for _, k := range gr.Kids {
				if k.Kind != "uses" && k.Kind != "choice" && k.Status == "" && g.Chance(1, 4, "ownstatus") {
					k.Status = []string{"deprecated", "obsolete"}[g.Pick(2, "whichstatus")]
				}
			}
			if g.Chance(1, 3, "gdesc") {
				gr.Desc = "grouping " + gr.Name
			}
			// a typedef or a grouping defined in the body with the name of a node of the body (other name spaces): the
			// paths of refine and augment still mean the node
			if g.Chance(1, 4, "shadowdefs") {
				for _, k := range gr.Kids {
					if k.Kind == "uses" || k.Kind == "case" {
						continue
					}
					if g.Bool("shadowkind") {
						gr.Typedefs = append(gr.Typedefs, &sg.Typedef{Name: k.Name, Type: &sg.TypeSpec{Name: "string"}})
					} else {
						gr.Groupings = append(gr.Groupings, &sg.Grouping{Name: k.Name, Kids: []*sg.Node{{Kind: "leaf", Name: "unused", Type: &sg.TypeSpec{Name: "string"}}}})
					}
					break
				}
			}
			if g.Chance(1, 5, "gref") {
				gr.Ref = "grouping reference " + gr.Name
			}

			m.Groupings = append(m.Groupings, gr)
			// always the explicit own prefix, so that the reference means the same in every module
			vis = append(vis, gref{m.Prefix + ":" + gr.Name, gr})
		}
		x.vis = append([]gref(nil), vis...)
		x.byRef = map[string]*sg.Grouping{}
		for _, v := range vis {
			x.byRef[v.ref] = v.gr
		}
		// a grouping of the same local name in every module, each one extending the one it imports ("uses m0:gshared"
		// inside "grouping gshared"): the prefix decides which grouping is meant, there is no cycle
		if g.Chance(1, 2, "gshared") {
			gr := &sg.Grouping{Name: "gshared", Kids: []*sg.Node{x.leaf(x.id("gs"))}}
			gr.Kids[0].Mandatory = ""
			for _, imp := range m.Imports {
				for _, om := range mods {
					if om.Name != imp.Mod {
						continue
					}
					for _, og := range om.Groupings {
						if og.Name == "gshared" && len(gr.Kids) == 1 {
							u := &sg.Node{Kind: "uses", Name: imp.Prefix + ":gshared"}
							if g.Bool("gsharednested") {
								gr.Kids = append(gr.Kids, &sg.Node{Kind: "container", Name: x.id("gsc"), Kids: []*sg.Node{u}})
							} else {
								gr.Kids = append(gr.Kids, u)
							}
						}
					}
				}
			}
			m.Groupings = append(m.Groupings, gr)
			vis = append(vis, gref{m.Prefix + ":gshared", gr})
		}
		nt := 1 + g.Pick(2, "ntop")
		for k := 0; k < nt; k++ {
			top := &sg.Node{Kind: "container", Name: fmt.Sprintf("m%d-top%d", i, k)}
			top.Kids = append(top.Kids, &sg.Node{Kind: "leaf", Name: "k", Type: &sg.TypeSpec{Name: "string"}}, &sg.Node{Kind: "leaf", Name: "enabled", Type: &sg.TypeSpec{Name: "string"}})
			v := vis[g.Pick(len(vis), "topuses")]
			top.Kids = append(top.Kids, x.usesNode(v.ref, v.gr, feats, mods))
			// a second use site inside a list or a choice/case
			v2 := vis[g.Pick(len(vis), "uses2")]
			switch g.Pick(3, "site2") {
			case 0:
				top.Kids = append(top.Kids, &sg.Node{Kind: "list", Name: x.id("site"), Key: "k", Kids: []*sg.Node{{Kind: "leaf", Name: "k", Type: &sg.TypeSpec{Name: "string"}},
					{Kind: "leaf", Name: "enabled", Type: &sg.TypeSpec{Name: "string"}}, x.usesNode(v2.ref, v2.gr, feats, mods)}})
			case 1:
				top.Kids = append(top.Kids, &sg.Node{Kind: "choice", Name: x.id("sitech"), Kids: []*sg.Node{{Kind: "case", Name: x.id("sitecs"), Kids: []*sg.Node{x.usesNode(v2.ref, v2.gr, feats, mods)}}}})
			default:
				top.Kids = append(top.Kids, &sg.Node{Kind: "container", Name: x.id("sitec"), Kids: []*sg.Node{{Kind: "leaf", Name: "k", Type: &sg.TypeSpec{Name: "string"}},
					{Kind: "leaf", Name: "enabled", Type: &sg.TypeSpec{Name: "string"}}, x.usesNode(v2.ref, v2.gr, feats, mods)}})
			}
			m.Nodes = append(m.Nodes, top)
			// two use sites may introduce the same names into one namespace (choices and cases are
			// transparent): drop the second site when the inlined form has a sibling clash
			if in, _, err := sg.Inline(append(withSubs(mods, subs), m)); err == nil {
				for _, im := range in {
					if im.Name == m.Name && siblingClash(im.Nodes[len(im.Nodes)-1].Kids) {
						top.Kids = top.Kids[:len(top.Kids)-1]
					}
				}
			}
		}
		if g.Chance(1, 5, "sharedbodyless") {
			// a grouping whose nodes have no body, used twice in this module; one copy is augmented from the module
			// level, the other refined and augmented inside the uses: nothing added to one copy shows in the other
			str := &sg.TypeSpec{Name: "string"}
			gn, a, b := x.id("shg"), x.id("sha"), x.id("shb")
			m.Groupings = append(m.Groupings, &sg.Grouping{Name: gn, Kids: []*sg.Node{{Kind: "container", Name: "shc"}, {Kind: "container", Name: "shp"},
				{Kind: "choice", Name: "shch", Kids: []*sg.Node{{Kind: "case", Name: "shcs"}, {Kind: "case", Name: "shcl", Kids: []*sg.Node{{Kind: "leaf", Name: "shl", Type: str}}}}}}})
			m.Nodes = append(m.Nodes, &sg.Node{Kind: "container", Name: a, Kids: []*sg.Node{{Kind: "uses", Name: gn}}},
				&sg.Node{Kind: "container", Name: b, Kids: []*sg.Node{{Kind: "uses", Name: gn, Refines: []sg.Refine{{Target: "shp", Stmts: []string{`presence "refined";`}}},
					Augments: []*sg.Augment{{Target: "shch/shcs", Kids: []*sg.Node{{Kind: "leaf", Name: "incase", Type: str}}}}}}})
			m.Augments = append(m.Augments, &sg.Augment{Target: "/" + m.Prefix + ":" + a + "/" + m.Prefix + ":shc", Kids: []*sg.Node{{Kind: "leaf", Name: "extra", Type: str}}})
			// ... and a third and fourth use, as plain as the first: each use is a copy of its own
			if g.Bool("moreplainuses") {
				c3, c4 := x.id("shd"), x.id("she")
				m.Nodes = append(m.Nodes, &sg.Node{Kind: "container", Name: c3, Kids: []*sg.Node{{Kind: "uses", Name: gn}}},
					&sg.Node{Kind: "container", Name: c4, Kids: []*sg.Node{{Kind: "leaf", Name: "before", Type: str}, {Kind: "uses", Name: gn}}})
				m.Augments = append(m.Augments, &sg.Augment{Target: "/" + m.Prefix + ":" + c4 + "/" + m.Prefix + ":shp", Kids: []*sg.Node{{Kind: "leaf", Name: "extra4", Type: str}}})
			}
		}
		if g.Chance(1, 5, "extensionnamesake") {
			// the use of an extension whose argument reads like the name of a node of the same grouping body: a refine or
			// an augment of the uses names the node, the extension statement is none
			str := &sg.TypeSpec{Name: "string"}
			gn, ct := x.id("xg"), x.id("xt")
			if len(m.Raw) == 0 || !strings.Contains(strings.Join(m.Raw, " "), "extension xannot") {
				m.Raw = append(m.Raw, "extension xannot { argument name; }")
			}
			m.Groupings = append(m.Groupings, &sg.Grouping{Name: gn, Raw: []string{m.Prefix + `:xannot "xk";`, m.Prefix + `:xannot "xl";`},
				Kids: []*sg.Node{{Kind: "container", Name: "xk", Kids: []*sg.Node{{Kind: "leaf", Name: "xz", Type: str}}}, {Kind: "leaf", Name: "xl", Type: str}}})
			m.Nodes = append(m.Nodes, &sg.Node{Kind: "container", Name: ct, Kids: []*sg.Node{{Kind: "uses", Name: gn,
				Refines:  []sg.Refine{{Target: "xk", Stmts: []string{`presence "refined";`}}, {Target: "xl", Stmts: []string{`default "d";`}}},
				Augments: []*sg.Augment{{Target: "xk", Kids: []*sg.Node{{Kind: "leaf", Name: "xadded", Type: str}}}}}}})
		}
		if g.Chance(1, 5, "namesakegroupings") {
			// two groupings of one name in unrelated scopes (each defined in a container of another grouping's body), the
			// second reached from the first through a third grouping: a chain of uses that comes by the name twice, not
			// by a grouping twice - no cycle
			str := &sg.TypeSpec{Name: "string"}
			gz, gy, nt := x.id("nz"), x.id("ny"), x.id("nt")
			m.Groupings = append(m.Groupings,
				&sg.Grouping{Name: gz, Kids: []*sg.Node{{Kind: "container", Name: "nzc", Groupings: []*sg.Grouping{{Name: "nx", Kids: []*sg.Node{{Kind: "leaf", Name: "nzl", Type: str}}}},
					Kids: []*sg.Node{{Kind: "uses", Name: "nx"}}}}},
				&sg.Grouping{Name: gy, Kids: []*sg.Node{{Kind: "container", Name: "nyc", Groupings: []*sg.Grouping{{Name: "nx", Kids: []*sg.Node{{Kind: "uses", Name: m.Prefix + ":" + gz}}}},
					Kids: []*sg.Node{{Kind: "uses", Name: "nx"}, {Kind: "leaf", Name: "nyl", Type: str}}}}})
			m.Nodes = append(m.Nodes, &sg.Node{Kind: "container", Name: nt, Kids: []*sg.Node{{Kind: "uses", Name: gy}}})
		}
		// module-level augments: own top, and a top of an imported module
		if g.Chance(1, 2, "ownaug") {
			a := &sg.Augment{Target: "/" + m.Prefix + ":" + m.Nodes[0].Name, Kids: []*sg.Node{x.leaf(x.id("oa"))}}
			a.Kids[0].Mandatory = ""
			if g.Chance(1, 3, "oawhen") {
				a.When = "k = 'x'"
				a.Kids[0].When = ""
			}
			if g.Chance(1, 3, "oaiff") {
				a.IfFeatures = feats
			}
			m.Augments = append(m.Augments, a)
			if a.When == "" && len(a.IfFeatures) == 0 && g.Chance(1, 2, "augofaug") {
				// an augment of a node that the augment before it adds; written in either order (the order of the
				// statements of a module means nothing)
				oc := &sg.Node{Kind: "container", Name: x.id("oac"), Kids: []*sg.Node{{Kind: "leaf", Name: "k", Type: &sg.TypeSpec{Name: "string"}}}}
				a.Kids = append(a.Kids, oc)
				b := &sg.Augment{Target: a.Target + "/" + m.Prefix + ":" + oc.Name, Kids: []*sg.Node{x.leaf(x.id("oab"))}}
				b.Kids[0].Mandatory = ""
				m.Augments = append(m.Augments, b)
				m.AugmentsReversed = g.Bool("augreversed")
				if g.Chance(1, 2, "augchain3") {
					// a chain of three, written in any of the six orders
					od := &sg.Node{Kind: "container", Name: x.id("oad"), Kids: []*sg.Node{{Kind: "leaf", Name: "k", Type: &sg.TypeSpec{Name: "string"}}}}
					b.Kids = append(b.Kids, od)
					c3 := &sg.Augment{Target: b.Target + "/" + m.Prefix + ":" + od.Name, Kids: []*sg.Node{x.leaf(x.id("oae"))}}
					c3.Kids[0].Mandatory = ""
					m.Augments = append(m.Augments, c3)
					n := len(m.Augments)
					perm := make([]int, n)
					for i := range perm {
						perm[i] = i
					}
					// the three links are the last three entries: permute them among their own positions
					orders := [][3]int{{0, 1, 2}, {0, 2, 1}, {1, 0, 2}, {1, 2, 0}, {2, 0, 1}, {2, 1, 0}}
					o := orders[g.Pick(6, "augorder")]
					for i := 0; i < 3; i++ {
						perm[n-3+i] = n - 3 + o[i]
					}
					m.AugmentsReversed = false
					m.AugmentsOrder = perm
				}
			}
		}
		if len(m.Imports) > 0 && g.Chance(2, 3, "xaug") {
			imp := m.Imports[g.Pick(len(m.Imports), "ximp")]
			for _, tm := range mods {
				if tm.Name == imp.Mod {
					// (no identityref here: the inlined form writes these nodes into the target module's text, which has no
					// prefix for the augmenting module)
					saved := x.idb
					x.idb = ""
					a := &sg.Augment{Target: "/" + imp.Prefix + ":" + tm.Nodes[0].Name, Kids: []*sg.Node{x.leaf(x.id("xa")), {Kind: "container", Name: x.id("xc"), Kids: []*sg.Node{x.leaf(x.id("xl"))}}}}
					x.idb = saved
					a.Kids[0].Mandatory = ""
					a.Kids[1].Kids[0].Mandatory = ""
					m.Augments = append(m.Augments, a)
				}
			}
		}
		// a submodule: some of the module's groupings are written there (other modules reach them through the import of
		// the module), and it may have a data tree of its own that uses groupings of modules proper
		if g.Chance(1, 3, "submodule") {
			sm := &sg.Mod{Name: m.Name + "-sub", Prefix: m.Prefix, BelongsTo: m.Name, Imports: append([]sg.Import(nil), m.Imports...)}
			var keep []*sg.Grouping
			for _, gr := range m.Groupings {
				if selfContained(gr.Kids, m.Prefix) && g.Chance(2, 3, "movegrouping") {
					sm.Groupings = append(sm.Groupings, gr)
				} else {
					keep = append(keep, gr)
				}
			}
			m.Groupings = keep
			if g.Chance(1, 2, "subtree") {
				top := &sg.Node{Kind: "container", Name: fmt.Sprintf("m%d-subtop", i)}
				top.Kids = append(top.Kids, &sg.Node{Kind: "leaf", Name: "k", Type: &sg.TypeSpec{Name: "string"}}, &sg.Node{Kind: "leaf", Name: "enabled", Type: &sg.TypeSpec{Name: "string"}})
				v := vis[g.Pick(len(vis), "subuses")]
				saved, savedVis := x.idb, x.vis
				x.idb, x.vis = "", nil
				top.Kids = append(top.Kids, x.usesNode(v.ref, v.gr, nil, mods))
				// a grouping defined inside the container and used from a statement below it
				if g.Chance(1, 2, "subscoped") {
					sgn := fmt.Sprintf("sg%d", i)
					top.Groupings = append(top.Groupings, &sg.Grouping{Name: sgn, Kids: []*sg.Node{x.leaf(x.id("sgl"))}})
					inner := &sg.Node{Kind: "container", Name: x.id("sgc"), Kids: []*sg.Node{{Kind: "uses", Name: sgn}}}
					if g.Bool("subscopeddirect") {
						inner = &sg.Node{Kind: "uses", Name: sgn}
					}
					top.Kids = append(top.Kids, inner)
				}
				sm.Nodes = append(sm.Nodes, top)
				// a uses at the top of the submodule (with its refines and augments, the when, if-feature and status they hand on)
				if g.Chance(1, 2, "subtopuses") {
					v2 := vis[g.Pick(len(vis), "subtopusesgr")]
					sm.Nodes = append(sm.Nodes, x.usesNode(v2.ref, v2.gr, nil, mods))
				}
				x.idb, x.vis = saved, savedVis
			}
			// augments written in the submodule: of the module's own tree through the belongs-to prefix, of the tree of a
			// module that both import, and of the tree of a module that only the submodule imports
			saved := x.idb
			x.idb = ""
			if g.Chance(1, 3, "subownaug") {
				a := &sg.Augment{Target: "/" + m.Prefix + ":" + m.Nodes[0].Name, Kids: []*sg.Node{x.leaf(x.id("soa"))}}
				a.Kids[0].Mandatory = ""
				sm.Augments = append(sm.Augments, a)
			}
			for j, om := range mods {
				if j >= i || !g.Chance(1, 2, "subxaug") {
					continue
				}
				have := false
				for _, imp := range sm.Imports {
					if imp.Mod == om.Name {
						have = true
					}
				}
				if !have {
					sm.Imports = append(sm.Imports, sg.Import{Mod: om.Name, Prefix: om.Prefix})
				}
				a := &sg.Augment{Target: "/" + om.Prefix + ":" + om.Nodes[0].Name, Kids: []*sg.Node{x.leaf(x.id("sxa"))}}
				a.Kids[0].Mandatory = ""
				sm.Augments = append(sm.Augments, a)
			}
			x.idb = saved
			if g.Chance(1, 3, "subchain") {
				// a chain of groupings written in the submodule, each used below the top level of the one before (in
				// either order of definition), the first one used by the module itself: what the module gets is the whole
				// chain
				str := &sg.TypeSpec{Name: "string"}
				ga, g1, g2, ct := x.id("sca"), x.id("sc1"), x.id("sc2"), x.id("sct")
				chain := []*sg.Grouping{
					{Name: ga, Kids: []*sg.Node{{Kind: "container", Name: "scv", Kids: []*sg.Node{{Kind: "uses", Name: g1}}}}},
					{Name: g1, Kids: []*sg.Node{{Kind: "container", Name: "scw", Kids: []*sg.Node{{Kind: "uses", Name: g2}, {Kind: "leaf", Name: "scy", Type: str}}}}},
					{Name: g2, Kids: []*sg.Node{{Kind: "leaf", Name: "scz", Type: str}}}}
				if g.Bool("subchainorder") {
					chain[0], chain[2] = chain[2], chain[0]
				}
				sm.Groupings = append(sm.Groupings, chain...)
				m.Nodes = append(m.Nodes, &sg.Node{Kind: "container", Name: ct, Kids: []*sg.Node{{Kind: "uses", Name: ga}}})
			}
			if len(sm.Groupings) > 0 || len(sm.Nodes) > 0 || len(sm.Augments) > 0 {
				m.Includes = []string{sm.Name}
				subs[m.Name] = sm
			} else {
				m.Groupings = keep
			}
		}
		// the order of definitions means nothing: written last-first, every uses of a grouping of the module stands before
		// the definition it refers to
		if g.Chance(1, 2, "reversegroupings") {
			for a, b := 0, len(m.Groupings)-1; a < b; a, b = a+1, b-1 {
				m.Groupings[a], m.Groupings[b] = m.Groupings[b], m.Groupings[a]
			}
		}
		m.DefsLast = g.Chance(1, 2, "defslast")
		mods = append(mods, m)
		visible = append(visible, vis)
	}
	if g.Chance(1, 4, "renamedimport") {
		// a module that knows the first one under another prefix than its own, and refines the default of an identityref
		// leaf of one of its groupings: the default is written in this module's file, with this module's prefix for the
		// module of the identity (or without one, for an identity of its own)
		m0 := mods[0]
		m0.Groupings = append(m0.Groupings, &sg.Grouping{Name: "zig", Kids: []*sg.Node{{Kind: "leaf", Name: "zil", Type: &sg.TypeSpec{Name: "identityref", Base: m0.Prefix + ":idbase-0"}},
			{Kind: "leaf", Name: "zil2", Type: &sg.TypeSpec{Name: "identityref", Base: m0.Prefix + ":idbase-0"}}}})
		// (the module also knows it under its own prefix, which the inlined form of the grouping's text is written with)
		zb := &sg.Mod{Name: "zrb", Prefix: "zrb", Imports: []sg.Import{{Mod: m0.Name, Prefix: "zx"}, {Mod: m0.Name, Prefix: m0.Prefix}},
			Identities: []*sg.Identity{{Name: "zown", Base: "zx:idbase-0"}},
			Nodes: []*sg.Node{{Kind: "container", Name: "zrb-top", Kids: []*sg.Node{{Kind: "uses", Name: "zx:zig",
				Refines: []sg.Refine{{Target: "zil", Stmts: []string{`default "zx:idder-0";`}}, {Target: "zil2", Stmts: []string{`default "zown";`}}}}}}}}
		// (not as the last module: that one is the subject of the clash variants below)
		last := mods[len(mods)-1]
		mods = append(mods[:len(mods)-1:len(mods)-1], zb, last)
	}
	allMods := withSubs(mods, subs)
	c := Case{Mods: allMods}
	for _, m := range mods {
		for _, f := range m.Features {
			if g.Chance(3, 5, "enabled") {
				c.Enabled = append(c.Enabled, m.Name+":"+f.Name)
			}
		}
	}
	// clash variants
	if g.Chance(1, 6, "clash") {
		m := mods[len(mods)-1]
		top := m.Nodes[0]
		switch g.Pick(5, "clashkind") {
		case 3, 4:
			// the clashing siblings come from different modules: an augment of an imported module's tree adds a
			// name the target already has (3) or that another module's augment has already added there (4)
			kind := g.Pick(2, "xclash")
			for _, imp := range m.Imports {
				for _, tm := range mods {
					if tm.Name != imp.Mod || c.Clash != "" {
						continue
					}
					ttop := tm.Nodes[0]
					name := ""
					if kind == 0 {
						for _, k := range ttop.Kids {
							if k.Kind == "leaf" || k.Kind == "container" || k.Kind == "list" || k.Kind == "leaf-list" {
								name = k.Name
								break
							}
						}
					} else {
						for _, om := range mods {
							if om == m {
								continue
							}
							for _, oa := range om.Augments {
								if strings.HasSuffix(oa.Target, ":"+ttop.Name) && strings.Count(oa.Target, "/") == 1 && len(oa.IfFeatures) == 0 && len(oa.Kids) > 0 {
									name = oa.Kids[0].Name
								}
							}
						}
					}
					if name != "" {
						m.Augments = append(m.Augments, &sg.Augment{Target: "/" + imp.Prefix + ":" + ttop.Name, Kids: []*sg.Node{{Kind: "leaf", Name: name, Type: &sg.TypeSpec{Name: "string"}}}})
						c.Clash = "cross-module-augment-vs-existing:" + name
					}
				}
			}
		case 0:
			// a local node with the name of a node the grouping introduces
			if in, _, err := sg.Inline(allMods); err == nil {
				for _, im := range in {
					if im.Name == m.Name && len(im.Nodes[0].Kids) > 2 {
						victim := im.Nodes[0].Kids[2]
						if victim.Kind == "choice" && fw.Known("c12.choice-name-vs-data-node") {
							// recorded known finding: a choice may share its name with a sibling data node
							continue
						}
						name := victim.Name
						top.Kids = append(top.Kids, &sg.Node{Kind: "leaf", Name: name, Type: &sg.TypeSpec{Name: "string"}})
						c.Clash = "grouping-node-vs-local:" + name
					}
				}
			}
		case 1:
			// augment adds a node that already exists
			a := &sg.Augment{Target: "/" + m.Prefix + ":" + top.Name, Kids: []*sg.Node{{Kind: "leaf", Name: "k", Type: &sg.TypeSpec{Name: "string"}}}}
			m.Augments = append(m.Augments, a)
			c.Clash = "augment-vs-existing:k"
		default:
			// the same grouping used twice under one parent
			for _, k := range top.Kids {
				if k.Kind == "uses" {
					top.Kids = append(top.Kids, &sg.Node{Kind: "uses", Name: k.Name})
					c.Clash = "same-grouping-twice:" + k.Name
					break
				}
			}
		}
	}
	return c
}

// flatNames collects the names that kids put into the enclosing namespace (choices and cases are transparent).
func flatNames(kids []*sg.Node, out map[string]int) {
	for _, k := range kids {
		switch k.Kind {
		case "choice", "case":
			flatNames(k.Kids, out)
		default:
			out[k.Name]++
		}
	}
}

func siblingClash(kids []*sg.Node) bool {
	names := map[string]int{}
	flatNames(kids, names)
	for _, n := range names {
		if n > 1 {
			return true
		}
	}
	for _, k := range kids {
		if k.Kind == "choice" || k.Kind == "case" {
			// their members were counted above; look inside the members
			var inner []*sg.Node
			var collect func(ks []*sg.Node)
			collect = func(ks []*sg.Node) {
				for _, x := range ks {
					if x.Kind == "choice" || x.Kind == "case" {
						collect(x.Kids)
					} else {
						inner = append(inner, x)
					}
				}
			}
			collect(k.Kids)
			for _, x := range inner {
				if siblingClash(x.Kids) {
					return true
				}
			}
			continue
		}
		if siblingClash(k.Kids) {
			return true
		}
	}
	return false
}
