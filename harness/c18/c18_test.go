// Package c18: structural data validation and default decoration are exact.
package c18

import (
	"fmt"
	"math/big"
	"regexp"
	"sort"
	"strconv"
	"strings"
	"testing"

	"verifharness/fw"
	"verifharness/sg"
	"verifharness/sgc"

	"github.com/sdcio/yang-parser/data/datanode"
	"github.com/sdcio/yang-parser/schema"
	"pgregory.net/rapid"
)

// D is a data node: container / list / list entry (Kids), leaf / leaf-list (Vals).
type D struct {
	Name string   `json:"name"`
	Kids []*D     `json:"kids,omitempty"`
	Vals []string `json:"vals,omitempty"`
}

type Case struct {
	Mods []*sg.Mod `json:"mods"`
	Data []*D      `json:"data"` // top-level data nodes
}

func (d *D) node() datanode.DataNode {
	var kids []datanode.DataNode
	for _, k := range d.Kids {
		kids = append(kids, k.node())
	}
	return datanode.CreateDataNode(d.Name, kids, d.Vals)
}

var values = []string{"a", "b", "a/b", "a b", "x:y", "a·b", "·", "", "1", "2", "a·", "·b"}

type world struct {
	mods   []*sg.Mod
	inl    []*sg.Mod
	byName map[string]*sg.Mod
}

func newWorld(mods []*sg.Mod) *world {
	inl, _, err := sg.Inline(mods)
	if err != nil {
		return nil
	}
	w := &world{mods: mods, inl: inl, byName: map[string]*sg.Mod{}}
	for _, m := range mods {
		w.byName[m.Name] = m
	}
	return w
}

func (w *world) tops() (map[string]*sg.Mod, []*sg.Node) {
	owner := map[string]*sg.Mod{}
	var tops []*sg.Node
	for _, m := range w.inl {
		for _, n := range m.Nodes {
			owner[n.Name] = w.byName[m.Name]
			tops = append(tops, n)
		}
	}
	return owner, tops
}

// effective default of a leaf: its own, else the nearest typedef default; none when mandatory
func (w *world) defaultOf(owner *sg.Mod, n *sg.Node) *string {
	if n.Kind != "leaf" || n.Mandatory == "true" {
		return nil
	}
	if n.Default != nil {
		return n.Default
	}
	dm := owner
	if n.DefMod != "" {
		dm = w.byName[n.DefMod]
	}
	return sg.DefaultOfType(w.mods, dm, n.Type)
}

type gen struct {
	g *sg.G
	w *world
}

// data for the children of a container / list entry; at most one case per choice
func (x *gen) kids(schemaKids []*sg.Node, depth int) []*D {
	g := x.g
	var out []*D
	for _, n := range schemaKids {
		switch n.Kind {
		case "choice":
			if len(n.Kids) == 0 || g.Chance(1, 3, "nocase") {
				continue
			}
			cs := n.Kids[g.Pick(len(n.Kids), "case")]
			if cs.Kind == "case" {
				out = append(out, x.kids(cs.Kids, depth)...)
			} else {
				out = append(out, x.kids([]*sg.Node{cs}, depth)...)
			}
		case "case":
			out = append(out, x.kids(n.Kids, depth)...)
		case "leaf":
			p := 2
			if n.Mandatory == "true" {
				p = 5
			}
			if g.Chance(p, 6, "leafpresent") {
				out = append(out, &D{Name: n.Name, Vals: []string{values[g.Pick(len(values), "val")]}})
			}
		case "leaf-list":
			if g.Chance(2, 3, "llpresent") {
				k := g.Pick(7, "llcount")
				d := &D{Name: n.Name}
				for i := 0; i < k; i++ {
					d.Vals = append(d.Vals, values[g.Pick(len(values), "llval")]+strconv.Itoa(i))
				}
				// an entry-less node (e.g. decoded from "tag": []) counts as zero values, it does not hide a min-elements violation
				if k > 0 || g.Chance(1, 3, "emptyll") {
					out = append(out, d)
				}
			}
		case "container":
			if depth > 0 && g.Chance(2, 3, "contpresent") {
				out = append(out, &D{Name: n.Name, Kids: x.kids(n.Kids, depth-1)})
			}
		case "list":
			if depth > 0 && g.Chance(2, 3, "listpresent") {
				k := g.Pick(7, "entries")
				d := &D{Name: n.Name}
				for i := 0; i < k; i++ {
					key := "k" + strconv.Itoa(i)
					e := &D{Name: key}
					var rest []*sg.Node
					for _, kk := range n.Kids {
						if !n.IsKey(kk.Name) {
							rest = append(rest, kk)
						}
					}
					e.Kids = []*D{{Name: n.FirstKey(), Vals: []string{key}}}
					for _, kn := range n.Keys()[1:] {
						e.Kids = append(e.Kids, &D{Name: kn, Vals: []string{[]string{"1", "red", "2"}[i%3]}})
					}
					e.Kids = append(e.Kids, x.kids(rest, depth-1)...)
					d.Kids = append(d.Kids, e)
				}
				// unique sets: make near-collisions likely (same values, values that differ only around a separator)
				for _, u := range n.Uniques {
					fields := strings.Fields(u)
					if g.Chance(2, 3, "uniqbias") {
						pool := []string{"a", "b", "a·", "·b", "a·b", "·", ""}
						for _, e := range d.Kids {
							for _, f := range fields {
								// the field may be a descendant path through a container
								holder := e
								parts := strings.Split(f, "/")
								for _, pn := range parts[:len(parts)-1] {
									next := find(holder.Kids, pn)
									if next == nil {
										if !g.Chance(2, 3, "uniqmk") {
											holder = nil
											break
										}
										next = &D{Name: pn}
										holder.Kids = append(holder.Kids, next)
									}
									holder = next
								}
								if holder == nil {
									continue
								}
								ln := parts[len(parts)-1]
								if leaf := find(holder.Kids, ln); leaf != nil && len(leaf.Vals) == 1 {
									leaf.Vals[0] = pool[g.Pick(len(pool), "uniqval")]
								} else if leaf == nil && g.Chance(2, 3, "uniqadd") {
									holder.Kids = append(holder.Kids, &D{Name: ln, Vals: []string{pool[g.Pick(len(pool), "uniqval2")]}})
								}
							}
						}
					}
				}
				// several unique sets: every set distinct over the entries, but the values of one set are those another
				// set has in the neighbouring entry (no violation: the sets are independent of each other)
				if len(n.Uniques) >= 2 && g.Chance(1, 3, "uniqcross") {
					pool := []string{"a", "b", "a·", "·b", "a·b", "·", "x"}
					for i, e := range d.Kids {
						for j, u := range n.Uniques {
							for _, f := range strings.Fields(u) {
								holder := e
								parts := strings.Split(f, "/")
								for _, pn := range parts[:len(parts)-1] {
									next := find(holder.Kids, pn)
									if next == nil {
										next = &D{Name: pn}
										holder.Kids = append(holder.Kids, next)
									}
									holder = next
								}
								ln := parts[len(parts)-1]
								v := pool[(i+j)%len(pool)]
								if leaf := find(holder.Kids, ln); leaf != nil {
									leaf.Vals = []string{v}
								} else {
									holder.Kids = append(holder.Kids, &D{Name: ln, Vals: []string{v}})
								}
							}
						}
					}
				}
				if k > 0 || g.Chance(1, 3, "emptylist") {
					out = append(out, d)
				}
			}
		}
	}
	return out
}

func genCase(t *rapid.T) Case {
	g := &sg.G{T: t, Cfg: sg.GenCfg{MaxMods: 2, NoFeatures: true, NoWhenMust: true, NoRpcs: true, UniqueBias: true, ConfigFalse: true}}
	c := Case{Mods: g.GenSet()}
	// leafref leaves are validated against the data (not part of this property): turn them into strings
	var strip func(kids []*sg.Node)
	strip = func(kids []*sg.Node) {
		for _, k := range kids {
			if k.Type != nil && k.Type.Name == "leafref" {
				k.Type = &sg.TypeSpec{Name: "string"}
			}
			strip(k.Kids)
		}
	}
	for _, m := range c.Mods {
		strip(m.Nodes)
		for _, gr := range m.Groupings {
			strip(gr.Kids)
		}
		for _, td := range m.Typedefs {
			if td.Type.Name == "leafref" {
				td.Type = &sg.TypeSpec{Name: "string"}
			}
		}
		for _, a := range m.Augments {
			strip(a.Kids)
		}
	}
	// local names recur on different levels of real models ("name", "address" ...): a node inside a case (directly or in a
	// non-presence container of the case) takes the name of a sibling of its choice
	var reuse func(kids []*sg.Node)
	reuse = func(kids []*sg.Node) {
		for _, ch := range kids {
			reuse(ch.Kids)
			if ch.Kind != "choice" || !g.Chance(1, 2, "reusename") {
				continue
			}
			var sib *sg.Node
			for _, k := range kids {
				if k != ch && (k.Kind == "leaf" || k.Kind == "leaf-list") {
					sib = k
				}
			}
			if sib == nil {
				continue
			}
			var cands []*sg.Node
			var inner func(ns []*sg.Node, depth int)
			inner = func(ns []*sg.Node, depth int) {
				for _, n := range ns {
					switch n.Kind {
					case "case":
						inner(n.Kids, depth)
					case "container":
						if n.Presence == "" && depth < 2 {
							inner(n.Kids, depth+1)
						}
					case "leaf", "leaf-list":
						if depth > 0 {
							cands = append(cands, n)
						}
					}
				}
			}
			inner(ch.Kids, 0)
			if len(cands) > 0 {
				victim := cands[g.Pick(len(cands), "victim")]
				// preferably a node whose absence matters
				for _, cnd := range cands {
					if cnd.Mandatory == "true" || (cnd.Min != "" && cnd.Min != "0") {
						victim = cnd
					}
				}
				if victim.Kind == "leaf" && victim.Mandatory != "true" && victim.Default == nil && victim.When == "" && g.Bool("makemandatory") {
					victim.Mandatory = "true"
				}
				victim.Name = sib.Name
			}
		}
	}
	for _, m := range c.Mods {
		reuse(m.Nodes)
	}
	if g.Chance(1, 3, "gadget") && len(c.Mods[0].Nodes) > 0 {
		// a choice whose case holds a non-presence container (or two nested ones) with a node that must be there, named
		// like a sibling of the choice; which parts exist is left to the data generator
		str := func() *sg.TypeSpec { return &sg.TypeSpec{Name: "string"} }
		n := []string{"name", "address", "gx-id"}[g.Pick(3, "gname")]
		var must *sg.Node
		switch g.Pick(3, "gmust") {
		case 0:
			must = &sg.Node{Kind: "leaf", Name: n, Type: str(), Mandatory: "true"}
		case 1:
			must = &sg.Node{Kind: "leaf-list", Name: n, Type: str(), Min: "1"}
		default:
			must = &sg.Node{Kind: "choice", Name: "gx-inner", Mandatory: "true", Kids: []*sg.Node{{Kind: "leaf", Name: n, Type: str()}, {Kind: "leaf", Name: "gx-alt", Type: str()}}}
			if g.Bool("ginneropt") {
				must.Mandatory = ""
			}
		}
		auth := &sg.Node{Kind: "container", Name: "gx-auth", Kids: []*sg.Node{must, {Kind: "leaf", Name: "gx-secret", Type: str()}}}
		if g.Bool("gdeep") {
			auth = &sg.Node{Kind: "container", Name: "gx-outer", Kids: []*sg.Node{auth}}
		}
		sib := &sg.Node{Kind: "leaf", Name: n, Type: str()}
		if g.Bool("gsibll") {
			sib = &sg.Node{Kind: "leaf-list", Name: n, Type: str()}
		}
		gadget := &sg.Node{Kind: "container", Name: "gx-server", Kids: []*sg.Node{sib, {Kind: "leaf", Name: "gx-descr", Type: str()},
			{Kind: "choice", Name: "gx-access", Kids: []*sg.Node{
				{Kind: "case", Name: "gx-remote", Kids: []*sg.Node{{Kind: "leaf", Name: "gx-host", Type: str()}, auth}},
				{Kind: "case", Name: "gx-local", Kids: []*sg.Node{{Kind: "leaf", Name: "gx-path", Type: str()}}}}}}}
		top := c.Mods[0].Nodes[0]
		top.Kids = append(top.Kids, gadget)
	}
	if g.Chance(1, 3, "defgadget") && len(c.Mods[0].Nodes) > 0 {
		// defaults behind two levels of choices inside a non-presence container: only the default case of the outer choice
		// and, inside it, only the default case of the nested choice (if it has one) contribute
		str := func() *sg.TypeSpec { return &sg.TypeSpec{Name: "string"} }
		dl := func(name, def string) *sg.Node {
			d := def
			return &sg.Node{Kind: "leaf", Name: name, Type: str(), Default: &d}
		}
		inner := &sg.Node{Kind: "choice", Name: "gd-inner", Kids: []*sg.Node{
			{Kind: "case", Name: "gd-i1", Kids: []*sg.Node{dl("gd-p", "p")}},
			{Kind: "case", Name: "gd-i2", Kids: []*sg.Node{dl("gd-q", "q"), {Kind: "container", Name: "gd-c", Kids: []*sg.Node{dl("gd-r", "r")}}}}}}
		switch g.Pick(3, "innerdef") {
		case 0:
			inner.Default = sp("gd-i1")
		case 1:
			inner.Default = sp("gd-i2")
		}
		outer := &sg.Node{Kind: "container", Name: "gd-outer", Kids: []*sg.Node{{Kind: "choice", Name: "gd-ch", Default: sp("gd-a"), Kids: []*sg.Node{
			{Kind: "case", Name: "gd-a", Kids: []*sg.Node{dl("gd-x", "1"), inner}},
			{Kind: "case", Name: "gd-b", Kids: []*sg.Node{dl("gd-y", "y")}}}}}}
		if g.Bool("gdwrap") {
			outer = &sg.Node{Kind: "container", Name: "gd-wrap", Kids: []*sg.Node{outer}}
		}
		top := c.Mods[0].Nodes[0]
		top.Kids = append([]*sg.Node{outer}, top.Kids...)
	}
	if g.Chance(1, 3, "topchoices") {
		// choices directly at the top level of every module (the root of the model set then has the choices of several
		// modules): cases with defaults and with mandatory leaves, a default case in some
		str := func() *sg.TypeSpec { return &sg.TypeSpec{Name: "string"} }
		sameChoiceName := g.Bool("samechoicename")
		for i, m := range c.Mods {
			if m.BelongsTo != "" && (sameChoiceName || g.Bool("topchsub")) {
				continue
			}
			d1, d2 := "x", "y"
			chName := fmt.Sprintf("gt%d-ch", i)
			if sameChoiceName {
				// the choices of different modules may have the same name (their members do not): each is its module's own
				chName = "gt-ch"
			}
			ch := &sg.Node{Kind: "choice", Name: chName, Kids: []*sg.Node{
				{Kind: "case", Name: fmt.Sprintf("gt%d-ca", i), Kids: []*sg.Node{{Kind: "leaf", Name: fmt.Sprintf("gt%d-a", i), Type: str(), Default: &d1},
					{Kind: "leaf", Name: fmt.Sprintf("gt%d-am", i), Type: str(), Mandatory: "true"}}},
				{Kind: "case", Name: fmt.Sprintf("gt%d-cb", i), Kids: []*sg.Node{{Kind: "leaf", Name: fmt.Sprintf("gt%d-b", i), Type: str(), Default: &d2},
					{Kind: "leaf", Name: fmt.Sprintf("gt%d-bo", i), Type: str()}}}}}
			if g.Bool("topchdef") {
				ch.Default = sp(fmt.Sprintf("gt%d-cb", i))
			}
			m.Nodes = append(m.Nodes, ch)
		}
	}
	uniqGadget := g.Chance(1, 3, "uniqgadget") && len(c.Mods[0].Nodes) > 0
	if uniqGadget {
		// unique sets over leaves whose names hold numbers: "port10" sorts after "port9" naturally and before it
		// character by character; the entries also hold those neighbours
		str := func() *sg.TypeSpec { return &sg.TypeSpec{Name: "string"} }
		l := func(n string) *sg.Node { return &sg.Node{Kind: "leaf", Name: n, Type: str()} }
		// ... and over leaves of 64-bit types, whose values differ in the last digit only, beyond what a float64 tells apart
		num := func(n, typ string, fd int) *sg.Node {
			return &sg.Node{Kind: "leaf", Name: n, Type: &sg.TypeSpec{Name: typ, FD: fd}}
		}
		gl := &sg.Node{Kind: "list", Name: "gu-list", Key: "k", Uniques: []string{"port10", "addr/v10 addr/v4", "n64", "i64 addr/d64"},
			Kids: []*sg.Node{l("k"), l("port2"), l("port9"), l("port10"), l("port100"), num("n64", "uint64", 0), num("i64", "int64", 0),
				{Kind: "container", Name: "addr", Kids: []*sg.Node{l("v4"), l("v6"), l("v10"), num("d64", "decimal64", 2)}}}}
		top := c.Mods[0].Nodes[0]
		top.Kids = append([]*sg.Node{gl}, top.Kids...)
	}
	nested := g.Chance(1, 3, "nestgadget") && len(c.Mods[0].Nodes) > 0
	if nested {
		// a choice inside a case of another choice, mandatory leaves in the outer case and in the nested case: the outer
		// case is active as soon as any node of it exists, also one that belongs to the nested choice
		str := func() *sg.TypeSpec { return &sg.TypeSpec{Name: "string"} }
		ml := func(name string) *sg.Node { return &sg.Node{Kind: "leaf", Name: name, Type: str(), Mandatory: "true"} }
		ol := func(name string) *sg.Node { return &sg.Node{Kind: "leaf", Name: name, Type: str()} }
		inner := &sg.Node{Kind: "choice", Name: "gn-inner", Kids: []*sg.Node{
			{Kind: "case", Name: "gn-cp", Kids: []*sg.Node{ol("gn-p"), ml("gn-pm")}},
			{Kind: "case", Name: "gn-cq", Kids: []*sg.Node{ol("gn-q")}}}}
		cx := []*sg.Node{ol("gn-xa"), ml("gn-xm"), inner}
		if g.Bool("secondnested") {
			// a second and a third choice in the same case: which nested choice a node belongs to is asked of each of them
			cx = append(cx, &sg.Node{Kind: "choice", Name: "gn-inner2", Kids: []*sg.Node{
				{Kind: "case", Name: "gn-c2p", Kids: []*sg.Node{ol("gn-p2"), ml("gn-p2m")}},
				{Kind: "case", Name: "gn-c2q", Kids: []*sg.Node{ol("gn-q2")}}}},
				&sg.Node{Kind: "choice", Name: "gn-inner3", Kids: []*sg.Node{
					{Kind: "case", Name: "gn-c3p", Kids: []*sg.Node{{Kind: "leaf-list", Name: "gn-p3", Type: str(), Min: "1"}, {Kind: "container", Name: "gn-c3c", Kids: []*sg.Node{ml("gn-p3m")}}}},
					{Kind: "case", Name: "gn-c3q", Kids: []*sg.Node{ol("gn-q3")}}}})
		}
		box := &sg.Node{Kind: "container", Name: "gn-box", Kids: []*sg.Node{{Kind: "choice", Name: "gn-outer", Kids: []*sg.Node{
			{Kind: "case", Name: "gn-cx", Kids: cx},
			{Kind: "case", Name: "gn-cy", Kids: []*sg.Node{ol("gn-y")}}}}}}
		top := c.Mods[0].Nodes[0]
		top.Kids = append([]*sg.Node{box}, top.Kids...)
	}
	if g.Chance(1, 2, "flaggadget") && len(c.Mods[0].Nodes) > 0 {
		// a flag: a presence container without children (or with an optional one) as a node of a case, next to a mandatory
		// sibling, under a choice that may be mandatory itself and may sit inside a case of another choice.  The
		// container alone, empty, selects its case and satisfies the choice.
		str := func() *sg.TypeSpec { return &sg.TypeSpec{Name: "string"} }
		flag := &sg.Node{Kind: "container", Name: "gf-flag", Presence: "on"}
		if g.Bool("flagopt") {
			flag.Kids = []*sg.Node{{Kind: "leaf", Name: "gf-opt", Type: str()}}
		}
		on := &sg.Node{Kind: "case", Name: "gf-on", Kids: []*sg.Node{flag}}
		switch g.Pick(4, "flagsib") {
		case 0:
			on.Kids = append(on.Kids, &sg.Node{Kind: "leaf", Name: "gf-need", Type: str(), Mandatory: "true"})
		case 1:
			on.Kids = append(on.Kids, &sg.Node{Kind: "leaf-list", Name: "gf-need", Type: str(), Min: "1"})
		case 2:
			on.Kids = append(on.Kids, &sg.Node{Kind: "choice", Name: "gf-sub", Mandatory: "true", Kids: []*sg.Node{{Kind: "leaf", Name: "gf-s1", Type: str()}, {Kind: "leaf", Name: "gf-s2", Type: str()}}})
		}
		mode := &sg.Node{Kind: "choice", Name: "gf-mode", Kids: []*sg.Node{on, {Kind: "case", Name: "gf-off", Kids: []*sg.Node{{Kind: "leaf", Name: "gf-why", Type: str()}}}}}
		if g.Bool("flagmand") {
			mode.Mandatory = "true"
		}
		box := &sg.Node{Kind: "container", Name: "gf-box", Kids: []*sg.Node{mode}}
		if g.Chance(1, 3, "flagnested") {
			box.Kids = []*sg.Node{{Kind: "choice", Name: "gf-outer", Kids: []*sg.Node{{Kind: "case", Name: "gf-oa", Kids: []*sg.Node{mode, {Kind: "leaf", Name: "gf-oam", Type: str(), Mandatory: "true"}}},
				{Kind: "case", Name: "gf-ob", Kids: []*sg.Node{{Kind: "leaf", Name: "gf-obl", Type: str()}}}}}}
		}
		top := c.Mods[0].Nodes[0]
		top.Kids = append([]*sg.Node{box}, top.Kids...)
	}
	caseName := ""
	if g.Chance(1, 3, "casenamegadget") && len(c.Mods[0].Nodes) > 0 {
		// a case that is named like a data node next to its choice (case names live in the scope of their choice, so this
		// is legal): the sibling is an ordinary node of the container - required, or with a default - not a member of
		// the choice
		str := func() *sg.TypeSpec { return &sg.TypeSpec{Name: "string"} }
		caseName = []string{"gc-tls", "name", "address"}[g.Pick(3, "gcname")]
		dv := "dflt"
		var sib *sg.Node
		switch g.Pick(5, "gcsib") {
		case 0:
			sib = &sg.Node{Kind: "leaf", Name: caseName, Type: str(), Mandatory: "true"}
		case 1:
			sib = &sg.Node{Kind: "leaf-list", Name: caseName, Type: str(), Min: "1"}
		case 2:
			sib = &sg.Node{Kind: "leaf", Name: caseName, Type: str(), Default: &dv}
		case 3:
			sib = &sg.Node{Kind: "container", Name: caseName, Kids: []*sg.Node{{Kind: "leaf", Name: "gc-in", Type: str(), Mandatory: "true"}}}
		default:
			sib = &sg.Node{Kind: "container", Name: caseName, Kids: []*sg.Node{{Kind: "leaf", Name: "gc-in", Type: str(), Default: &dv}}}
		}
		sec := &sg.Node{Kind: "choice", Name: "gc-sec", Kids: []*sg.Node{{Kind: "case", Name: caseName, Kids: []*sg.Node{{Kind: "leaf", Name: "gc-cert", Type: str()}}},
			{Kind: "case", Name: "gc-none", Kids: []*sg.Node{{Kind: "leaf", Name: "gc-x", Type: str()}}}}}
		kids := []*sg.Node{sib, sec}
		if g.Bool("gcorder") {
			kids = []*sg.Node{sec, sib}
		}
		box := &sg.Node{Kind: "container", Name: "gc-box", Presence: "p", Kids: kids}
		top := c.Mods[0].Nodes[0]
		top.Kids = append([]*sg.Node{box}, top.Kids...)
	}
	w := newWorld(c.Mods)
	if w == nil {
		return c
	}
	_, tops := w.tops()
	x := &gen{g, w}
	c.Data = x.kids(tops, 4)
	if caseName != "" && g.Chance(3, 4, "gcdata") {
		top := c.Mods[0].Nodes[0]
		box := &D{Name: "gc-box"}
		switch g.Pick(3, "gcactive") {
		case 0:
			box.Kids = append(box.Kids, &D{Name: "gc-cert", Vals: []string{"c"}})
		case 1:
			box.Kids = append(box.Kids, &D{Name: "gc-x", Vals: []string{"x"}})
		}
		if g.Chance(1, 4, "gcsibpresent") {
			sn := top.Kids[0].Kids[0]
			if sn.Name != caseName {
				sn = top.Kids[0].Kids[1]
			}
			if sn.Kind == "container" {
				box.Kids = append(box.Kids, &D{Name: caseName, Kids: []*D{{Name: "gc-in", Vals: []string{"v"}}}})
			} else {
				box.Kids = append(box.Kids, &D{Name: caseName, Vals: []string{"v"}})
			}
		}
		var topD *D
		for _, d := range c.Data {
			if d.Name == top.Name {
				topD = d
			}
		}
		if topD == nil {
			topD = &D{Name: top.Name}
			c.Data = append(c.Data, topD)
		}
		var kept []*D
		for _, k := range topD.Kids {
			if k.Name != "gc-box" {
				kept = append(kept, k)
			}
		}
		topD.Kids = append(kept, box)
	}
	if uniqGadget && g.Chance(3, 4, "uniqdata") {
		gl := &D{Name: "gu-list"}
		n := 2 + g.Pick(3, "uniqentries")
		for i := 0; i < n; i++ {
			e := &D{Name: fmt.Sprintf("e%d", i), Kids: []*D{{Name: "k", Vals: []string{fmt.Sprintf("e%d", i)}}}}
			for _, ln := range []string{"port2", "port9", "port10", "port100"} {
				if g.Chance(3, 4, "uniqleaf") {
					e.Kids = append(e.Kids, &D{Name: ln, Vals: []string{[]string{"a", "b", "c"}[g.Pick(3, "uniqval")]}})
				}
			}
			big := g.Chance(1, 2, "uniqbig")
			if g.Chance(3, 4, "uniqn64") {
				pool := []string{"9007199254740992", "9007199254740993", "9007199254740994", "18446744073709551615", "18446744073709551614", "7", "+7", "007", "0", "00"}
				if big {
					pool = pool[:3]
				}
				e.Kids = append(e.Kids, &D{Name: "n64", Vals: []string{pool[g.Pick(len(pool), "uniqn64val")]}})
			}
			if g.Chance(3, 4, "uniqi64") {
				pool := []string{"-9007199254740993", "-9007199254740992", "9223372036854775807", "9223372036854775806", "7", "+7", "-0", "0", "-07", "-7"}
				if big {
					pool = pool[:2]
				}
				e.Kids = append(e.Kids, &D{Name: "i64", Vals: []string{pool[g.Pick(len(pool), "uniqi64val")]}})
			}
			if g.Chance(3, 4, "uniqaddr") {
				a := &D{Name: "addr"}
				for _, ln := range []string{"v4", "v6", "v10"} {
					if g.Chance(3, 4, "uniqaddrleaf") {
						a.Kids = append(a.Kids, &D{Name: ln, Vals: []string{[]string{"x", "y"}[g.Pick(2, "uniqaddrval")]}})
					}
				}
				if g.Chance(3, 4, "uniqd64") {
					pool := []string{"90071992547409.93", "90071992547409.92", "1.50", "1.25", "1.5", "+1.5", "01.50", "1", "1.0", "-0.0", "0"}
					if big {
						pool = pool[:2]
					}
					a.Kids = append(a.Kids, &D{Name: "d64", Vals: []string{pool[g.Pick(len(pool), "uniqd64val")]}})
				}
				e.Kids = append(e.Kids, a)
			}
			gl.Kids = append(gl.Kids, e)
		}
		if g.Chance(1, 3, "uniqtwins") {
			// two entries that agree on the first leaf of a set and both lack a later one: not compared (an entry counts only
			// when it has every leaf of the set)
			for _, e := range gl.Kids[:2] {
				var kept []*D
				for _, k := range e.Kids {
					if k.Name != "addr" {
						kept = append(kept, k)
					}
				}
				e.Kids = append(kept, &D{Name: "addr", Kids: []*D{{Name: "v10", Vals: []string{"x"}}, {Name: "v6", Vals: []string{"z"}}, {Name: "d64", Vals: []string{"1.25"}}}})
			}
		}
		top := c.Mods[0].Nodes[0]
		var topD *D
		for _, d := range c.Data {
			if d.Name == top.Name {
				topD = d
			}
		}
		if topD == nil {
			topD = &D{Name: top.Name}
			c.Data = append(c.Data, topD)
		}
		var kept []*D
		for _, k := range topD.Kids {
			if k.Name != "gu-list" {
				kept = append(kept, k)
			}
		}
		topD.Kids = append(kept, gl)
	}
	if nested && g.Chance(3, 4, "nestdata") {
		pats := [][]string{{"gn-p"}, {"gn-p", "gn-pm"}, {"gn-p", "gn-xm"}, {"gn-p", "gn-pm", "gn-xm"}, {"gn-xa", "gn-p"}, {"gn-q", "gn-xm"}, {"gn-q"}, {"gn-y"}, {}, {"gn-pm"}, {"gn-xa", "gn-xm"}}
		box := &D{Name: "gn-box"}
		for _, n := range pats[g.Pick(len(pats), "nestpat")] {
			box.Kids = append(box.Kids, &D{Name: n, Vals: []string{"v"}})
		}
		top := c.Mods[0].Nodes[0]
		var topD *D
		for _, d := range c.Data {
			if d.Name == top.Name {
				topD = d
			}
		}
		if topD == nil {
			topD = &D{Name: top.Name}
			c.Data = append(c.Data, topD)
		}
		var kept []*D
		for _, k := range topD.Kids {
			if k.Name != "gn-box" {
				kept = append(kept, k)
			}
		}
		topD.Kids = append(kept, box)
	}
	// the gadget's own data: every combination of sibling / active case / container / required node
	if top := c.Mods[0].Nodes[0]; len(top.Kids) > 0 && top.Kids[len(top.Kids)-1].Name == "gx-server" && g.Chance(2, 3, "gdata") {
		gad := top.Kids[len(top.Kids)-1]
		sibName := gad.Kids[0].Name
		srv := &D{Name: "gx-server"}
		if g.Bool("dsib") {
			srv.Kids = append(srv.Kids, &D{Name: sibName, Vals: []string{"s1"}})
		}
		if g.Bool("ddescr") {
			srv.Kids = append(srv.Kids, &D{Name: "gx-descr", Vals: []string{"d"}})
		}
		switch g.Pick(4, "dcase") {
		case 0:
			srv.Kids = append(srv.Kids, &D{Name: "gx-path", Vals: []string{"p"}})
		case 1, 2:
			srv.Kids = append(srv.Kids, &D{Name: "gx-host", Vals: []string{"h"}})
			if g.Bool("dauth") {
				auth := &D{Name: "gx-auth"}
				if g.Bool("dsecret") {
					auth.Kids = append(auth.Kids, &D{Name: "gx-secret", Vals: []string{"x"}})
				}
				if g.Bool("dmust") {
					auth.Kids = append(auth.Kids, &D{Name: sibName, Vals: []string{"inner"}})
				}
				holder := auth
				if gad.Kids[2].Kids[0].Kids[1].Name == "gx-outer" {
					holder = &D{Name: "gx-outer", Kids: []*D{auth}}
				}
				srv.Kids = append(srv.Kids, holder)
			}
		}
		var topD *D
		for _, d := range c.Data {
			if d.Name == top.Name {
				topD = d
			}
		}
		if topD == nil {
			topD = &D{Name: top.Name}
			c.Data = append(c.Data, topD)
		}
		var kept []*D
		for _, k := range topD.Kids {
			if k.Name != "gx-server" {
				kept = append(kept, k)
			}
		}
		topD.Kids = append(kept, srv)
	}
	return c
}

// ---- reference: structural violations --------------------------------------------------

func find(ds []*D, name string) *D {
	for _, d := range ds {
		if d.Name == name {
			return d
		}
	}
	return nil
}

func atoi(s string, def int) int {
	if s == "" || s == "unbounded" {
		return def
	}
	n, err := strconv.Atoi(s)
	if err != nil {
		return def
	}
	return n
}

// anyPresent: some data node of the (effective) schema kids exists
func anyPresent(schemaKids []*sg.Node, data []*D) bool {
	for _, n := range schemaKids {
		switch n.Kind {
		case "choice", "case":
			if anyPresent(n.Kids, data) {
				return true
			}
		default:
			if find(data, n.Name) != nil {
				return true
			}
		}
	}
	return false
}

// violations of the children of an existing (or virtually existing non-presence) parent
func (w *world) violations(schemaKids []*sg.Node, data []*D, path string, inActiveCase bool, out *[]string) {
	for _, n := range schemaKids {
		p := path + "/" + n.Name
		switch n.Kind {
		case "choice":
			active := false
			for _, cs := range n.Kids {
				members := []*sg.Node{cs}
				if cs.Kind == "case" {
					members = cs.Kids
				}
				if anyPresent(members, data) {
					active = true
					w.violations(members, data, p, true, out)
				}
			}
			if !active && n.Mandatory == "true" {
				*out = append(*out, "mandatory choice "+p+" has no case")
			}
		case "case":
			w.violations(n.Kids, data, p, inActiveCase, out)
		case "leaf":
			if n.Mandatory == "true" && find(data, n.Name) == nil {
				*out = append(*out, "mandatory leaf "+p+" missing")
			}
		case "leaf-list":
			d := find(data, n.Name)
			min, max := atoi(n.Min, 0), atoi(n.Max, -1)
			cnt := 0
			if d != nil {
				cnt = len(d.Vals)
			}
			if cnt < min {
				*out = append(*out, fmt.Sprintf("leaf-list %s has %d values, min-elements %d", p, cnt, min))
			}
			if max >= 0 && cnt > max {
				*out = append(*out, fmt.Sprintf("leaf-list %s has %d values, max-elements %d", p, cnt, max))
			}
		case "list":
			d := find(data, n.Name)
			min, max := atoi(n.Min, 0), atoi(n.Max, -1)
			cnt := 0
			if d != nil {
				cnt = len(d.Kids)
			}
			if cnt < min {
				*out = append(*out, fmt.Sprintf("list %s has %d entries, min-elements %d", p, cnt, min))
			}
			if max >= 0 && cnt > max {
				*out = append(*out, fmt.Sprintf("list %s has %d entries, max-elements %d", p, cnt, max))
			}
			if d != nil {
				for _, e := range d.Kids {
					w.violations(n.Kids, e.Kids, p+"["+e.Name+"]", false, out)
				}
				for _, u := range n.Uniques {
					seen := map[string]string{}
					for _, e := range d.Kids {
						var tuple []string
						complete := true
						for _, f := range strings.Fields(u) {
							v := resolve(n.Kids, e.Kids, strings.Split(f, "/"))
							if v == nil {
								complete = false
								break
							}
							tuple = append(tuple, *v)
						}
						if !complete {
							continue
						}
						key := strings.Join(tuple, "\x00")
						if prev, dup := seen[key]; dup {
							*out = append(*out, fmt.Sprintf("entries %s and %s of %s agree on unique %q", prev, e.Name, p, u))
						}
						seen[key] = e.Name
					}
				}
			}
		case "container":
			d := find(data, n.Name)
			switch {
			case d != nil:
				w.violations(n.Kids, d.Kids, p, false, out)
			case n.Presence == "":
				// a non-presence container that is absent: mandatory nodes inside still count
				w.violations(n.Kids, nil, p, false, out)
			}
		}
	}
}

func resolve(schemaKids []*sg.Node, data []*D, path []string) *string {
	d := find(data, path[0])
	if d == nil {
		return nil
	}
	var sn *sg.Node
	var look func(kids []*sg.Node)
	look = func(kids []*sg.Node) {
		for _, k := range kids {
			if k.Kind == "choice" || k.Kind == "case" {
				look(k.Kids)
			} else if k.Name == path[0] && sn == nil {
				sn = k
			}
		}
	}
	look(schemaKids)
	if len(path) == 1 {
		if len(d.Vals) == 0 {
			return nil
		}
		v := d.Vals[0]
		if sn != nil && sn.Type != nil {
			v = valueKey(sn.Type.Name, v)
		}
		return &v
	}
	if sn == nil {
		return resolve(nil, d.Kids, path[1:])
	}
	return resolve(sn.Kids, d.Kids, path[1:])
}

var numRe = regexp.MustCompile(`^[+-]?[0-9]+(\.[0-9]+)?$`)

// valueKey: unique compares values, not spellings (RFC 6020 7.8.3): the integers and decimals of one value get one key
// (computed with math/big, independently of the implementation); everything else is its own key.
func valueKey(typ, v string) string {
	switch typ {
	case "int8", "int16", "int32", "int64", "uint8", "uint16", "uint32", "uint64":
		if numRe.MatchString(v) && !strings.Contains(v, ".") {
			z, _ := new(big.Int).SetString(strings.TrimPrefix(v, "+"), 10)
			return z.String()
		}
	case "decimal64":
		if numRe.MatchString(v) {
			r, _ := new(big.Rat).SetString(strings.TrimPrefix(v, "+"))
			return "rat:" + r.RatString()
		}
	}
	return v
}

// ---- reference: default decoration --------------------------------------------------------

// hasDefaults: the subtree of an ABSENT node would contribute defaults
func (w *world) defaultsOfAbsent(owner *sg.Mod, n *sg.Node) *D {
	switch n.Kind {
	case "leaf":
		if def := w.defaultOf(owner, n); def != nil {
			return &D{Name: n.Name, Vals: []string{*def}}
		}
	case "container":
		if n.Presence != "" {
			return nil
		}
		kids := w.decorate(owner, n.Kids, nil)
		if len(kids) > 0 {
			return &D{Name: n.Name, Kids: kids}
		}
	}
	return nil
}

// decorate returns explicit data plus the defaults of absent nodes, following active / default cases
func (w *world) decorate(owner *sg.Mod, schemaKids []*sg.Node, data []*D) []*D {
	var out []*D
	for _, n := range schemaKids {
		switch n.Kind {
		case "choice":
			var activeMembers []*sg.Node
			for _, cs := range n.Kids {
				members := []*sg.Node{cs}
				if cs.Kind == "case" {
					members = cs.Kids
				}
				if anyPresent(members, data) {
					activeMembers = members
				}
			}
			if activeMembers == nil && n.Default != nil {
				for _, cs := range n.Kids {
					if cs.Name == *n.Default {
						activeMembers = []*sg.Node{cs}
						if cs.Kind == "case" {
							activeMembers = cs.Kids
						}
					}
				}
			}
			if activeMembers != nil {
				out = append(out, w.decorate(owner, activeMembers, data)...)
			}
		case "case":
			out = append(out, w.decorate(owner, n.Kids, data)...)
		default:
			d := find(data, n.Name)
			if d == nil {
				if x := w.defaultsOfAbsent(owner, n); x != nil {
					out = append(out, x)
				}
				continue
			}
			c := &D{Name: d.Name, Vals: d.Vals}
			switch n.Kind {
			case "container":
				c.Kids = w.decorate(owner, n.Kids, d.Kids)
			case "list":
				for _, e := range d.Kids {
					c.Kids = append(c.Kids, &D{Name: e.Name, Kids: w.decorate(owner, n.Kids, e.Kids)})
				}
			}
			out = append(out, c)
		}
	}
	return out
}

func canon(ds []*D, depth int, b *strings.Builder) {
	sorted := append([]*D(nil), ds...)
	sort.SliceStable(sorted, func(i, j int) bool { return sorted[i].Name < sorted[j].Name })
	for _, d := range sorted {
		fmt.Fprintf(b, "%s%s %q\n", strings.Repeat("  ", depth), d.Name, d.Vals)
		canon(d.Kids, depth+1, b)
	}
}

func fromDataNode(n datanode.DataNode) *D {
	d := &D{Name: n.YangDataName(), Vals: append([]string(nil), n.YangDataValues()...)}
	for _, k := range n.YangDataChildren() {
		d.Kids = append(d.Kids, fromDataNode(k))
	}
	return d
}

func checkCase(c Case) fw.Outcome {
	out := fw.Outcome{}
	w := newWorld(c.Mods)
	if w == nil {
		out.Skip = true
		return out
	}
	res := sgc.Compile(c.Mods, sgc.Opts{Features: sgc.AllFeatures{}})
	var texts []string
	for _, m := range c.Mods {
		texts = append(texts, m.Text())
	}
	src := strings.Join(texts, "\n")
	var db strings.Builder
	canon(c.Data, 0, &db)
	out.Key = src + db.String()
	if !res.OK() {
		out.Skip = true
		return out
	}
	owners, tops := w.tops()
	_ = owners
	root := datanode.CreateDataNode("root", nodes(c.Data), nil)

	// structural validation
	var viols []string
	w.violations(tops, c.Data, "", false, &viols)
	var errs []error
	var pan any
	func() {
		defer func() { pan = recover() }()
		_, errs, _ = schema.ValidateSchema(res.MS, root, false)
	}()
	if pan != nil {
		out.Violation = fmt.Sprintf("ValidateSchema panicked: %v\ndata:\n%s\n%s", pan, db.String(), src)
		return out
	}
	if (len(errs) > 0) != (len(viols) > 0) {
		out.Violation = fmt.Sprintf("structural validation: reference finds %d violations %v, ValidateSchema reports %d errors %v\ndata:\n%s\n%s", len(viols), viols, len(errs), errs, db.String(), src)
		return out
	}
	if len(viols) > 0 {
		out.Labels = append(out.Labels, "invalid-data")
	} else {
		out.Labels = append(out.Labels, "valid-data")
	}
	out.NonTrivial = len(viols) > 0 || len(c.Data) > 0

	// default decoration
	var want []*D
	for _, t := range tops {
		_ = t
	}
	// the owner module matters only for typedef defaults: decorate per top-level node
	for _, t := range tops {
		want = append(want, w.decorate(owners[t.Name], []*sg.Node{t}, c.Data)...)
	}
	var got *D
	func() {
		defer func() { pan = recover() }()
		got = fromDataNode(schema.AddDefaults(res.MS, root))
	}()
	if pan != nil {
		out.Violation = fmt.Sprintf("AddDefaults walk panicked: %v\ndata:\n%s\n%s", pan, db.String(), src)
		return out
	}
	var wb, gb strings.Builder
	canon(want, 0, &wb)
	canon(got.Kids, 0, &gb)
	if wb.String() != gb.String() {
		out.Violation = fmt.Sprintf("default decoration differs\n--- expected\n%s--- AddDefaults\n%s--- explicit data\n%s\n%s", wb.String(), gb.String(), db.String(), src)
		return out
	}
	if wb.String() != db.String() {
		out.Labels = append(out.Labels, "defaults-added")
	}
	// idempotence: decorating the decorated tree changes nothing
	var again *D
	func() {
		defer func() { pan = recover() }()
		again = fromDataNode(schema.AddDefaults(res.MS, datanode.CreateDataNode("root", nodes(got.Kids), nil)))
	}()
	var ab strings.Builder
	if again != nil {
		canon(again.Kids, 0, &ab)
	}
	if pan != nil || ab.String() != gb.String() {
		out.Violation = fmt.Sprintf("decorating twice differs from decorating once (%v)\n--- once\n%s--- twice\n%s\n%s", pan, gb.String(), ab.String(), src)
	}
	return out
}

func nodes(ds []*D) []datanode.DataNode {
	var out []datanode.DataNode
	for _, d := range ds {
		out = append(out, d.node())
	}
	return out
}

var structural = fw.Register(&fw.Prop[Case]{
	ID: "C18", Name: "structural",
	Rule: "schemas from the module-set generator (mandatory leaves and choices, nested non-presence containers, presence containers, choices within cases, default cases, lists and leaf-lists with min/max, " +
		"unique sets (also over uint64, int64 and decimal64 leaves: values that differ in the last digit beyond 2^53, and several spellings of one value - +7, 007, 1.50, 1.5 - which are one value to a unique statement), leaf and typedef defaults; no must/when/leafref) and data trees drawn over the harness's inlined model (random presence of every node, at most one case per choice, 0-6 list entries, values " +
		"from an alphabet with '/', blank, ':' and the middle dot); oracle: reference set of violated RFC 6020 constraints - ValidateSchema must report an error iff it is non-empty - and reference default " +
		"decoration - the walk of AddDefaults must equal it (children unordered), explicit data unchanged, decorating twice equals once; non-trivial = the tree has data or a violation",
	Gen: genCase, Check: checkCase,
	MinLabel: []string{"invalid-data", "valid-data", "defaults-added"},
})

func TestMain(m *testing.M) { fw.Main(m) }

func TestStructural(t *testing.T) { fw.Run(t, structural) }

func sp(s string) *string { return &s }
