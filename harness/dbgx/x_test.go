package dbgx

import (
	"fmt"
	"strings"
	"testing"

	"verifharness/sgc"

	"github.com/sdcio/yang-parser/parse"
	"github.com/sdcio/yang-parser/xpath"
	"github.com/sdcio/yang-parser/xpath/grammars/expr"
)

func try(name, text string) {
	defer func() {
		if r := recover(); r != nil {
			fmt.Println("  PANIC", r)
		}
	}()
	_, err := parse.Parse(name, text, nil)
	fmt.Printf("  %q => %v\n", text[:min(len(text), 60)], err)
}

func comp(label string, names, texts []string, skip bool) {
	cnt := map[string]int{}
	for i := 0; i < 30; i++ {
		res := sgc.CompileTexts(names, texts, sgc.Opts{Features: sgc.AllFeatures{}, SkipUnknown: skip})
		d := res.Describe()
		if len(d) > 150 {
			d = d[:150]
		}
		cnt[d]++
	}
	fmt.Println(label, cnt)
}

func TestX(t *testing.T) {
	fmt.Println("== line comment at EOF")
	try("a.yang", "module m {\n namespace \"urn:m\";\n prefix m;\n}\n// end")
	try("a.yang", "module m {\n namespace \"urn:m\";\n prefix m;\n}\n// end\n")
	try("a.yang", "module m {\n namespace \"urn:m\";\n prefix m;\n} //")
	fmt.Println("== % in name")
	try("a%sb%d.yang", "module x {")
	fmt.Println("== accessor panic")
	func() {
		defer func() {
			if r := recover(); r != nil {
				fmt.Println("  PANIC", r)
			}
		}()
		m, _ := expr.NewExprMachine("1 + 2", nil)
		res := xpath.NewCtxFromMach(m, nil).Run()
		ns, err := res.GetNodeSetResult()
		fmt.Println("  nodeset:", ns, err)
	}()
	fmt.Println("== submodule includes itself")
	comp("self-include", []string{"m", "s"}, []string{`module m { namespace "urn:m"; prefix m; include s; }`, `submodule s { belongs-to m { prefix m; } include s; leaf x { type string; } }`}, false)
	fmt.Println("== include chain with missing import")
	comp("chain", []string{"m", "s1", "s2", "s3"}, []string{`module m { namespace "urn:m"; prefix m; include s1; }`,
		`submodule s1 { belongs-to m { prefix m; } include s2; }`, `submodule s2 { belongs-to m { prefix m; } include s3; }`, `submodule s3 { belongs-to m { prefix m; } import x { prefix x; } }`}, false)
	fmt.Println("== range part max")
	comp("range", []string{"m"}, []string{`module m { namespace "urn:m"; prefix m; leaf a { type uint8 { range "1..5 | max"; } } }`}, false)
	comp("range-max", []string{"m"}, []string{`module m { namespace "urn:m"; prefix m; leaf a { type uint8 { range "max"; } } }`}, false)
	comp("length-max", []string{"m"}, []string{`module m { namespace "urn:m"; prefix m; typedef t { type string { length "2..10"; } } leaf a { type t { length "max"; } } }`}, false)
	fmt.Println("== typedef chain status")
	comp("tdchain", []string{"m"}, []string{`module m { namespace "urn:m"; prefix m; typedef ta { status deprecated; type tb; } typedef tb { status deprecated; type string; } leaf x { status deprecated; type ta; } }`}, false)
	fmt.Println("== rpc if-feature")
	res := sgc.CompileTexts([]string{"m"}, []string{`module m { namespace "urn:m"; prefix m; feature f; rpc r { if-feature f; input { leaf x { type string; } } } notification n { if-feature f; leaf y { type string; } } }`}, sgc.Opts{Features: sgc.FeatureSet{}})
	if res.OK() {
		for _, mod := range res.MS.Modules() {
			fmt.Println("  rpcs:", len(mod.Rpcs()), "notifs:", len(mod.Notifications()))
		}
	} else {
		fmt.Println(" ", res.Describe())
	}
	fmt.Println("== skipUnknown unbound prefixes")
	for _, b := range []string{`augment "/xx:foo" { leaf a { type string; } }`, `leaf a { type xx:foo; }`, `container c { uses xx:foo; }`, `feature f; leaf l { if-feature xx:f; type string; }`, `identity i { base xx:b; }`} {
		comp(b[:12], []string{"m"}, []string{`module m { namespace "urn:m"; prefix m; ` + b + ` }`}, true)
	}
	_ = strings.Repeat
}
