package dbgx

import (
	"fmt"
	"testing"

	"verifharness/sgc"
)

func comp(label string, names, texts []string) {
	res := sgc.CompileTexts(names, texts, sgc.Opts{Features: sgc.AllFeatures{}})
	d := res.Describe()
	if len(d) > 200 {
		d = d[:200]
	}
	fmt.Printf("%-40s %s\n", label, d)
}

func TestX(t *testing.T) {
	m := func(b string) []string { return []string{`module m { namespace "urn:m"; prefix m; ` + b + ` }`} }
	comp("notif status current under deprecated", []string{"m"}, m(`notification n { status deprecated; leaf x { status current; type string; } }`))
	comp("container status current under deprecated", []string{"m"}, m(`container n { status deprecated; leaf x { status current; type string; } }`))
	comp("rpc input status", []string{"m"}, m(`rpc r { status obsolete; input { leaf x { status current; type string; } } }`))
	comp("deviate replace dup units", []string{"m", "d"}, []string{m(`leaf x { type string; units "u0"; }`)[0], `module d { namespace "urn:d"; prefix d; import m { prefix m; } deviation /m:x { deviate replace { units "u1"; units "u2"; } } }`})
	comp("deviate add dup units", []string{"m", "d"}, []string{m(`leaf x { type string; }`)[0], `module d { namespace "urn:d"; prefix d; import m { prefix m; } deviation /m:x { deviate add { units "u1"; units "u2"; } } }`})
	comp("deviation into notification", []string{"m", "d"}, []string{m(`notification n { leaf x { type string; } leaf y { type string; } }`)[0], `module d { namespace "urn:d"; prefix d; import m { prefix m; } deviation /m:n/m:x { deviate not-supported; } }`})
	comp("deviation into rpc input", []string{"m", "d"}, []string{m(`rpc r { input { leaf x { type string; } leaf y { type string; } } }`)[0], `module d { namespace "urn:d"; prefix d; import m { prefix m; } deviation /m:r/m:input/m:x { deviate not-supported; } }`})
	comp("fraction-digits on derived", []string{"m"}, m(`typedef t { type decimal64 { fraction-digits 2; } } leaf a { type t { fraction-digits 4; } }`))
	comp("base under int32", []string{"m"}, m(`identity foo; leaf a { type int32 { base foo; } }`))
	comp("length under int32", []string{"m"}, m(`leaf a { type int32 { length "1..2"; } }`))
	comp("keyless state list", []string{"m"}, m(`list l { config false; leaf a { type string; } }`))
	comp("description no arg", []string{"m"}, m(`leaf a { type string; description; }`))
	comp("pattern a)(b", []string{"m"}, m(`leaf a { type string { pattern "a)(b"; } }`))
}

func TestY(t *testing.T) {
	m := func(b string) []string { return []string{`module m { namespace "urn:m"; prefix m; ` + b + ` }`} }
	for _, dv := range []string{`deviation /m:n/m:x { deviate not-supported; }`, `augment /m:n { leaf z { type string; } }`, `deviation /m:n/m:c/m:x2 { deviate replace { type int8; } }`, `augment /m:n/m:c { leaf z { type string; } }`} {
		res := sgc.CompileTexts([]string{"m", "d"}, []string{m(`notification n { leaf x { type string; } leaf y { type string; } container c { leaf x2 { type string; } } }`)[0], `module d { namespace "urn:d"; prefix d; import m { prefix m; } ` + dv + ` }`}, sgc.Opts{Features: sgc.AllFeatures{}})
		fmt.Println(dv, "=>", res.Describe())
		if res.OK() {
			for _, mod := range res.MS.Modules() {
				for k, n := range mod.Notifications() {
					var names []string
					for _, ch := range n.Schema().Children() {
						names = append(names, ch.Name())
						for _, gc := range ch.Children() {
							names = append(names, ch.Name()+"/"+gc.Name()+":"+fmt.Sprintf("%T", gc.Type()))
						}
					}
					fmt.Println("   ", k, names)
				}
			}
		}
	}
}
