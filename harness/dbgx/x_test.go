package dbgx

import (
	"fmt"
	"testing"

	"verifharness/sgc"
)

func comp(label string, names, texts []string) {
	res := sgc.CompileTexts(names, texts, sgc.Opts{Features: sgc.AllFeatures{}})
	d := res.Describe()
	if res.OK() {
		n := res.MS.Child("top").Child("l")
		dv, has := n.Type().Default()
		d = fmt.Sprintf("ok default=%q,%v", dv, has)
	}
	fmt.Println(label, "=>", d)
}

func TestX(t *testing.T) {
	aa := `module aa { namespace "urn:aa"; prefix a; identity b; identity foo { base b; } typedef tid { type identityref { base b; } default %s; } container top { leaf l { type tid; } } }`
	for _, d := range []string{"foo", "a:foo", "aa:foo"} {
		comp("same module default "+d, []string{"aa"}, []string{fmt.Sprintf(aa, d)})
	}
	aa2 := `module aa { namespace "urn:aa"; prefix a; identity b; identity foo { base b; } typedef tid { type identityref { base b; } default %s; } }`
	zz := `module zz { namespace "urn:zz"; prefix z; import aa { prefix x; } container top { leaf l { type x:tid; } } }`
	for _, d := range []string{"foo", "a:foo", "aa:foo"} {
		comp("other module default "+d, []string{"aa", "zz"}, []string{fmt.Sprintf(aa2, d), zz})
	}
	zz2 := `module zz { namespace "urn:zz"; prefix z; import aa { prefix x; } container top { leaf l { type x:tid; default %s; } } }`
	for _, d := range []string{"x:foo", "aa:foo"} {
		comp("leaf default "+d, []string{"aa", "zz"}, []string{fmt.Sprintf(aa2, "foo"), fmt.Sprintf(zz2, d)})
	}
}
