package dbgx

import (
	"fmt"
	"testing"

	"verifharness/sgc"
)

func TestX(t *testing.T) {
	for _, b := range []string{
		`leaf a { type uint8 { range "1..5 | max"; } }`, `leaf a { type uint8 { range "max"; } }`, `leaf a { type int8 { range "min | 5..10"; } }`, `leaf a { type int8 { range "min"; } }`,
		`typedef t { type string { length "2..10"; } } leaf a { type t { length "max"; } }`, `typedef t { type string { length "2..10"; } } leaf a { type t { length "min"; } }`,
		`typedef t { type string { length "2..10"; } } leaf a { type t { length "min | 5 | max"; } }`, `leaf a { type string { length "max"; } }`,
		`typedef t { type uint8 { range "10..20 | 30..40"; } } leaf a { type t { range "min | 15 | max"; } }`, `leaf a { type uint8 { range "max | 1"; } }`, `leaf a { type uint8 { range "1 | min"; } }`,
	} {
		res := sgc.CompileTexts([]string{"m"}, []string{`module m { namespace "urn:m"; prefix m; ` + b + ` }`}, sgc.Opts{Features: sgc.AllFeatures{}})
		fmt.Printf("%-90s %s\n", b, res.Describe())
		if res.OK() {
			ty := res.MS.Child("a").Type()
			var acc []string
			for _, v := range []string{"0", "1", "2", "5", "10", "15", "20", "30", "40", "127", "-128", "255", "ab", "abcdefghij", "abcde", "a"} {
				if ty.Validate(nil, []string{"a"}, v) == nil {
					acc = append(acc, v)
				}
			}
			fmt.Println("      accepts", acc)
		}
	}
}
