package dbgx

import (
	"fmt"
	"testing"

	"verifharness/sgc"
)

func comp(label string, names, texts []string) {
	res := sgc.CompileTexts(names, texts, sgc.Opts{Features: sgc.AllFeatures{}})
	fmt.Println(label, "=>", res.Describe(), "parseErr:", res.ParseErr)
}

func TestX(t *testing.T) {
	m := `module m { namespace "urn:m"; prefix m; grouping g { leaf a { type string; } container c; list l { key k; leaf k { type string; } } } container top { uses g { %s } } }`
	for _, r := range []string{
		`refine a { type string; }`, `refine a { key "x"; }`, `refine a { units "u"; }`, `refine a { status deprecated; }`, `refine a { when "1"; }`, `refine a { if-feature f; }`,
		`refine a { leaf z { type string; } }`, `refine a { presence "x"; }`, `refine c { default "x"; }`, `refine c { mandatory true; }`, `refine a { min-elements 1; }`, `refine l { presence "p"; }`,
		`refine a { description "d"; description "e"; }`, `refine a { default "x"; default "y"; }`, `refine a { config false; config true; }`, `refine a { mandatory true; mandatory false; }`,
		`refine c { presence "a"; presence "b"; }`, `refine l { min-elements 1; min-elements 2; }`, `refine a { reference "r"; reference "s"; }`, `refine a { must "1"; must "2"; }`,
	} {
		comp(r, []string{"m"}, []string{fmt.Sprintf(m, r)})
	}
	b := `module b { namespace "urn:b"; prefix b; container top { leaf a { type string; } leaf-list ll { type string; } list l { key k; leaf k { type string; } leaf v { type string; } } } }`
	d := `module d { namespace "urn:d"; prefix d; import b { prefix b; } deviation /b:top/b:%s { %s } }`
	for _, r := range [][2]string{
		{"a", `deviate not-supported { type string; }`}, {"a", `deviate not-supported { description "x"; }`}, {"a", `deviate add { description "x"; }`}, {"a", `deviate add { type string; }`},
		{"a", `deviate add { status deprecated; }`}, {"a", `deviate delete { type string; }`}, {"a", `deviate delete { config false; }`}, {"a", `deviate delete { mandatory true; }`},
		{"a", `deviate replace { must "1"; }`}, {"l", `deviate replace { unique "v"; }`}, {"a", `deviate replace { description "x"; }`}, {"a", `deviate add { leaf z { type string; } }`},
		{"a", `deviate add { units "u"; units "v"; }`}, {"a", `deviate add { default "u"; default "v"; }`}, {"a", `deviate replace { type string; type int8; }`}, {"ll", `deviate add { min-elements 1; min-elements 2; }`},
		{"a", `deviate delete { units "u"; units "v"; }`}, {"a", `deviate add { config false; config false; }`},
	} {
		comp(r[0]+": "+r[1], []string{"b", "d"}, []string{b, fmt.Sprintf(d, r[0], r[1])})
	}
}
