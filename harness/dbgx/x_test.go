package dbgx

import (
	"fmt"
	"testing"

	"verifharness/sgc"

	"github.com/sdcio/yang-parser/data/encoding"
	"github.com/sdcio/yang-parser/schema"
)

func TestX(t *testing.T) {
	m0 := `module m0 { namespace "urn:verif:m0"; prefix m0; identity b0; identity d1 { base b0; } identity d2 { base d1; } container m0-top { leaf-list ll2 { type identityref { base b0; } } } }`
	m1 := `module m1 { namespace "urn:verif:m1"; prefix m1; import m0 { prefix m0; } identity e1 { base m0:d1; } identity d2 { base m0:b0; } }`
	res := sgc.CompileTexts([]string{"m0", "m1"}, []string{m0, m1}, sgc.Opts{Features: sgc.AllFeatures{}})
	fmt.Println(res.Describe())
	n := res.MS.Child("m0-top").Child("ll2")
	for _, id := range n.Type().(schema.Identityref).Identities() {
		fmt.Printf("%+v\n", *id)
	}
	for _, doc := range []string{
		`<root><m0-top xmlns="urn:verif:m0"><ll2 xmlns="urn:verif:m0" xmlns:m1="urn:verif:m1">m1:d2</ll2></m0-top></root>`,
		`<root><m0-top xmlns="urn:verif:m0"><ll2 xmlns="urn:verif:m0" xmlns:m0="urn:verif:m1" xmlns:m1="urn:verif:m0">m0:d2</ll2></m0-top></root>`,
		`<root><m0-top xmlns="urn:verif:m0"><ll2 xmlns="urn:verif:m0" xmlns:q="urn:verif:m1">q:d2</ll2></m0-top></root>`,
	} {
		dn, err := encoding.NewUnmarshaller(encoding.XML).SetValidation(schema.ValidateAll).Unmarshal(res.MS, []byte(doc))
		if err != nil {
			fmt.Println("err", err)
			continue
		}
		fmt.Println(string(encoding.ToRFC7951(res.MS, dn)))
	}
}
